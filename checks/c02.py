"""C02 - malformed or hostile bytes never crash a reader or desynchronise the stream.

World (W-wire): one real client logged in to the scripted server, with four inbound byte
sources: the server connection, a P connection accepted on the clear port, a P connection
accepted on the obfuscated port (every frame obfuscated with its own key) and a D connection
(obfuscation dropped after the init message).  Each source sends a list of frames, valid
(one benign instance of every message class of the link's family the actor can build) or
malformed (always with a correct length prefix); separate steps tear a link down (truncated
frame + EOF / silence, FIN, RST between or inside frames) or open a fresh connection whose
first frame is bad.

Oracle (MessageReceivedEvent on the public bus, own listener at priority 0): per connection the
delivered messages are exactly the valid frames, once each, in order, equal by dataclass
equality; a malformed frame accounts for zero or one event; after the list a probe frame is
still delivered on every link that was not torn down and on which no link-closing message was
delivered; torn-down links reach CLOSED within the read timeout; the loop exception handler
stays silent; one loop iteration never takes more than WATCHDOG_S of wall time.
"""
from __future__ import annotations

import asyncio
import dataclasses
import gc
import random
import signal
import struct
import zlib

from aioslsk.protocol import messages as M
from aioslsk.protocol import obfuscation
from aioslsk.protocol import primitives as PR
from aioslsk.events import ConnectionStateChangedEvent, MessageReceivedEvent, PeerInitializedEvent
from aioslsk.network.connection import (
    ConnectionState, ListeningConnection, PeerConnection, ServerConnection)

from sim.loop import SimCrash
from sim.net import Tap
from sim.world import World
from . import common

PROPERTY = 'C02'
INFO = {
    'level': 'exploration',
    'rule': ('plans = per source (server, P clear, P obfuscated, D) a list of 1..12 frames, each valid (drawn from '
             'the pool of all buildable message classes of the family, repetitions of stateful notifications '
             'favoured) or malformed (random body, truncated body, single bit flip, lying array/string count, invalid '
             'UTF-8, invalid cp1252, corrupt/truncated/bomb zlib, unknown code, zero-length body, message of another '
             'family), per-source segmentation from 1-byte dribble to the whole list in one segment, inter-frame '
             'delays, the four sources running concurrently; 20 % of plans add one teardown step (truncated frame + '
             'EOF, truncated frame + silence, FIN, RST between frames, RST inside a frame, frame with a lying length prefix '
             '+ silence), 25 % open fresh '
             'connections whose first frame is bad; non-trivial = at least one malformed frame or fault step was '
             'sent; distinct = signature over per-link frame labels, delivered counts, final states and regimes'),
    'real': common.REAL, 'stub': common.STUB,
    'assumptions': [
        'scripted server/peers encode valid frames with aioslsk message classes (codec is trusted base); a frame '
        'counts as valid only if it round-trips through the codec',
        'a malformed frame may account for zero or one delivered message of any content (a bit flip can be a legal message)',
        'frames that reach the client in the same virtual instant as an injected FIN/RST, or later, may or may not be delivered',
        'delivery of PeerSearchReply (P), DistributedBranchLevel/BranchRoot (D), ResetDistributed (server, affects D) or '
        'Kicked (server) may legitimately end the link: the expected sequence of that link ends there if the link is CLOSED',
        'truncated frame + silence must close a peer/distributed link within 60 s x (1 + messages the client sent on that '
        'link meanwhile) + 5 s (every send shifts the read deadline by one read timeout); not exercised on the server link '
        '(600 s timeout shifted by every ping)',
        'a frame whose length prefix lies is outside the premise of the delivery clauses: after it only "the silent link is '
        'closed by the read timeout" (the reader is alive) and the frames sent before it are judged',
        'an unretrieved ConnectionWriteError of a fire-and-forget reply task (queue_message) on a link that just went away '
        'is counted as a probe, not as C02.task_died (no reader involved, not caused by parsing)',
        'connection._reader_task (private) is read only to describe a reader_dead finding; the verdict is the undelivered probe frame',
        'wall-time watchdog: SIGALRM re-armed after every loop iteration',
    ],
}

LINKS = ('server', 'pclear', 'pobf', 'dist')
FAMILY = {'server': 'server', 'pclear': 'peer', 'pobf': 'peer', 'dist': 'dist'}
WATCHDOG_S = 5.0
READ_TIMEOUT = 60.0          # PEER_READ_TIMEOUT (DESIGN.md appendix E), hard-coded on purpose
CLOSE_BOUND = 10.0           # latency + DISCONNECT_TIMEOUT (5 s) + slack
PROBE_BOUND = 3.0
EPS = 5e-10

# ----------------------------------------------------------------------------- message pool

_FAMILIES = {
    'server': (M.ServerMessage, 'Response', M.ServerMessage.deserialize_response),
    'peer': (M.PeerMessage, 'Request', M.PeerMessage.deserialize_request),
    'dist': (M.DistributedMessage, 'Request', M.DistributedMessage.deserialize_request),
    'init': (M.PeerInitializationMessage, 'Request', M.PeerInitializationMessage.deserialize_request),
}


def _family_classes(family):
    base, attr, _ = _FAMILIES[family]
    out = {}
    for sub in base.__subclasses__():
        cls = getattr(sub, attr, None)
        if cls is not None:
            out[f"{sub.__name__}.{attr}"] = cls
    return out


CLASSES = {fam: _family_classes(fam) for fam in _FAMILIES}
COMPRESSED = ('PeerSharesReply.Request', 'PeerSearchReply.Request', 'PeerDirectoryContentsReply.Request')

# classes whose delivery may legitimately end a link (the handler closes it, or the protocol lets it)
CLOSERS = {
    'server': ('Kicked.Response',),
    'peer': ('PeerSearchReply.Request',),
    'dist': ('DistributedBranchLevel.Request', 'DistributedBranchRoot.Request'),
}
CROSS_CLOSERS = {'ResetDistributed.Response': ('dist',)}    # delivered on the server link, ends D links

# notifications that carry session state: repeated on purpose
STATEFUL = {
    'server': ('WishlistInterval.Response', 'ParentMinSpeed.Response', 'ParentSpeedRatio.Response',
               'RoomList.Response', 'PrivilegedUsers.Response', 'ExcludedSearchPhrases.Response',
               'CheckPrivileges.Response', 'Login.Response', 'MinParentsInCache.Response',
               'ParentInactivityTimeout.Response', 'SearchInactivityTimeout.Response',
               'DistributedAliveInterval.Response', 'PotentialParents.Response', 'ResetDistributed.Response',
               'GetUserStats.Response', 'JoinRoom.Response', 'Kicked.Response', 'ConnectToPeer.Response'),
    'peer': ('PeerTransferRequest.Request', 'PeerTransferQueue.Request', 'PeerUserInfoRequest.Request',
             'PeerSharesRequest.Request', 'PeerUserInfoReply.Request', 'PeerSharesReply.Request',
             'PeerDirectoryContentsReply.Request', 'PeerTransferQueueFailed.Request'),
    'dist': ('DistributedBranchLevel.Request', 'DistributedBranchRoot.Request', 'DistributedSearchRequest.Request',
             'DistributedChildDepth.Request', 'DistributedServerSearchRequest.Request'),
}

_INT_TYPES = (PR.uint8, PR.uint16, PR.uint32, PR.uint64, PR.int32)


def _string_for(name, var, idx, size):
    if name in ('username', 'usernames', 'users', 'user'):
        if idx == 0 and var % 11 == 0:
            return 'alice'
        s = f"u{(var + idx) % 6}" if size < 4 else f"u{var % 6}-{idx}"
    elif name == 'room' or name.startswith('rooms'):
        s = f"r{(var + idx) % 3}"
    elif name == 'typ':
        return 'PDF'[var % 3]
    elif name in ('country_code', 'users_countries'):
        return ('BE', 'NL', '')[(var + idx) % 3]
    elif name == 'md5hash':
        return '0123456789abcdef' * 2
    else:
        s = f"{name[:5]}-{var}-{idx}"
    if var % 7 == 3:
        s += '-é漢\U0001f3b5'
    if size == 3:
        s += '.' + 'x' * (140 + var % 40)
    elif size == 2:
        s += '.' + 'y' * (20 + var % 30)
    return s


def _int_for(ftype, name, var, idx):
    if name in ('status', 'users_status'):
        return (var + idx) % 3
    if name == 'direction':
        return var % 2
    if name == 'upload_permissions':
        return var % 4
    if name == 'port':
        return 2000 + var % 1000
    if name == 'obfuscated_port_amount':
        return 1
    if name == 'obfuscated_port':
        return 2001 + var % 1000
    if name in ('interval', 'timeout', 'time_left'):
        return 701 + 2 * var            # odd, several bits set: no single bit flip turns it into 0
    if name == 'distributed_code':
        return 3 if var % 3 else 9
    if name in ('speed', 'ratio', 'amount'):
        return 1 + var % 50
    if ftype is PR.uint8:
        return (var * 7 + idx) % 256
    if ftype is PR.uint16:
        return (var * 31 + idx) % 65536
    if ftype is PR.uint64:
        return var * 1000003 + idx
    if ftype is PR.int32:
        return (var + idx) % 11 - 5
    return (var * 7 + idx * 3) % 100000


def _value_for(ftype, subtype, name, var, idx, n, size, depth):
    if dataclasses.is_dataclass(ftype):
        return _build_dataclass(ftype, var + idx, n, size, depth + 1)
    if isinstance(ftype, type) and issubclass(ftype, PR.array):
        count = n if depth == 0 else min(n, 3)
        return [_value_for(subtype, None, name, var, i, n, size, depth + 1) for i in range(count)]
    if isinstance(ftype, type) and issubclass(ftype, PR.string):
        return _string_for(name, var, idx, size)
    if isinstance(ftype, type) and issubclass(ftype, PR.bytearr):
        return bytes((var + i) % 256 for i in range((var * 13) % 300))
    if isinstance(ftype, type) and issubclass(ftype, PR.ipaddr):
        return f"10.77.{var % 200}.{idx % 200 + 1}"
    if isinstance(ftype, type) and issubclass(ftype, PR.boolean):
        return bool((var >> (idx % 3)) & 1)
    if isinstance(ftype, type) and issubclass(ftype, _INT_TYPES):
        base = next(t for t in _INT_TYPES if issubclass(ftype, t))
        return _int_for(base, name, var, idx)
    raise TypeError(f"no value rule for {ftype!r}")


def _build_dataclass(cls, var, n, size, depth=0):
    values = {}
    with_optional = (var % 2 == 0)
    bool_idx = 0

    def leave_out(f):
        # absent on the wire: the decoder leaves the dataclass default in place
        has_default = f.default is not dataclasses.MISSING or f.default_factory is not dataclasses.MISSING
        if not has_default:
            values[f.name] = None

    for f in dataclasses.fields(cls):
        md = f.metadata
        if 'if_true' in md and not values.get(md['if_true']):
            values[f.name] = None
            continue
        if 'if_false' in md and values.get(md['if_false']):
            values[f.name] = None
            continue
        if 'optional' in md and not with_optional:
            leave_out(f)
            continue
        ftype = md['type']
        idx = 0
        if isinstance(ftype, type) and issubclass(ftype, PR.boolean):
            idx = bool_idx
            bool_idx += 1
        values[f.name] = _value_for(ftype, md.get('subtype'), f.name, var, idx, n, size, depth)
    return cls(**values)


def build_message(family, name, var):
    """One benign instance of the class, a pure function of (family, name, var); body <= 4 KiB."""
    cls = CLASSES[family][name]
    size = var % 5
    n = (0, 1, 3, 2, 64)[size]
    while True:
        msg = _build_dataclass(cls, var, n, size)
        if len(msg.serialize()) <= 4096 + 4 or n == 0:
            return msg
        n = n // 2


def decode_family(family, frame):
    return _FAMILIES[family][2](frame)


def _roundtrips(family, msg):
    try:
        return decode_family(family, msg.serialize()) == msg
    except Exception:
        return False


def _make_pool():
    pool, left_out = {}, {}
    for fam in ('server', 'peer', 'dist'):
        names = []
        for name in CLASSES[fam]:
            try:
                ok = all(_roundtrips(fam, build_message(fam, name, var)) for var in range(0, 15))
                why = 'does not round-trip through the codec'
            except Exception as exc:   # cannot be built by the generic rules
                ok, why = False, f"{type(exc).__name__}: {exc}"
            if ok:
                names.append(name)
            else:
                left_out[f"{fam}:{name}"] = why
        pool[fam] = tuple(names)
    return pool, left_out


POOL, LEFT_OUT = _make_pool()


# ----------------------------------------------------------------------------- frame construction

def _split(msg):
    """(code bytes, payload bytes as on the wire) of a serialized message."""
    frame = msg.serialize()
    idlen = len(msg.MESSAGE_ID.serialize())
    return frame[4:4 + idlen], frame[4 + idlen:]


def _encode_marked(obj, buf, marks):
    """Serialise field by field (protocol layout: uint32 length-prefixed strings and arrays) and note where
    every string length / array count sits, so that exactly those can be made to lie."""
    for f in dataclasses.fields(obj):
        md = f.metadata
        value = getattr(obj, f.name)
        if value is None:
            continue
        if 'if_true' in md and not getattr(obj, md['if_true']):
            continue
        if 'if_false' in md and getattr(obj, md['if_false']):
            continue
        _encode_value(md['type'], md.get('subtype'), value, buf, marks)


def _encode_value(ftype, subtype, value, buf, marks):
    if dataclasses.is_dataclass(ftype):
        _encode_marked(value, buf, marks)
    elif issubclass(ftype, PR.array):
        marks.append((len(buf), 'arr', len(value)))
        buf.extend(struct.pack('<I', len(value)))
        for el in value:
            _encode_value(subtype, None, el, buf, marks)
    elif issubclass(ftype, PR.string):
        raw = value.encode('utf-8')
        marks.append((len(buf), 'str', len(raw)))
        buf.extend(struct.pack('<I', len(raw)))
        buf.extend(raw)
    elif issubclass(ftype, PR.bytearr):
        marks.append((len(buf), 'bytes', len(value)))
        buf.extend(struct.pack('<I', len(value)))
        buf.extend(value)
    else:
        buf.extend(ftype(value).serialize())


def marked_payload(msg, compressed):
    """(uncompressed payload, marks) or (payload, None) when the field walk does not reproduce the codec's bytes."""
    _, payload = _split(msg)
    raw = zlib.decompress(payload) if compressed else payload
    buf, marks = bytearray(), []
    try:
        _encode_marked(msg, buf, marks)
    except Exception:
        return raw, None
    if bytes(buf) != raw:
        return raw, None
    return raw, marks


def _heuristic_marks(raw):
    return [(i, 'arr', 0) for i in range(0, max(len(raw) - 3, 0))
            if struct.unpack_from('<I', raw, i)[0] <= len(raw)][:64]


RANDOM_LENGTHS = (0, 1, 3, 4, 5, 127, 128, 129, 1000, 4096)
MALFORMED = ('random', 'truncate', 'bitflip', 'countlie', 'badutf8', 'badcp1252', 'zlib', 'unknown_code', 'zero',
             'wrong_family')
_BAD_UTF8 = bytes([0xE9, 0xFF, 0xFE, 0xC0, 0xE8])           # invalid UTF-8, valid cp1252
_BAD_CP1252 = bytes([0x81, 0x8D, 0x8F, 0x90, 0x9D])         # undefined in cp1252 and invalid UTF-8


def _unknown_codes(family):
    known = {int(cls.MESSAGE_ID) for cls in CLASSES[family].values()}
    if family == 'dist':
        known |= {c & 0xFF for c in known}
        return [bytes([c]) for c in (2, 6, 8, 100, 200, 255) if c not in known]
    return [struct.pack('<I', c) for c in (2, 0x7777, 0xFFFFFFFF, 10000, 0x01000000, 99) if c not in known]


def malformed_body(rec, family):
    """Body (code + payload) of a malformed frame; a pure function of the plan record."""
    mal = rec['mal']
    a, b = int(rec.get('a', 0)), int(rec.get('b', 0))
    rng = random.Random(f"c02/{rec.get('rs', 0)}")
    name = rec.get('cls')
    if name not in CLASSES[family]:
        name = POOL[family][0]
    compressed = name in COMPRESSED and family == 'peer'
    msg = build_message(family, name, int(rec.get('var', 0)))
    code, payload = _split(msg)
    body = code + payload
    if mal == 'zlib' and not compressed:
        mal = 'random'
        b |= 1
    if mal in ('countlie', 'badutf8', 'badcp1252'):
        raw, marks = marked_payload(msg, compressed)
        if marks is None:
            marks = _heuristic_marks(raw)
        if mal != 'countlie':
            marks = [m for m in marks if m[1] == 'str' and m[2] >= 1]
        if not marks:
            mal = 'truncate'
        else:
            off, kind, n = marks[a % len(marks)]
            raw = bytearray(raw)
            if mal == 'countlie':
                remaining = len(raw) - off - 4
                value = (0xFFFFFFFF, remaining + 1, 0x7FFFFFFF, n + 1, 0x00FFFFFF)[b % 5]
                raw[off:off + 4] = struct.pack('<I', value & 0xFFFFFFFF)
            else:
                pat = _BAD_UTF8 if mal == 'badutf8' else _BAD_CP1252
                raw[off + 4:off + 4 + n] = bytes(pat[(i + b) % len(pat)] for i in range(n))
            payload = zlib.compress(bytes(raw)) if compressed else bytes(raw)
            return code + payload
    if mal == 'random':
        n = RANDOM_LENGTHS[a % len(RANDOM_LENGTHS)]
        body = rng.randbytes(n)
        if b % 2 and n >= len(code):
            body = code + body[len(code):]      # known code: the field parsers are reached
        return body
    if mal == 'truncate':
        return body[:a % len(body)]
    if mal == 'bitflip':
        bit = a % (8 * len(body))
        out = bytearray(body)
        out[bit // 8] ^= 1 << (bit % 8)
        return bytes(out)
    if mal == 'zlib':
        mode = a % 7
        if mode == 0 and len(payload) > 2:
            p = bytearray(payload)
            p[2 + b % (len(p) - 2)] ^= 0xFF
            payload = bytes(p)
        elif mode == 1:
            payload = payload[:max(len(payload) // 2, 1)]
        elif mode == 2:
            payload = rng.randbytes(RANDOM_LENGTHS[b % len(RANDOM_LENGTHS)])
        elif mode == 3:
            payload = zlib.compress(rng.randbytes(200 + b % 1800))
        elif mode == 4:
            payload = zlib.compress(b'\x00' * (4_000_000 if b % 2 else 400_000), 9)
        elif mode == 5:
            payload = payload + rng.randbytes(1 + b % 64)
        else:
            payload = payload[:2] + rng.randbytes(40)      # plausible zlib header, garbage after it
        return code + payload
    if mal == 'unknown_code':
        codes = _unknown_codes(family)
        ucode = codes[a % len(codes)]
        return ucode + (payload if b % 2 else b'')
    if mal == 'zero':
        mode = a % 3
        if mode == 0:
            return b''
        if mode == 1:
            return code
        return code[:1]
    if mal == 'wrong_family':
        fam2 = rec.get('fam2', 'server')
        if fam2 == family or fam2 not in CLASSES:
            fam2 = 'init'
        names = sorted(CLASSES[fam2])
        name2 = rec.get('cls2') if rec.get('cls2') in CLASSES[fam2] else names[a % len(names)]
        try:
            return build_message(fam2, name2, int(rec.get('var', 0))).serialize()[4:]
        except Exception:
            return M.PeerInit.Request('x', 'P', 1).serialize()[4:]
    raise ValueError(mal)


def make_frame(rec, family):
    """-> (clear frame incl. length prefix, message or None, label)."""
    if rec['kind'] == 'valid':
        name = rec['cls'] if rec['cls'] in POOL[family] else POOL[family][0]
        msg = build_message(family, name, int(rec.get('var', 0)))
        if rec.get('big') and hasattr(msg, 'query'):
            msg.query = 'q' * int(rec['big'])       # a search request large enough to fill a send path
        frame = msg.serialize()
        if not _roundtrips(family, msg):
            return frame, None, 'm:unroundtrippable'
        return frame, msg, 'v:' + name
    body = malformed_body(rec, family)
    return struct.pack('<I', len(body)) + body, None, 'm:' + rec['mal']


def wire(frame, obfuscated, key_hex):
    if not obfuscated:
        return frame
    key = bytes.fromhex(key_hex or '11223344')[:4].ljust(4, b'\x01')
    return obfuscation.encode(frame, key=key)


PROBES = {
    'server': M.AdminMessage.Response('c02-probe'),
    'peer': M.PeerUploadFailed.Request('c02-probe'),
    'dist': M.DistributedChildDepth.Request(424242),
}

BADFIRST = ('unknown_code', 'zero', 'code_only', 'lying_string', 'truncated_init', 'peer_message',
            'server_message', 'random')


def badfirst_frame(rec):
    what = rec['what']
    rng = random.Random(f"c02bf/{rec.get('rs', 0)}")
    if what == 'unknown_code':
        body = bytes([2 + rec.get('rs', 0) % 250]) + rng.randbytes(rec.get('rs', 0) % 40)
    elif what == 'zero':
        body = b''
    elif what == 'code_only':
        body = b'\x01'
    elif what == 'lying_string':
        body = b'\x01' + struct.pack('<I', 0xFFFFFFFF) + rng.randbytes(12)
    elif what == 'truncated_init':
        full = M.PeerInit.Request('badfirst-user', 'P', 1).serialize()[4:]
        body = full[:2 + rec.get('rs', 0) % (len(full) - 7)]
    elif what == 'peer_message':
        body = M.PeerUserInfoRequest.Request().serialize()[4:]
    elif what == 'server_message':
        body = M.GetUserStatus.Response('someone', 2, False).serialize()[4:]
    else:
        n = RANDOM_LENGTHS[1 + rec.get('rs', 0) % (len(RANDOM_LENGTHS) - 1)]
        body = rng.randbytes(n)
        body = bytes([2 + body[0] % 250]) + body[1:]
    return struct.pack('<I', len(body)) + body


# ----------------------------------------------------------------------------- generator

SEG_REGIMES = ('onesegment', 'whole', 'prf', 'byte')
GAPS = (0.0, 0.0, 0.0, 0.001, 0.01, 0.1, 1.0)
TEARDOWNS = ('trunc_eof', 'trunc_silence', 'fin', 'rst', 'rst_mid', 'lenlie_silence')
SILENCES = ('trunc_silence', 'lenlie_silence')


def _draw_valid(rng, fam, prev):
    if prev is not None and rng.random() < 0.15:
        rec = dict(prev)
        if rng.random() < 0.5:
            rec['var'] = rng.randint(0, 200)
        return rec
    r = rng.random()
    if r < 0.35:
        name = rng.choice([n for n in STATEFUL[fam] if n in POOL[fam]] or POOL[fam])
    else:
        name = rng.choice(POOL[fam])
    if name in CLOSERS[fam] and fam == 'peer' and rng.random() < 0.7:
        name = rng.choice(POOL[fam])
    return {'kind': 'valid', 'cls': name, 'var': rng.randint(0, 200)}


def _draw_malformed(rng, fam):
    mal = rng.choice(MALFORMED)
    rec = {'kind': 'mal', 'mal': mal, 'cls': rng.choice(POOL[fam]), 'var': rng.randint(0, 200),
           'a': rng.randint(0, 1 << 16), 'b': rng.randint(0, 255), 'rs': rng.getrandbits(24)}
    if mal == 'zlib' and fam == 'peer':
        rec['cls'] = rng.choice(COMPRESSED)
    if mal in ('countlie', 'badutf8', 'badcp1252') and rng.random() < 0.4 and fam == 'peer':
        rec['cls'] = rng.choice(COMPRESSED)
    if mal in ('truncate', 'bitflip') and rng.random() < 0.5:
        rec['var'] = rec['var'] - rec['var'] % 5 + rng.choice((2, 3, 4))      # a body well over 129 bytes
    if mal == 'wrong_family':
        rec['fam2'] = rng.choice([f for f in ('server', 'peer', 'dist', 'init') if f != fam])
    return rec


def generate(rng, index, tier):
    net = {'base_ms': rng.choice([1, 5, 20]), 'jitter_ms': rng.choice([0, 0, 5, 40]), 'segmentation': 'whole',
           'coalesce': rng.random() < 0.6, 'byte_mode_max': rng.choice([512, 8192]), 'links': {}}
    regimes = {}
    for link in LINKS:
        regime = rng.choice(SEG_REGIMES)
        regimes[link] = regime
        host = 'server' if link == 'server' else link
        net['links'][f"{host}>alice"] = {
            'base_ms': rng.choice([1, 5, 20, 60]), 'jitter_ms': rng.choice([0, 0, 10, 100]),
            'segmentation': {'onesegment': 'whole', 'whole': 'whole', 'prf': 'prf', 'byte': 'byte'}[regime]}
    frames = []
    counts = {}
    for link in LINKS:
        fam = FAMILY[link]
        n = rng.randint(1, 12)
        counts[link] = n
        prev = None
        p_mal = rng.choice([0.2, 0.5, 0.5, 0.8])
        for _ in range(n):
            if rng.random() < p_mal:
                rec = _draw_malformed(rng, fam)
            else:
                rec = _draw_valid(rng, fam, prev)
                prev = rec
            rec = dict(rec, src=link, gap=rng.choice(GAPS))
            if link == 'pobf':
                rec['key'] = '%08x' % rng.getrandbits(32)
            frames.append(rec)
    rng.shuffle(frames)
    teardown = None
    if rng.random() < 0.2:
        src = rng.choice(LINKS)
        kind = rng.choice(TEARDOWNS)
        if src == 'server' and kind in SILENCES:
            kind = 'trunc_eof'
        teardown = {'src': src, 'kind': kind, 'after': rng.randint(0, counts[src]), 'cut': rng.randint(1, 4000),
                    'lag': rng.choice([0.0, 0.05, 1.0]), 'cls': rng.choice(POOL[FAMILY[src]]),
                    'var': rng.randint(0, 200), 'key': '%08x' % rng.getrandbits(32)}
    slowfirst = []
    if rng.random() < 0.2:
        for _ in range(rng.randint(1, 2)):
            slowfirst.append({'port': rng.choice(('clear', 'obf')), 'cut': rng.choice([0, 1, 3, 4, 5, 9, 20]),
                              'stall': rng.choice([0.5, 3.0, 4.9, 5.1, 8.0, 20.0, 45.0]),
                              'at': round(rng.uniform(0.0, 2.0), 2)})
    badfirst = []
    if rng.random() < 0.25:
        for _ in range(rng.randint(1, 2)):
            badfirst.append({'port': rng.choice(('clear', 'obf')), 'what': rng.choice(BADFIRST),
                             'at': round(rng.choice([0.0, 0.0, 0.5, 2.0]) + rng.random() * 0.1, 4),
                             'rs': rng.getrandbits(16), 'key': '%08x' % rng.getrandbits(32)})
    plan = {'seed': rng.getrandbits(32), 'net': net, 'regimes': regimes, 'dist_obf': rng.random() < 0.5,
            'frames': frames, 'teardown': teardown, 'badfirst': badfirst, 'slowfirst': slowfirst}
    if rng.random() < 0.12:
        plan['raising_matcher'] = True
    if rng.random() < 0.1 and 'ServerSearchRequest.Response' in POOL['server']:
        # the distributed child never reads and the server sends search requests large enough to fill the send path
        plan['child_stall'] = True
        for i in range(rng.randint(1, 4)):
            frames.insert(rng.randint(0, len(frames)), {
                'src': 'server', 'kind': 'valid', 'cls': 'ServerSearchRequest.Response', 'var': rng.randint(0, 200),
                'gap': rng.choice(GAPS), 'key': '%08x' % rng.getrandbits(32), 'big': rng.choice([30000, 60000])})
    return plan


_BASE_NET = {'base_ms': 5, 'jitter_ms': 0, 'segmentation': 'whole', 'coalesce': True, 'byte_mode_max': 8192, 'links': {}}
_A = {'server': ('AdminMessage.Response', 'GetUserStatus.Response'),
      'peer': ('PeerUploadFailed.Request', 'PeerPlaceInQueueReply.Request'),
      'dist': ('DistributedChildDepth.Request', 'DistributedSearchRequest.Request')}


def _plan(frames, regimes=None, teardown=None, badfirst=(), dist_obf=False, net=None):
    return {'seed': 1, 'net': net or dict(_BASE_NET), 'regimes': regimes or {l: 'whole' for l in LINKS},
            'dist_obf': dist_obf, 'frames': frames, 'teardown': teardown, 'badfirst': list(badfirst)}


def corpus(tier):
    out = []
    key = 'a1b2c3d4'
    # 1. every malformed class on every link, between two valid frames, three parameter settings each
    for link in LINKS:
        fam = FAMILY[link]
        va = {'src': link, 'kind': 'valid', 'cls': _A[fam][0], 'var': 3, 'gap': 0.0, 'key': key}
        vb = {'src': link, 'kind': 'valid', 'cls': _A[fam][1], 'var': 4, 'gap': 0.0, 'key': '0badf00d'}
        for mal in MALFORMED:
            for k in range(3):
                cls = COMPRESSED[k % 3] if (fam == 'peer' and mal in ('zlib', 'countlie')) else \
                    [n for n in POOL[fam] if n not in CLOSERS[fam]][(7 * k + 3) % (len(POOL[fam]) - 2)]
                rec = {'src': link, 'kind': 'mal', 'mal': mal, 'cls': cls, 'var': 4 + 5 * k, 'a': 1 + 4 * k, 'b': k,
                       'rs': 17 + k, 'gap': 0.0, 'key': 'deadbeef', 'fam2': ('server', 'peer', 'init')[k]}
                out.append(_plan([va, rec, vb]))
    # 2. zlib modes on both P links
    for link in ('pclear', 'pobf'):
        va = {'src': link, 'kind': 'valid', 'cls': _A['peer'][0], 'var': 3, 'gap': 0.0, 'key': key}
        for mode in range(7):
            for b in (0, 1):
                rec = {'src': link, 'kind': 'mal', 'mal': 'zlib', 'cls': COMPRESSED[mode % 3], 'var': 9, 'a': mode,
                       'b': b, 'rs': mode, 'gap': 0.0, 'key': '01020304'}
                out.append(_plan([va, rec, dict(va, var=8)]))
    # 3. every valid class once (lists of 12) and every stateful notification twice in a row
    for link in ('server', 'pclear', 'dist'):
        fam = FAMILY[link]
        names = [n for n in POOL[fam] if n not in CLOSERS[fam] and n not in CROSS_CLOSERS]
        for var in (0, 2, 4):
            for i in range(0, len(names), 12):
                out.append(_plan([{'src': link, 'kind': 'valid', 'cls': n, 'var': var, 'gap': 0.0, 'key': key}
                                  for n in names[i:i + 12]]))
        for n in STATEFUL[fam]:
            if n in POOL[fam]:
                out.append(_plan([{'src': link, 'kind': 'valid', 'cls': n, 'var': v, 'gap': g, 'key': key}
                                  for v, g in ((1, 0.0), (1, 0.0), (6, 0.5))]))
    # 4. closers: the link may end there
    out.append(_plan([{'src': 'pclear', 'kind': 'valid', 'cls': 'PeerSearchReply.Request', 'var': 2, 'gap': 0.0},
                      {'src': 'pclear', 'kind': 'valid', 'cls': _A['peer'][0], 'var': 1, 'gap': 0.5}]))
    out.append(_plan([{'src': 'dist', 'kind': 'valid', 'cls': 'DistributedBranchLevel.Request', 'var': 0, 'gap': 0.0},
                      {'src': 'dist', 'kind': 'valid', 'cls': 'DistributedBranchRoot.Request', 'var': 1, 'gap': 0.1},
                      {'src': 'dist', 'kind': 'valid', 'cls': 'DistributedSearchRequest.Request', 'var': 1, 'gap': 0.1},
                      {'src': 'server', 'kind': 'valid', 'cls': 'ResetDistributed.Response', 'var': 1, 'gap': 1.0}]))
    # 5. segmentation regimes x a mixed list on all four links
    mixed = []
    for link in LINKS:
        fam = FAMILY[link]
        for i, mal in enumerate(('bitflip', None, 'random', None, 'countlie', 'truncate', None)):
            if mal is None:
                mixed.append({'src': link, 'kind': 'valid', 'cls': _A[fam][i % 2], 'var': 3 + i, 'gap': 0.0,
                              'key': '%08x' % (0x01010101 * (i + 1))})
            else:
                mixed.append({'src': link, 'kind': 'mal', 'mal': mal, 'cls': _A[fam][0], 'var': 3, 'a': 77 + i,
                              'b': i, 'rs': i, 'gap': 0.0, 'key': '%08x' % (0x10203040 + i)})
    for regime in SEG_REGIMES:
        for coalesce in (True, False):
            net = dict(_BASE_NET, coalesce=coalesce, links={
                f"{l}>alice": {'base_ms': 5, 'jitter_ms': 0,
                               'segmentation': 'whole' if regime == 'onesegment' else regime} for l in LINKS})
            out.append(_plan(mixed, regimes={l: regime for l in LINKS}, net=net, dist_obf=coalesce))
    for k in ('00000000', 'ffffffff', '80000001', '00000100'):
        out.append(_plan([dict(r, key=k) for r in mixed if r['src'] == 'pobf'], regimes={l: 'byte' for l in LINKS}))
    # 6. teardown steps on every link
    for link in LINKS:
        fam = FAMILY[link]
        lst = [{'src': link, 'kind': 'valid', 'cls': _A[fam][i % 2], 'var': i, 'gap': 0.01, 'key': key}
               for i in range(3)]
        for kind in TEARDOWNS:
            if link == 'server' and kind in SILENCES:
                continue
            for after in (0, 2, 3):
                for cut in ((6,) if kind != 'lenlie_silence' else range(9)):
                    out.append(_plan(lst, teardown={'src': link, 'kind': kind, 'after': after, 'cut': cut, 'lag': 0.05,
                                                    'cls': _A[fam][0], 'var': 3, 'key': key}))
    # 7. bad first frame on a fresh connection, both ports
    for port in ('clear', 'obf'):
        for what in BADFIRST:
            lst = [{'src': l, 'kind': 'valid', 'cls': _A[FAMILY[l]][0], 'var': 1, 'gap': 0.3, 'key': key}
                   for l in LINKS for _ in range(2)]
            out.append(_plan(lst, badfirst=[{'port': port, 'what': what, 'at': 0.2, 'rs': 5, 'key': key}]))
    # 9. a distributed child that never reads, search requests from the server large enough to fill the send path towards
    #    it, then the child's connection ends (truncated frame + EOF / RST): the server link keeps being read
    big = 'ServerSearchRequest.Response'
    if big in POOL['server']:
        for kind in ('trunc_eof', 'rst', 'fin'):
            if kind not in TEARDOWNS:
                continue
            for n in (2, 4):
                lst = [{'src': 'server', 'kind': 'valid', 'cls': big, 'var': 3 + i, 'gap': 0.05, 'key': key, 'big': 60000}
                       for i in range(n)]
                lst += [{'src': 'server', 'kind': 'valid', 'cls': _A['server'][0], 'var': 1, 'gap': 3.0, 'key': key}]
                lst += [{'src': 'dist', 'kind': 'valid', 'cls': 'DistributedChildDepth.Request', 'var': 1, 'gap': 1.5, 'key': key}]
                out.append(dict(_plan(lst, teardown={'src': 'dist', 'kind': kind, 'after': 1, 'cut': 3, 'lag': 0.0,
                                                      'cls': 'DistributedChildDepth.Request', 'var': 2, 'key': key}),
                                child_stall=True))
    # 10. the application waits for the very message classes that arrive, with field matchers of its own that fail
    for k in range(3):
        lst = [{'src': l, 'kind': 'valid', 'cls': _A[FAMILY[l]][(i + k) % 2], 'var': 1 + i, 'gap': 0.2, 'key': key}
               for l in ('server', 'pclear', 'pobf') for i in range(3)]
        out.append(dict(_plan(lst), raising_matcher=True))
    # 8. a well-formed first frame in two parts with a pause between them
    for port in ('clear', 'obf'):
        for cut in (0, 3, 9):
            for stall in (1.0, 6.0, 30.0):
                lst = [{'src': l, 'kind': 'valid', 'cls': _A[FAMILY[l]][0], 'var': 1, 'gap': 0.3, 'key': key} for l in LINKS]
                out.append(dict(_plan(lst), slowfirst=[{'port': port, 'cut': cut, 'stall': stall, 'at': 0.2}]))
    return out


def enumerated_axes(tier):
    return {
        'malformed_class x link': {'size': len(MALFORMED) * len(LINKS), 'exhaustive': True,
                                   'note': 'each cell with three parameter settings in the directed corpus'},
        'valid message classes': {'size': sum(len(POOL[f]) for f in POOL), 'exhaustive': True,
                                  'note': 'every buildable class of the three families is delivered at least once per batch'},
        'teardown kind x link': {'size': len(TEARDOWNS) * len(LINKS) - len(SILENCES), 'exhaustive': True,
                                 'note': 'the two silence kinds are not applicable to the server link (600 s timeout)'},
        'bad first frame kind x port': {'size': len(BADFIRST) * 2, 'exhaustive': True},
    }


SHRINK_LISTS = ('frames', 'badfirst', 'slowfirst')


def simplify(plan):
    if plan.get('teardown'):
        yield dict(plan, teardown=None)
    if plan.get('dist_obf'):
        yield dict(plan, dist_obf=False)
    if any(v != 'whole' for v in plan.get('regimes', {}).values()):
        cand = dict(plan, regimes={l: 'whole' for l in LINKS})
        cand['net'] = dict(plan['net'], links={})
        yield cand
    if plan['net'].get('links'):
        yield dict(plan, net=dict(plan['net'], links={}))
    for i, rec in enumerate(plan['frames']):
        for key, val in (('gap', 0.0), ('var', 0)):
            if rec.get(key) not in (None, val):
                cand = dict(plan, frames=[dict(r) for r in plan['frames']])
                cand['frames'][i][key] = val
                yield cand


# ----------------------------------------------------------------------------- run

class ParseTimeout(SimCrash):
    """Raised by the SIGALRM watchdog inside whatever code is running (SystemExit subclass: it
    passes through Task.__step and Handle._run)."""


class WireTap(Tap):
    """Arrival instants of written frames at the client, EOF/lost instants, client writes."""

    def __init__(self, world):
        self.world = world
        self.pending = {}       # (conn id, direction) -> [frame info dicts, in stream order]
        self.owner = {}         # (conn id, direction) -> link name
        self.eof_at = {}        # conn id -> time the client saw EOF
        self.lost_at = {}       # conn id -> time the client's transport was lost
        self.writes = {}        # conn id -> [times of client writes]
        self.current = None     # (link, label) of the frame whose bytes arrived last

    def watch(self, conn, direction, link):
        self.owner[(conn.id, direction)] = link
        self.pending.setdefault((conn.id, direction), [])

    def expect(self, conn, direction, info):
        self.pending[(conn.id, direction)].append(info)

    def on_data(self, conn, direction, data):
        lst = self.pending.get((conn.id, direction))
        if lst is None:
            return
        delivered = conn.pipe(direction).delivered
        now = self.world.loop.time()
        if lst:
            self.current = (self.owner[(conn.id, direction)], lst[0]['label'])
        while lst and delivered >= lst[0]['end']:
            info = lst.pop(0)
            info['arrived'] = now
            info['arrived_iter'] = self.world.loop.iterations

    def on_write(self, conn, direction, data):
        side = conn.src.name if direction == 'c2s' else conn.dst.name
        if side == 'alice':
            self.writes.setdefault(conn.id, []).append(self.world.loop.time())

    def on_eof(self, conn, direction):
        side = conn.dst.name if direction == 'c2s' else conn.src.name
        if side == 'alice':
            self.eof_at.setdefault(conn.id, self.world.loop.time())

    def on_lost(self, conn, side, exc):
        host = conn.src.name if side == 'a' else conn.dst.name
        if host == 'alice':
            self.lost_at.setdefault(conn.id, self.world.loop.time())


def run(plan):
    world = World(plan, PROPERTY)
    try:
        return _run(world, plan)
    finally:
        world.close()


def explain(frames, events):
    """Prefix DP.  ok[i][j]: the first i frames account for exactly the first j events (every valid
    frame one equal event, every malformed frame zero or one event of any content)."""
    n, m = len(frames), len(events)
    ok = [[False] * (m + 1) for _ in range(n + 1)]
    ok[0][0] = True
    for i in range(n):
        fr = frames[i]
        row, nxt = ok[i], ok[i + 1]
        for j in range(m + 1):
            if not row[j]:
                continue
            if fr['msg'] is not None:
                if j < m and events[j] == fr['msg']:
                    nxt[j + 1] = True
            else:
                nxt[j] = True
                if j < m:
                    nxt[j + 1] = True
    return ok


def _run(world: World, plan):
    loop = world.loop
    server = world.add_server()
    server.users['alice'] = {'stats': (10_000_000, 10, 5, 2)}      # children are accepted
    alice = world.add_client('alice')
    client = alice.client
    network = client.network
    tap = WireTap(world)
    world.net.taps.append(tap)
    fired = world.net.fired

    peers = {name: world.add_peer(name) for name in ('pclear', 'pobf', 'dist')}
    badfirst = list(plan.get('badfirst') or [])
    bf_peers = [world.add_peer(f"bf{i}") for i in range(len(badfirst))]
    slowfirst = list(plan.get('slowfirst') or [])
    sf_peers = [world.add_peer(f"sf{i}") for i in range(len(slowfirst))]
    sf = []
    late_peers = {port: world.add_peer(f"late{port}") for port in ('clear', 'obf')} if badfirst else {}

    regimes = plan.get('regimes') or {}
    teardown = plan.get('teardown')
    frames_by_link = {link: [r for r in plan['frames'] if r.get('src') == link] for link in LINKS}
    matcher_futs = []

    # ---- monitors (first listeners) ---------------------------------------------------
    ev_log = []                 # (t, iteration, connection, message)
    states = {}                 # id(conn) -> [(state, reason, t)]
    keep = []
    inited = {}                 # username -> connection
    listener_trouble = []

    def on_message_first(event):
        ev_log.append((loop.time(), loop.iterations, event.connection, event.message))

    def on_state_first(event):
        conn = event.connection
        if isinstance(conn, ListeningConnection):
            if started[0] and event.state in (ConnectionState.CLOSING, ConnectionState.CLOSED):
                listener_trouble.append((conn.port, event.state.name))
            return
        if id(conn) not in states:
            keep.append(conn)
        states.setdefault(id(conn), []).append((event.state, event.close_reason, loop.time()))

    def on_init_first(event):
        inited.setdefault(event.connection.username, event.connection)

    started = [False]
    for fn in (on_message_first, on_state_first, on_init_first):
        world.keep_alive.append(fn)
    client.events.register(MessageReceivedEvent, on_message_first, priority=0)
    client.events.register(ConnectionStateChangedEvent, on_state_first, priority=0)
    client.events.register(PeerInitializedEvent, on_init_first, priority=0)

    def closed_at(conn):
        for (st, _reason, t) in states.get(id(conn), []):
            if st == ConnectionState.CLOSED:
                return t
        return None

    def closing_at(conn):
        for (st, _reason, t) in states.get(id(conn), []):
            if st in (ConnectionState.CLOSING, ConnectionState.CLOSED):
                return t
        return None

    def close_reason(conn):
        for (st, reason, _t) in states.get(id(conn), []):
            if st in (ConnectionState.CLOSING, ConnectionState.CLOSED):
                return reason.name
        return None

    # ---- link plumbing ----------------------------------------------------------------------
    L = {link: {'name': link, 'family': FAMILY[link], 'sent': [], 'conn': None, 'sim': None, 'dir': None,
                'write': None, 'obf': False, 'torn': None, 'torn_at': None, 'probe': None, 'ev_from': 0,
                'state_at_probe': None, 'silence_from': None}
         for link in LINKS}
    L['pobf']['obf'] = True

    def link_write(lk, data, infos):
        """Write bytes on the link; ``infos`` = [(nbytes, info dict)] describing the frames inside."""
        pipe = lk['sim'].pipe(lk['dir'])
        base = pipe.written
        pos = 0
        for nbytes, info in infos:
            pos += nbytes
            info['end'] = base + pos
            info.setdefault('arrived', None)
            tap.expect(lk['sim'], lk['dir'], info)
        lk['write'](data)

    async def drain(link):
        while True:
            data = await link.read_some()
            if data is None:
                return

    async def open_peer_link(name, typ, port_obf, key_hex='5a6b7c8d'):
        peer = peers[name]
        link = await peer.connect(alice.host.ip, 60001 if port_obf else 60000, obfuscated=port_obf)
        link.typ = typ
        lk = L[name]
        lk['plink'] = link
        lk['sim'] = link.writer.transport.conn
        lk['dir'] = 'c2s'
        lk['write'] = link.send_raw
        tap.watch(lk['sim'], 'c2s', name)
        init = M.PeerInit.Request(name, typ, 1).serialize()
        link_write(lk, wire(init, port_obf, key_hex), [(len(wire(init, port_obf, key_hex)), {'label': 'init', 'msg': None})])
        if name == 'dist' and plan.get('child_stall'):
            # the distributed child never reads: whatever the client relays to it piles up in the send path
            fired['child_never_reads'] += 1
            link.writer.transport.pause_reading()
        else:
            peer.spawn(drain(link))

    def make_wire(lk, rec):
        frame, msg, label = make_frame(rec, lk['family'])
        data = wire(frame, lk['obf'], rec.get('key'))
        return data, {'label': label, 'msg': msg, 'size': len(frame)}

    async def source(lk):
        """Send the link's frame list (and the teardown step, if it is this link's)."""
        name = lk['name']
        recs = frames_by_link[name]
        td = teardown if teardown and teardown.get('src') == name else None
        td_after = min(int(td['after']), len(recs)) if td else None
        one = regimes.get(name) == 'onesegment'
        batch, infos = [], []

        def flush():
            if batch:
                link_write(lk, b''.join(batch), list(infos))
                batch.clear()
                infos.clear()

        for i, rec in enumerate(recs):
            if td is not None and i == td_after:
                flush()
                await do_teardown(lk, td)
                return
            data, info = make_wire(lk, rec)
            lk['sent'].append(info)
            if one:
                batch.append(data)
                infos.append((len(data), info))
            else:
                gap = float(rec.get('gap') or 0.0)
                if gap > 0:
                    await asyncio.sleep(gap)
                link_write(lk, data, [(len(data), info)])
        flush()
        if td is not None:
            await do_teardown(lk, td)

    def end_link(lk, how):
        if lk['name'] == 'server':
            session = server.session_of('alice') or server.sessions[-1]
            (session.abort if how == 'abort' else session.close)()
        else:
            (lk['plink'].abort if how == 'abort' else lk['plink'].close)()

    async def do_teardown(lk, td):
        kind = td['kind']
        if kind in SILENCES and lk['name'] == 'server':
            kind = 'trunc_eof'      # 600 s timeout shifted by every ping: out of scope (see INFO)
        lk['torn'] = kind
        lk['torn_at'] = loop.time()
        fired['teardown_' + kind] += 1
        rec = {'kind': 'valid', 'cls': td.get('cls'), 'var': td.get('var', 0), 'key': td.get('key')}
        frame, _msg, _label = make_frame(rec, lk['family'])
        data = wire(frame, lk['obf'], rec.get('key'))
        cut = 1 + int(td.get('cut', 1)) % (len(data) - 1)
        if kind in ('trunc_eof', 'trunc_silence'):
            info = {'label': 'partial', 'msg': None, 'partial': True}
            link_write(lk, data[:cut], [(cut, info)])
            lk['partial'] = info
            if kind == 'trunc_eof':
                lag = float(td.get('lag') or 0.0)
                if lag > 0:
                    await asyncio.sleep(lag)
                end_link(lk, 'close')
            else:
                lk['silence_from'] = loop.time()
        elif kind == 'lenlie_silence':
            # outside the premise of the delivery clauses (the length prefix lies, the stream is desynchronised for
            # good), inside "whatever bytes ...": the reader must stay alive, i.e. the silent link must still be
            # closed by the read timeout
            body = frame[4:]
            true = len(body)
            lies = (true - 1, true + 1, max(true - 4, 0), true + 7, true * 2 + 1, 0xFFFFFFF0, 0x7FFFFFFF, 3, 0)
            lie = lies[int(td.get('cut', 0)) % len(lies)]
            if lie == true:
                lie = true + 1
            blob = wire(struct.pack('<I', lie) + body, lk['obf'], rec.get('key'))
            for k in (1, 2):
                follower, _m, _l = make_frame(dict(rec, var=int(rec.get('var', 0)) + k), lk['family'])
                blob += wire(follower, lk['obf'], rec.get('key'))
            info = {'label': 'lenlie', 'msg': None, 'partial': True}
            link_write(lk, blob, [(len(blob), info)])
            lk['partial'] = info
            lk['silence_from'] = loop.time()
        elif kind == 'fin':
            end_link(lk, 'close')
        elif kind == 'rst':
            end_link(lk, 'abort')
        elif kind == 'rst_mid':
            pipe = lk['sim'].pipe(lk['dir'])
            lk['sim'].cut_after(lk['dir'], pipe.written + cut)
            info = {'label': 'cut', 'msg': None, 'partial': True}
            link_write(lk, data, [(len(data), info)])

    # ---- bad first frame episodes ------------------------------------------------------------
    bf = []

    async def badfirst_script(i, rec):
        peer = bf_peers[i]
        await asyncio.sleep(float(rec.get('at') or 0.0))
        obf = rec.get('port') == 'obf'
        try:
            link = await peer.connect(alice.host.ip, 60001 if obf else 60000, obfuscated=obf)
        except OSError:
            return      # reported below as 'port refused a connection'
        ent = {'rec': rec, 'link': link, 'addr': link.writer.get_extra_info('sockname'), 'sent_at': loop.time()}
        bf.append(ent)
        fired['bad_first_frame'] += 1
        link.send_raw(wire(badfirst_frame(rec), obf, rec.get('key')))
        await drain(link)
        ent['peer_saw_end'] = loop.time()

    async def slowfirst_script(i, rec):
        # a well-formed first frame that arrives in two parts with a pause between them (shorter than the read
        # timeout), another frame right behind it: both are delivered, in order, once
        peer = sf_peers[i]
        await asyncio.sleep(float(rec.get('at') or 0.0))
        obf = rec.get('port') == 'obf'
        try:
            link = await peer.connect(alice.host.ip, 60001 if obf else 60000, obfuscated=obf)
        except OSError:
            return
        ent = {'rec': rec, 'i': i, 'link': link, 'name': peer.name, 'connected_at': loop.time()}
        sf.append(ent)
        data = wire(M.PeerInit.Request(peer.name, 'P', 1).serialize(), obf, '1a2b3c4d')
        cut = max(0, min(len(data) - 1, int(rec.get('cut', 1))))
        fired['first_frame_in_two_parts'] += 1
        if cut:
            link.send_raw(data[:cut])
        await asyncio.sleep(float(rec.get('stall', 1.0)))
        link.send_raw(data[cut:])
        link.send_raw(wire(M.PeerUploadFailed.Request(f'c02-slow-{i}').serialize(), obf, '4d3c2b1a'))
        ent['sent_at'] = loop.time()
        peer.spawn(drain(link))

    late = {}

    async def late_script(port):
        peer = late_peers[port]
        obf = port == 'obf'
        ent = late[port] = {'connected': False}
        try:
            link = await peer.connect(alice.host.ip, 60001 if obf else 60000, obfuscated=obf)
        except OSError as exc:
            ent['error'] = type(exc).__name__
            return
        ent['connected'] = True
        link.send_raw(wire(M.PeerInit.Request(peer.name, 'P', 1).serialize(), obf, '0f1e2d3c'))
        link.send_raw(wire(M.PeerUploadFailed.Request('c02-late-' + port).serialize(), obf, 'c3d2e1f0'))
        peer.spawn(drain(link))

    # ---- scenario -----------------------------------------------------------------------------
    harness = {}

    async def main():
        boot = await world.start_client(alice)
        if boot.outcome() != 'returned':
            harness['boot'] = boot.outcome()
            return
        sconn = network.server_connection
        await asyncio.sleep(1.0)
        peers['pclear'].spawn(open_peer_link('pclear', 'P', False))
        peers['pobf'].spawn(open_peer_link('pobf', 'P', True))
        peers['dist'].spawn(open_peer_link('dist', 'D', bool(plan.get('dist_obf')), '99aabbcc'))
        for _ in range(40):
            await asyncio.sleep(0.25)
            if all(name in inited for name in ('pclear', 'pobf', 'dist')):
                break
        # the scripted server stops answering requests: from here on every frame on the server link is ours
        server.silent.update(server._DEFAULTS.keys())
        await asyncio.sleep(1.5)
        if plan.get('raising_matcher'):
            # the application waits for messages with field matchers of its own (callables) that fail on what arrives:
            # a failing matcher is the application's problem, the reader goes on
            import dataclasses

            def failing(value):
                fired['application_matcher_raised'] += 1
                raise ValueError(f'application matcher cannot handle {value!r:.20}')
            seen_cls = set()
            for lname in ('server', 'pclear', 'pobf'):
                fam = FAMILY[lname]
                for rec in frames_by_link[lname]:
                    if rec.get('kind') != 'valid' or (lname, rec.get('cls')) in seen_cls or len(seen_cls) >= 6:
                        continue
                    try:
                        msg_cls = type(build_message(fam, rec['cls'] if rec['cls'] in POOL[fam] else POOL[fam][0],
                                                     int(rec.get('var', 0))))
                        names = [f.name for f in dataclasses.fields(msg_cls) if f.name not in ('MESSAGE_ID',)]
                    except Exception:     # noqa
                        continue
                    if not names:
                        continue
                    seen_cls.add((lname, rec.get('cls')))
                    if lname == 'server':
                        fut = network.create_server_response_future(msg_cls, fields={names[0]: failing})
                    else:
                        fut = network.create_peer_response_future(lname, msg_cls, fields={names[0]: failing})
                    matcher_futs.append(fut)
        session = server.session_of('alice')
        if session is None:
            harness['session'] = 'no server session'
            return
        lk = L['server']
        lk['conn'] = sconn
        lk['sim'] = session.writer.transport.conn
        lk['dir'] = 's2c'
        lk['write'] = session.writer.write
        tap.watch(lk['sim'], 's2c', 'server')
        for name in ('pclear', 'pobf', 'dist'):
            L[name]['conn'] = inited.get(name)
        for lk in L.values():
            lk['ev_from'] = len(ev_log)
            if lk['conn'] is None:
                lk['setup_failed'] = True
            elif lk['name'] != 'server' and closed_at(lk['conn']) is not None:
                lk['setup_failed'] = True
        started[0] = True
        world.trace('t0')
        jobs = [asyncio.ensure_future(source(lk)) for lk in L.values() if not lk.get('setup_failed')]
        for i, rec in enumerate(badfirst):
            bf_peers[i].spawn(badfirst_script(i, rec))
        sf_tasks = [sf_peers[i].spawn(slowfirst_script(i, rec)) for i, rec in enumerate(slowfirst)]
        await asyncio.gather(*jobs)
        if sf_tasks:
            await asyncio.gather(*sf_tasks, return_exceptions=True)
            await asyncio.sleep(PROBE_BOUND)
        # let the last frames arrive (slowest regime: 60 ms + 100 ms jitter per segment is monotone per pipe)
        for _ in range(60):
            await asyncio.sleep(0.25)
            if not any(tap.pending.get((lk['sim'].id, lk['dir'])) for lk in L.values()
                       if lk['sim'] is not None and lk['torn'] is None and lk['conn'] is not None
                       and closing_at(lk['conn']) is None):
                break
        await asyncio.sleep(0.5)
        # probes
        for lk in L.values():
            if lk.get('setup_failed') or lk['torn'] is not None:
                continue
            lk['state_at_probe'] = 'CLOSED' if closing_at(lk['conn']) is not None else 'OPEN'
            if lk['state_at_probe'] == 'OPEN':
                msg = PROBES[lk['family']]
                info = {'label': 'probe', 'msg': msg, 'probe': True}
                data = wire(msg.serialize(), lk['obf'], '0a0b0c0d')
                lk['probe'] = info
                lk['sent'].append(info)
                link_write(lk, data, [(len(data), info)])
        t_probe = loop.time()
        # (a handler that disconnects the child that never reads waits for DISCONNECT_TIMEOUT (5 s) inside the reader
        # of the link the message came from: delivery on that link is late by that much, not lost)
        bound = PROBE_BOUND + (6.0 if plan.get('child_stall') else 0.0)
        while loop.time() < t_probe + bound + 6.0:
            await asyncio.sleep(0.25)
            if all(lk['probe'] is None or lk['probe'].get('arrived') is not None for lk in L.values()) \
                    and loop.time() >= t_probe + bound:
                break
        # bad first frames: the ports still accept
        if badfirst:
            await asyncio.sleep(1.0)
            for port, peer in late_peers.items():
                peer.spawn(late_script(port))
            await asyncio.sleep(PROBE_BOUND)
        # teardown: wait for CLOSED within the bound
        for lk in L.values():
            if lk['torn'] is None or lk.get('setup_failed'):
                continue
            if lk['torn'] in SILENCES:
                while True:
                    if closed_at(lk['conn']) is not None:
                        break
                    t_ref = (lk['partial'].get('arrived') or lk['silence_from'])
                    sends = len([t for t in tap.writes.get(lk['sim'].id, []) if t >= lk['torn_at'] - READ_TIMEOUT])
                    lk['deadline'] = t_ref + READ_TIMEOUT * (1 + sends) + 5.0
                    if loop.time() > lk['deadline'] or loop.time() > lk['torn_at'] + 1500.0:
                        break
                    await asyncio.sleep(1.0)
            else:
                lk['deadline'] = max(loop.time(), lk['torn_at'] + 2.0) + CLOSE_BOUND
                while loop.time() <= lk['deadline'] and closed_at(lk['conn']) is None:
                    await asyncio.sleep(0.5)
        # never-retrieved task exceptions reach the loop exception handler when the task object goes away
        gc.collect()
        await asyncio.sleep(0.01)

    # ---- wall-time watchdog ---------------------------------------------------------------------
    def on_alarm(signum, frame):
        raise ParseTimeout('C02 watchdog')

    armed = False
    old_handler = None
    try:
        old_handler = signal.signal(signal.SIGALRM, on_alarm)
        armed = True
    except ValueError:      # not in the main thread: no watchdog available
        world.probe('watchdog_unavailable')
    timed_out = None
    try:
        if armed:
            signal.setitimer(signal.ITIMER_REAL, WATCHDOG_S)
            loop.monitors.append(lambda: signal.setitimer(signal.ITIMER_REAL, WATCHDOG_S))
        world.run(main())
    except ParseTimeout:
        timed_out = tap.current or ('?', '?')
    finally:
        if armed:
            signal.setitimer(signal.ITIMER_REAL, 0)
            signal.signal(signal.SIGALRM, old_handler)
        loop.monitors.clear()

    # ------------------------------------------------------------------ oracle
    sig = []
    if timed_out is not None:
        # which frame?  the first frames of that link that arrived and are not needed to account for the events so far
        suspects = []
        lk = L.get(timed_out[0])
        if lk is not None and lk['conn'] is not None:
            msgs = [m for (_t, _it, c, m) in ev_log[lk['ev_from']:] if c is lk['conn']]
            ok = explain(lk['sent'], msgs)
            ps = [p for p in range(len(lk['sent']) + 1) if ok[p][len(msgs)]]
            if ps:
                suspects = [f['label'] for f in lk['sent'][ps[0]:] if f.get('arrived') is not None][:2]
        world.violate('C02.parse_time', link=timed_out[0], suspects=suspects or [timed_out[1]], bound_s=WATCHDOG_S)
        return common.finish(world, True, ['parse_time', timed_out])
    if harness.get('boot'):
        # the Login.Response is a valid frame as well: a client that cannot log in did not deliver it
        world.violate('C02.delivery', link='server', what='login exchange failed', outcome=harness['boot'])
        return common.finish(world, True, ['boot'])
    if harness.get('session'):
        raise RuntimeError(harness['session'])

    def cls_name(msg):
        return type(msg).__qualname__

    def reader_status(conn):
        task = getattr(conn, '_reader_task', None)
        if task is None:
            return 'none'
        if not task.done():
            return 'pending'
        if task.cancelled():
            return 'cancelled'
        exc = task.exception()
        return 'finished' if exc is None else 'exception:' + type(exc).__name__

    # events per link
    server_events = [(t, it, m) for (t, it, c, m) in ev_log[L['server']['ev_from']:] if c is L['server']['conn']]
    reset_times = [t for (t, it, m) in server_events if cls_name(m) in CROSS_CLOSERS]
    nontrivial = bool(teardown) or bool(badfirst)

    for lk in L.values():
        name, fam, conn = lk['name'], lk['family'], lk['conn']
        if lk.get('setup_failed'):
            if name == 'dist' and conn is not None and close_reason(conn) == 'REQUESTED':
                # the client did not take the D connection as a child: the world is not the one this check needs
                raise RuntimeError('harness: D connection was rejected as a child during set-up')
            world.violate('C02.delivery', link=name, what='valid PeerInit did not produce an open initialised connection')
            continue
        frames = lk['sent']
        if any(f['msg'] is None for f in frames):
            nontrivial = True
        events = [(t, it, m) for (t, it, c, m) in ev_log[lk['ev_from']:] if c is conn]
        msgs = [m for (_t, _it, m) in events]
        sim_id = lk['sim'].id
        t_closed = closed_at(conn)
        t_closing = closing_at(conn)
        # instant from which deliveries are optional: injected FIN/RST reaching the client
        t_end = float('inf')
        if lk['torn'] in ('trunc_eof', 'fin', 'rst', 'rst_mid'):
            t_end = min(tap.eof_at.get(sim_id, float('inf')), tap.lost_at.get(sim_id, float('inf')))
        must_upto = 0
        for i, f in enumerate(frames):
            if f['msg'] is not None and f.get('arrived') is not None and f['arrived'] < t_end - EPS:
                must_upto = i + 1
        ok = explain(frames, msgs)
        if lk['torn'] == 'lenlie_silence':
            # whatever the desynchronised tail of the stream was parsed into is not judged: the frames before the
            # lying prefix must account for a prefix of the events
            js = [j for j in range(len(msgs) + 1) if ok[len(frames)][j]]
            if js:
                events, msgs = events[:js[0]], msgs[:js[0]]
                ok = explain(frames, msgs)
        m = len(msgs)
        full = [p for p in range(len(frames) + 1) if ok[p][m]]
        # legit end of the link before the end of the list?
        closer_seen = t_closing is not None and any(
            cls_name(x) in CLOSERS[fam] and t <= t_closing + EPS for (t, _it, x) in events)
        if fam == 'dist' and t_closing is not None and any(t <= t_closing + EPS for t in reset_times):
            closer_seen = True
        if closer_seen and close_reason(conn) != 'REQUESTED':
            closer_seen = False     # ended by the injected fault (EOF / READ_ERROR / TIMEOUT), not by a handler's decision
        if name == 'dist' and plan.get('child_stall') and t_closing is not None and lk['torn'] is None \
                and close_reason(conn) in ('TIMEOUT', 'WRITE_ERROR'):
            # the child that never reads: a relayed request could not be written within the write timeout and the
            # client gave the connection up (its own decision, not a consequence of parsing)
            closer_seen = True
            world.probe('stalled_child_given_up_after_write_timeout')
        torn = lk['torn'] is not None
        delivered_all = bool(full) and full[-1] == len(frames)
        sig.append((name, tuple(f['label'] for f in frames), m, lk['torn'], lk['state_at_probe'],
                    t_closed is not None, regimes.get(name)))
        world.trace('link', name, len(frames), m, lk['torn'], lk['state_at_probe'])

        def label_at(i):
            return frames[i]['label'] if i is not None and 0 <= i < len(frames) else None

        if not full:
            # some event cannot be accounted for: find the longest explainable event prefix
            j_best, p_best = 0, 0
            for j in range(m + 1):
                ps = [p for p in range(len(frames) + 1) if ok[p][j]]
                if ps:
                    j_best, p_best = j, ps[0]
            got = msgs[j_best] if j_best < m else None
            dup = got is not None and any(f['msg'] is not None and f['msg'] == got for f in frames[:p_best])
            # next valid frame that was expected
            nxt = next((i for i in range(p_best, len(frames)) if frames[i]['msg'] is not None), None)
            skipped_mal = [frames[i]['label'] for i in range(p_best, nxt if nxt is not None else len(frames))]
            if m > len(frames) or (got is not None and nxt is None):
                world.violate('C02.extra', link=name, what='more events than frames', got=cls_name(got) if got else None,
                              after=label_at(p_best - 1))
            elif dup:
                world.violate('C02.delivery', link=name, what='frame delivered twice', cls=cls_name(got))
            elif skipped_mal or (label_at(p_best - 1) or '').startswith('m:'):
                world.violate('C02.extra', link=name, what='frame after a malformed frame disturbed',
                              malformed=skipped_mal[-1] if skipped_mal else label_at(p_best - 1),
                              expected=label_at(nxt), got=cls_name(got) if got else None)
            else:
                world.violate('C02.delivery', link=name, what='wrong, missing or reordered frame',
                              expected=label_at(nxt), got=cls_name(got) if got else None, after=label_at(p_best - 1))
            continue
        p_min, p_max = full[0], full[-1]
        if torn:
            # a delivered link-closing message ends the expected sequence early; the teardown must close the link anyway
            if not closer_seen and p_max < must_upto:
                world.violate('C02.delivery', link=name, what='frame that arrived before the teardown not delivered',
                              missing=label_at(p_max), after=label_at(p_max - 1), teardown=lk['torn'])
            if t_closed is None or t_closed > lk.get('deadline', float('inf')) + EPS:
                world.violate('C02.no_close', link=name, teardown=lk['torn'], state=conn.state.name,
                              reader=reader_status(conn))
            else:
                world.probe('teardown_closed_' + lk['torn'])
            continue
        if closer_seen:
            # a link-closing message was delivered (possibly out of a malformed frame that is still a legal
            # message) and the client closed the link: the expected sequence ends there; the prefix test
            # above already showed that everything before it was delivered once and in order
            world.probe('link_closed_by_closer_' + fam)
            nontrivial = True
            continue
        if lk['state_at_probe'] == 'CLOSED':
            # no injected teardown, no link-closing message delivered: nothing explains this
            last_arrived = None
            for i, f in enumerate(frames):
                if f.get('arrived') is not None and f['arrived'] <= (t_closing or 0) + EPS:
                    last_arrived = i
            by_bad_first = [e for e in bf if e['sent_at'] - EPS <= t_closing <= e['sent_at'] + 1.0]
            if by_bad_first:
                world.violate('C02.first_frame_scope', what='another connection closed together with the bad one',
                              link=name, frame=by_bad_first[0]['rec']['what'], reason=close_reason(conn))
            else:
                world.violate('C02.delivery', link=name, what='link closed by the client', reason=close_reason(conn),
                              after=label_at(last_arrived))
            continue
        # link open at probe time: everything incl. the probe must have been delivered
        if delivered_all:
            world.probe('probe_delivered_' + name)
            continue
        probe_delivered = lk['probe'] is not None and any(x == lk['probe']['msg'] for x in msgs[-1:])
        t_closing_late = closing_at(conn)
        if t_closing_late is not None and not probe_delivered:
            world.violate('C02.delivery', link=name, what='link closed by the client', reason=close_reason(conn),
                          after=label_at(p_max - 1))
            continue
        if probe_delivered:
            if (label_at(p_max - 1) or '').startswith('m:'):
                world.violate('C02.extra', link=name, what='frame after a malformed frame disturbed',
                              malformed=label_at(p_max - 1), expected=label_at(p_max), got=None)
            else:
                world.violate('C02.delivery', link=name, what='frame missing although later frames were delivered',
                              missing=label_at(p_max), after=label_at(p_max - 1))
            continue
        # open, yet frames are missing: the reader stopped (dead or stuck) without closing the connection
        world.violate('C02.reader_dead', link=name, state=conn.state.name, reader=reader_status(conn),
                      last_delivered=label_at(p_min - 1), dropped=[f['label'] for f in frames[p_min:p_max]][:3],
                      next=label_at(p_max))

    # bad first frames -----------------------------------------------------------------------------
    if badfirst:
        if len(bf) < len(badfirst):
            world.violate('C02.first_frame_scope', what='port refused a connection', n=len(badfirst) - len(bf))
        for ent in bf:
            rec = ent['rec']
            own = [c for c in keep if isinstance(c, PeerConnection) and (c.hostname, c.port) == tuple(ent['addr'])]
            t_c = min([closed_at(c) for c in own if closed_at(c) is not None], default=None)
            if t_c is None and ent.get('peer_saw_end') is not None:
                t_c = ent['peer_saw_end']
            if t_c is None or t_c > ent['sent_at'] + CLOSE_BOUND:
                world.violate('C02.first_frame_scope', what='own connection not closed', frame=rec['what'], port=rec['port'])
            else:
                world.probe('bad_first_frame_closed_own_connection')
        for (port, st) in listener_trouble:
            world.violate('C02.first_frame_scope', what='listening connection left CONNECTED', port=port, state=st)
        for port, ent in late.items():
            uname = f"late{port}"
            want = M.PeerUploadFailed.Request('c02-late-' + port)
            got = [m for (_t, _it, c, m) in ev_log if getattr(c, 'username', None) == uname]
            if not ent.get('connected') or uname not in inited or got != [want]:
                world.violate('C02.first_frame_scope', what='port does not serve new connections afterwards', port=port,
                              connected=bool(ent.get('connected')), initialised=uname in inited, delivered=len(got))
            else:
                world.probe('port_serves_after_bad_first_frame')

    # first frame in two parts -----------------------------------------------------------------------
    for ent in sf:
        want = M.PeerUploadFailed.Request(f"c02-slow-{ent['i']}")
        got = [m for (_t, _it, c, m) in ev_log if getattr(c, 'username', None) == ent['name']]
        if ent.get('sent_at') is None:
            continue
        if ent['name'] in inited and got == [want]:
            world.probe('first_frame_in_two_parts_delivered')
            continue
        own = inited.get(ent['name'])
        closed = own is not None and closed_at(own) is not None
        world.violate('C02.reader_dead' if not closed else 'C02.delivery', link='accepted', what='first frame in two parts',
                      stall=ent['rec'].get('stall'), initialised=ent['name'] in inited, delivered=len(got),
                      **({'state': 'CLOSED'} if closed else {}))

    # task deaths ----------------------------------------------------------------------------------
    for rec in world.loop.exc_contexts:
        if rec.get('exc_type') == 'ConnectionWriteError' and (rec.get('coro') or '').endswith('.send_message'):
            # a fire-and-forget reply (queue_message) could not be written because the link had just gone:
            # nobody awaits that task, so its write error is "never retrieved".  Not a reader, not caused by
            # parsing: outside the statement (reported as an observation, see probe)
            world.probe('unretrieved_write_error_of_queued_reply')
            continue
        world.violate('C02.task_died', exc=rec.get('exc_type'), coro=rec.get('coro'),
                      message=(rec.get('message') or '')[:60])
    for lk in L.values():
        conn = lk['conn']
        if conn is None:
            continue
        st = reader_status(conn)
        if st.startswith('exception:'):
            world.violate('C02.task_died', exc=st.split(':', 1)[1], coro='DataConnection._message_reader_loop', link=lk['name'])

    if not teardown and not badfirst and L['dist']['state_at_probe'] == 'OPEN':
        world.probe('d_link_stayed_connected')
    sig.sort()
    return common.finish(world, nontrivial, [sig, plan['net'].get('coalesce'), bool(plan.get('dist_obf')),
                                             sorted((e['rec']['what'], e['rec']['port']) for e in bf)])

INFO['rule'] += ' Round-5 additions: a well-formed first frame on a fresh connection arriving in two parts with a pause of 0.5..45 s (plan field slowfirst); a distributed child that never reads while ServerSearchRequest frames of 30..60 kB are relayed to it, then its connection ends (child_stall).'

INFO['rule'] += ' Round-6 additions: response futures with application-supplied callable matchers that fail on the message classes of the plan (raising_matcher).'
