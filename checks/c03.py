"""C03 - transfer state changes always follow the documented state graph; refused
operations have no side effect.

Shape ``micro`` (DESIGN.md section 3 "C03", part (a)).  World: one real, never started
``SoulSeekClient``; a real ``Transfer`` registered in its real ``TransferManager`` through
``add()``; a recording ``TransferStateListener`` appended to ``transfer.state_listeners``; for
downloads a real local file on the per-run tmpfs sandbox; dummy ``_transfer_task`` /
``_remotely_queue_task`` tasks that take a plan-chosen virtual time to honour cancellation
(so ``cancel_tasks()`` + ``gather`` hold ``_state_lock`` across many loop iterations); the
``exists`` / ``remove`` executor jobs of the file removal delayed through a ``Disk`` hook.

The driver brings the transfer into the start state through accepted operations (``route``;
the pseudo step ``restart`` sends the transfer through pickle + the real ``read_cache()``,
the only way an upload gets into INCOMPLETE), then issues 1..6 operations - through the state
object exactly as the library's call sites do (``await transfer.state.abort(...)``: each caller
dereferences ``transfer.state`` at its own invoke instant) or through the public
``TransferManager.queue/pause/abort`` - 1..3 of them concurrently: the followers of a group
are invoked a planned number of loop iterations / virtual milliseconds after the group
leader's invoke; the next group starts when every operation of the previous one returned.

Oracle: models/transfer_graph.py over the notification history (attributed to operations by
the task the listener ran in), the return values, and field/file/task snapshots taken at
invoke and at return of every operation.

Other shapes (``integrated``: the same operations against transfers with real negotiation /
transfer tasks and scripted peers) register themselves in ``SHAPES``; nothing in this file
has to change for that.
"""
from __future__ import annotations

import asyncio
import copy
import importlib
import importlib.util
import os
import pickle

from sim.world import World
from models import transfer_graph as G
from . import common

PROPERTY = 'C03'
INFO = {
    'level': 'exploration',
    'rule': ('micro plans = direction x start state (every state reachable through accepted operations, by a '
             'loop-free route of <=5 steps drawn from all such routes; upload/INCOMPLETE through a restart) x local '
             'file {none, set where the library sets it, preset} x dummy transfer / remote-queue tasks with '
             'cancel-honouring time {0, 1 ms, 50 ms, 2 s} x slow exists/remove executor jobs {0, 1 ms, 50 ms, 2 s} x '
             '1..6 operations from {queue, pause, abort, fail, complete, incomplete, initialize, start_transferring} '
             'via the state object or TransferManager.queue/pause/abort, grouped {sequential 30, pairs 40, triples 20, '
             'follower placed inside the slow cancel/remove of the leader 10}, followers offset 0..6 loop iterations '
             '(or a virtual delay) from the leader\'s invoke; non-trivial = an operation was invoked while another '
             'held the transfer\'s lock, or a refusal was judged by the no-side-effect snapshot with a local file or '
             'a live task present; distinct = signature over (direction, start, per operation: op, via, state '
             'dereferenced at invoke, waited for the lock, outcome, notified edge) in linearisation order'),
    'real': common.REAL,
    'stub': common.STUB + ['transfer / remote-queue tasks of the transfer (dummy tasks that honour cancellation after a '
                           'planned time; shape micro only)'],
    'assumptions': [
        'the documented graph is models/transfer_graph.py (hand transcription of the per-state classes, cross-checked '
        'with USAGE.rst and the docstring of TransferManager.queue; the documents draw no graph of their own)',
        'a notification is attributed to the operation in whose task the listener ran (Transfer.transition awaits the '
        'listeners inline)',
        'linearisation order = order of notifications; an operation that returns False has no linearisation point, '
        'so the side-effect clause is judged only for refusals whose [invoke, return] interval overlaps no other '
        'operation',
        'TransferManager.queue/pause/abort returning normally counts as "the state method returned True", raising '
        'InvalidStateTransition as "returned False"',
        'an unjustified refusal (operation allowed in the state current at its turn but refused because the caller '
        'dereferenced an older state object) is counted as a probe, not as a violation: the property only says that '
        'operations which are not allowed are refused',
        'the dummy tasks exist in every state the plan says, also in states in which the library would not have '
        'such a task (a refused operation must not cancel anything in any case)',
    ],
}

DELAYS = (0.0, 0.001, 0.05, 2.0)
MANAGER_OPS = ('queue', 'pause', 'abort')
FAIL_REASONS = (None, 'Cancelled', 'File not shared.')
ABORT_REASONS = ('Requested', 'Blocked', None)
SNAP_FIELDS = ('fail_reason', 'abort_reason', 'start_time', 'complete_time', 'remotely_queued', 'bytes_transfered')
GROUP_TIMEOUT = 120.0


# ----------------------------------------------------------------------------- start states

def start_states():
    """Every (direction, state) a transfer can be in, with how to get there."""
    out = []
    for direction in G.DIRECTIONS:
        for state in G.STATES:
            if state in G.FOREIGN[direction]:
                continue
            if G.routes(direction, state):
                out.append((direction, state, 'route'))
            elif direction == G.UPLOAD and state == 'INCOMPLETE':
                out.append((direction, state, 'restart'))   # UPLOADING, not all bytes sent, process restarted
    return out


START_STATES = start_states()


def default_route(direction, state, how):
    if how == 'restart':
        return G.routes(direction, 'UPLOADING')[0] + ['restart']
    return G.routes(direction, state)[0]


# ----------------------------------------------------------------------------- generator (micro)

def _draw_op(rng, direction, state, prefer_holding=False):
    accepted = list(G.EDGES[direction].get(state, {}))
    r = rng.random()
    if prefer_holding and r < 0.55:
        holding = [o for o in accepted if o in ('abort', 'pause')]
        if holding:
            return rng.choice(holding)
    if r < 0.75 and accepted:
        return rng.choice(accepted)
    return rng.choice(G.OPS)


def _op(rng, name, gap=None):
    op = {'op': name, 'via': 'state', 'gap': gap}
    if name in MANAGER_OPS and rng.random() < 0.35:
        op['via'] = 'manager'
    if op['via'] == 'state':
        if name == 'fail':
            op['reason'] = rng.choice(FAIL_REASONS)
        elif name == 'abort':
            op['reason'] = rng.choice(ABORT_REASONS)
        elif name == 'queue' and rng.random() < 0.2:
            op['remotely'] = True
    if name in ('abort', 'pause') and rng.random() < 0.12:
        # the caller gives up while the operation is in progress
        op['cancel_after'] = {'iter': rng.randint(0, 8)} if rng.random() < 0.5 else {'ms': rng.choice((0.5, 10.0, 40.0, 500.0))}
    return op


def generate_micro(rng, index, tier):
    direction, start, how = rng.choice(START_STATES)
    if how == 'restart':
        route = rng.choice(G.routes(direction, 'UPLOADING')[:3]) + ['restart']
    else:
        routes = G.routes(direction, start)
        route = list(routes[0] if rng.random() < 0.5 else rng.choice(routes))
        if rng.random() < 0.04 and start not in G.IN_PROGRESS:
            route.append('restart')
    size = rng.choice((0, 1, 1000, 70000))
    have = rng.choice((0, size // 2, size))
    if how == 'restart':
        size = max(size, 2)
        have = size // 2
    processing = start in G.IN_PROGRESS
    tasks = {'transfer': None, 'queue': None}
    if rng.random() < (0.8 if processing else 0.3):
        tasks['transfer'] = rng.choice(DELAYS)
    if rng.random() < (0.6 if direction == G.DOWNLOAD and start in ('QUEUED', 'INCOMPLETE', 'FAILED') else 0.12):
        tasks['queue'] = rng.choice(DELAYS)
    slow = {'exists_ms': rng.choice(DELAYS) * 1000.0, 'remove_ms': rng.choice(DELAYS) * 1000.0}
    local = rng.choice(('natural', 'natural', 'preset', 'preset', 'none')) if direction == G.DOWNLOAD else 'preset'
    shape = rng.choices(('sequential', 'pair', 'triple', 'inside_slow'), (30, 40, 20, 10))[0]
    if shape != 'sequential' and tasks['transfer'] is None and tasks['queue'] is None and rng.random() < 0.7:
        # somebody has to hold the lock for a while: without a task only a download's abort (file removal) does
        tasks[rng.choice(('transfer', 'queue'))] = rng.choice(DELAYS)
    if shape == 'inside_slow' and not any(tasks.values()) and not slow['remove_ms']:
        tasks['transfer'] = rng.choice(DELAYS[1:])
    slowest = max([d for d in tasks.values() if d] + [slow['exists_ms'] / 1000.0, slow['remove_ms'] / 1000.0, 0.0])
    n = rng.randint(1, 6)
    ops = []
    state = start
    while len(ops) < n:
        size_g = {'sequential': 1, 'pair': 2, 'triple': 3, 'inside_slow': 2}[shape]
        if shape != 'sequential' and rng.random() < 0.2:
            size_g = 1
        size_g = min(size_g, n - len(ops))
        leader = _draw_op(rng, direction, state, prefer_holding=size_g > 1)
        ops.append(_op(rng, leader))
        for _ in range(size_g - 1):
            name = _draw_op(rng, direction, state) if rng.random() < 0.5 else rng.choice(G.OPS)
            if shape == 'inside_slow' and slowest > 0:
                gap = {'ms': round(slowest * 1000.0 * rng.choice((0.1, 0.5, 0.9, 1.0, 1.1)), 4)}
            elif rng.random() < 0.85:
                gap = {'iter': rng.randint(0, 6)}
            else:
                gap = {'ms': rng.choice((0.5, 1.0, 25.0, 50.0, 1000.0))}
            ops.append(_op(rng, name, gap))
        if G.accepted(state, leader, direction):
            state = G.target(leader, direction)
    plan = {
        'seed': rng.getrandbits(32), 'shape': 'micro', 'exec': {'delay_ms': [0, 0]},
        'direction': direction, 'start': start, 'route': route, 'local': local, 'size': size, 'have': have,
        'tasks': tasks, 'respawn': rng.random() < (0.5 if shape == 'sequential' else 0.75), 'slow': slow, 'ops': ops,
    }
    if rng.random() < 0.12:
        plan['listener_raises'] = rng.randint(1, 3)      # the n-th notification of the operations makes the application's listener fail
    return plan


def _plan(direction, start, how, ops, **extra):
    plan = {
        'seed': 3, 'shape': 'micro', 'exec': {'delay_ms': [0, 0]},
        'direction': direction, 'start': start, 'route': default_route(direction, start, how),
        'local': 'preset', 'size': 1000, 'have': 400,
        'tasks': {'transfer': 0.05, 'queue': 0.05}, 'respawn': True,
        'slow': {'exists_ms': 1.0, 'remove_ms': 50.0}, 'ops': ops,
    }
    plan.update(extra)
    return plan


def _single_op_plans():
    """Exhaustive axis: every start state x every operation x every way to issue it, alone."""
    out = []
    for direction, start, how in START_STATES:
        for name in G.OPS:
            for via in ('state', 'manager') if name in MANAGER_OPS else ('state',):
                op = {'op': name, 'via': via, 'gap': None}
                if via == 'state' and name in ('fail', 'abort'):
                    op['reason'] = 'Cancelled' if name == 'fail' else 'Requested'
                # the same operation once more afterwards: second try from the state the first one left
                out.append(_plan(direction, start, how, [op, dict(op)], local='natural' if start in (
                    'DOWNLOADING', 'COMPLETE', 'INCOMPLETE') else 'preset', _axis='single_op'))
    return out


def _pair_plans():
    """Exhaustive axis: every start state x leader in {abort, pause} that holds the lock for 50 ms (slow task
    cancellation) x every follower operation invoked one iteration after the leader."""
    out = []
    for direction, start, how in START_STATES:
        for leader in ('abort', 'pause'):
            for name in G.OPS:
                ops = [{'op': leader, 'via': 'state', 'gap': None, 'reason': 'Requested'} if leader == 'abort'
                       else {'op': leader, 'via': 'state', 'gap': None},
                       {'op': name, 'via': 'state', 'gap': {'iter': 1}}]
                out.append(_plan(direction, start, how, ops, _axis='pair_behind_lock'))
    return out


def corpus_micro(tier):
    out = []
    out.extend(_single_op_plans())
    out.extend(_pair_plans())
    # an application listener that fails while it is told about a change, then more operations
    for start, direction in (('DOWNLOADING', G.DOWNLOAD), ('UPLOADING', G.UPLOAD), ('QUEUED', G.DOWNLOAD), ('PAUSED', G.UPLOAD)):
        for first in ('abort', 'pause', 'complete', 'fail', 'queue'):
            for via in ('state', 'manager'):
                if via == 'manager' and first not in ('abort', 'pause', 'queue'):
                    continue
                out.append(_plan(direction, start, 'route',
                                 [{'op': first, 'via': via, 'gap': None, 'reason': 'Requested'},
                                  {'op': 'fail', 'via': 'state', 'gap': None}, {'op': 'queue', 'via': 'state', 'gap': None},
                                  {'op': 'pause', 'via': 'state', 'gap': None}], listener_raises=1))
    # the documented example: abort || pause from DOWNLOADING, follower offset swept, both ways to issue
    for k in range(0, 7):
        for via in ('state', 'manager'):
            out.append(_plan(G.DOWNLOAD, 'DOWNLOADING', 'route',
                             [{'op': 'abort', 'via': via, 'gap': None, 'reason': 'Requested'},
                              {'op': 'pause', 'via': via, 'gap': {'iter': k}}]))
    # transfer task "finishing" (complete / fail / incomplete) while a user operation holds the lock, and after it
    for start, direction in (('DOWNLOADING', G.DOWNLOAD), ('UPLOADING', G.UPLOAD)):
        for user in ('abort', 'pause'):
            for fin in ('complete', 'fail', 'incomplete'):
                for gap in ({'iter': 0}, {'iter': 3}, {'ms': 25.0}, {'ms': 60.0}):
                    out.append(_plan(direction, start, 'route',
                                     [{'op': user, 'via': 'manager', 'gap': None},
                                      {'op': fin, 'via': 'state', 'gap': gap},
                                      {'op': 'queue', 'via': 'manager', 'gap': None}]))
    # the caller of abort / pause gives up while the (slow) cancellation of the transfer task is in progress; another
    # operation follows
    for start, direction in (('DOWNLOADING', G.DOWNLOAD), ('UPLOADING', G.UPLOAD), ('INITIALIZING', G.UPLOAD), ('QUEUED', G.DOWNLOAD)):
        for user in ('abort', 'pause'):
            for via in ('state', 'manager'):
                for ca in ({'iter': 0}, {'iter': 3}, {'ms': 10.0}, {'ms': 40.0}):
                    first = {'op': user, 'via': via, 'gap': None, 'cancel_after': ca}
                    if user == 'abort' and via == 'state':
                        first['reason'] = 'Requested'
                    out.append(_plan(direction, start, 'route',
                                     [first, {'op': 'queue', 'via': 'manager', 'gap': {'ms': 100.0}},
                                      {'op': 'pause', 'via': 'manager', 'gap': None}]))
    # three callers behind a slow file removal (no tasks at all: the lock is held by the executor jobs only)
    for start in ('QUEUED', 'INITIALIZING', 'DOWNLOADING', 'INCOMPLETE', 'PAUSED'):
        out.append(_plan(G.DOWNLOAD, start, 'route',
                         [{'op': 'abort', 'via': 'state', 'gap': None, 'reason': 'Requested'},
                          {'op': 'queue', 'via': 'manager', 'gap': {'ms': 10.0}},
                          {'op': 'pause', 'via': 'state', 'gap': {'iter': 2}},
                          {'op': 'queue', 'via': 'state', 'gap': None}],
                         tasks={'transfer': None, 'queue': None}, slow={'exists_ms': 50.0, 'remove_ms': 2000.0}))
    # refusals judged with a file and live tasks present, every delay regime
    for d in DELAYS:
        out.append(_plan(G.DOWNLOAD, 'COMPLETE', 'route',
                         [{'op': o, 'via': 'state', 'gap': None} for o in ('abort', 'pause', 'fail', 'initialize')],
                         local='natural', tasks={'transfer': d, 'queue': d},
                         slow={'exists_ms': d * 1000.0, 'remove_ms': d * 1000.0}))
    return out


# ----------------------------------------------------------------------------- shapes

SHAPES = {
    # name -> {'weight': %, 'generate': fn(rng, index, tier), 'corpus': fn(tier), 'run': fn(plan), 'axes': fn(tier)}
}


def generate(rng, index, tier):
    names = sorted(SHAPES)
    if len(names) == 1:
        shape = names[0]
    else:
        shape = rng.choices(names, [SHAPES[n].get('weight', 1) for n in names])[0]
    plan = SHAPES[shape]['generate'](rng, index, tier)
    plan.setdefault('shape', shape)
    return plan


def corpus(tier):
    out = []
    for name in sorted(SHAPES):
        fn = SHAPES[name].get('corpus')
        if fn is not None:
            for plan in fn(tier):
                plan.setdefault('shape', name)
                out.append(plan)
    return out


def enumerated_axes(tier):
    out = {}
    for name in sorted(SHAPES):
        fn = SHAPES[name].get('axes')
        if fn is not None:
            out.update(fn(tier))
    return out


def run(plan):
    return SHAPES[plan.get('shape', 'micro')]['run'](plan)


def axes_micro(tier):
    n_states = len(START_STATES)
    n_single = len(_single_op_plans())
    return {
        'single_op': {
            'size': n_single, 'exhaustive': True,
            'what': (f'every start state ({n_states}: 9 download, 8 upload reachable through accepted operations, '
                     'upload/INCOMPLETE through a restart) x every operation (8) x every way to issue it (state '
                     'object; TransferManager for queue/pause/abort), issued alone and once more afterwards, with a '
                     'local file and live dummy tasks present'),
        },
        'pair_behind_lock': {
            'size': n_states * 2 * len(G.OPS), 'exhaustive': True,
            'what': ('every start state x leader {abort, pause} holding the lock for 50 ms x every follower operation '
                     'invoked one loop iteration after the leader (the follower dereferences the state object the '
                     'leader is about to replace)'),
        },
    }


SHRINK_LISTS = ('ops', 'inject', 'user')


def simplify(plan):
    if plan.get('shape', 'micro') != 'micro':
        fn = SHAPES.get(plan.get('shape'), {}).get('simplify')
        if fn is not None:
            yield from fn(plan)
        return
    for key in ('transfer', 'queue'):
        d = plan['tasks'].get(key)
        if d is not None:
            p = copy.deepcopy(plan)
            p['tasks'][key] = None
            yield p
            for smaller in DELAYS:
                if smaller < d:
                    p = copy.deepcopy(plan)
                    p['tasks'][key] = smaller
                    yield p
    for key in ('exists_ms', 'remove_ms'):
        if plan['slow'].get(key):
            p = copy.deepcopy(plan)
            p['slow'][key] = 0.0
            yield p
    if plan.get('respawn'):
        yield dict(copy.deepcopy(plan), respawn=False)
    if plan.get('local') != 'none' and plan['direction'] == G.DOWNLOAD:
        yield dict(copy.deepcopy(plan), local='none')
    if 'restart' not in plan['route']:
        short = G.routes(plan['direction'], plan['start'])[0]
        if plan['route'] != short:
            yield dict(copy.deepcopy(plan), route=list(short))
    for i, op in enumerate(plan['ops']):
        if op.get('via') == 'manager':
            p = copy.deepcopy(plan)
            p['ops'][i]['via'] = 'state'
            yield p
        gap = op.get('gap')
        if gap:
            p = copy.deepcopy(plan)
            p['ops'][i]['gap'] = None
            yield p
            if 'ms' in gap:
                p = copy.deepcopy(plan)
                p['ops'][i]['gap'] = {'iter': 1}
                yield p
            elif gap.get('iter', 0) > 1:
                p = copy.deepcopy(plan)
                p['ops'][i]['gap'] = {'iter': 1}
                yield p
        for key in ('reason', 'remotely'):
            if op.get(key):
                p = copy.deepcopy(plan)
                p['ops'][i].pop(key)
                yield p
    if plan.get('size') != 1000 or plan.get('have') != 400:
        yield dict(copy.deepcopy(plan), size=1000, have=400)


# ----------------------------------------------------------------------------- run (micro)

def run_micro(plan):
    world = World(plan, PROPERTY)
    try:
        return _run_micro(world, plan)
    finally:
        world.close()


class _Op:
    __slots__ = ('idx', 'spec', 'name', 'via', 'phase', 'task', 'captured', 'lock_held', 'before', 'after',
                 'invoke_seq', 'return_seq', 'invoke_iter', 'return_iter', 'call', 'notes', 'state_at_return')

    def __init__(self, idx, spec, phase):
        self.idx = idx
        self.spec = spec
        self.name = spec['op']
        self.via = spec.get('via', 'state')
        self.phase = phase           # 'route' | 'ops'
        self.task = None
        self.captured = None
        self.lock_held = False
        self.before = None
        self.after = None
        self.invoke_seq = None
        self.return_seq = None
        self.invoke_iter = None
        self.return_iter = None
        self.call = None
        self.notes = []              # (seq, old, new)
        self.state_at_return = None


class _MemoryCache:
    """Hands one pickled transfer to the real ``TransferManager.read_cache`` (pseudo step 'restart')."""

    def __init__(self):
        self.blobs = []

    def read(self):
        return [pickle.loads(b) for b in self.blobs]

    def write(self, transfers):
        self.blobs = [pickle.dumps(t) for t in transfers]


def _run_micro(world: World, plan):
    from aioslsk.exceptions import InvalidStateTransition
    from aioslsk.transfer.model import Transfer, TransferDirection

    loop = world.loop
    direction = plan['direction']
    alice = world.add_client('alice')
    manager = alice.client.transfers
    tdir = TransferDirection.DOWNLOAD if direction == G.DOWNLOAD else TransferDirection.UPLOAD
    size, have = int(plan.get('size', 1000)), int(plan.get('have', 0))
    have = min(have, size)
    slow = plan.get('slow', {})
    task_cfg = plan.get('tasks', {})

    if direction == G.DOWNLOAD:
        file_path = os.path.join(world.sandbox.sub('alice', 'downloads'), 'song.mp3')
    else:
        file_path = os.path.join(world.sandbox.sub('alice', 'shared'), 'song.mp3')

    ctx = {'transfer': None, 'file_made': False, 'seq': 0}
    events = []                 # ('invoke', op) | ('notify', op|None, old, new) | ('return', op) | ('restart', old, new)
    by_task = {}
    dummies = {'transfer': None, 'queue': None}

    def next_seq():
        ctx['seq'] += 1
        return ctx['seq']

    # ------------------------------------------------------------------ disk
    def hook(name, func, args):
        fargs = getattr(func, 'args', ()) or args
        if not fargs or fargs[0] != file_path:
            return None
        if name.endswith('exists') and slow.get('exists_ms'):
            return ('delay', slow['exists_ms'] / 1000.0)
        if name.endswith('remove') and slow.get('remove_ms'):
            return ('delay', slow['remove_ms'] / 1000.0)
        return None
    world.disk.hooks.append(hook)

    def make_file():
        with open(file_path, 'wb') as fh:
            fh.write(b'\x5a' * (have if direction == G.DOWNLOAD else size))
        ctx['file_made'] = True

    def set_local(tr):
        make_file()
        tr.local_path = file_path

    # ------------------------------------------------------------------ listener
    raised_in = set()

    class Listener:
        async def on_transfer_state_changed(self, transfer, old, new):
            op = by_task.get(asyncio.current_task())
            seq = next_seq()
            events.append(('notify', op, old.name, new.name, seq))
            if op is not None:
                op.notes.append((seq, old.name, new.name))
            world.trace('notify', op.idx if op else None, old.name, new.name)
            n_ops = len([e for e in events if e[0] == 'notify' and e[1] is not None and e[1].phase == 'ops'])
            if op is not None and op.phase == 'ops' and plan.get('listener_raises') == n_ops:
                # an application listener that fails after it has been told (it runs after the manager's own): what was
                # reported stays reported
                world.disk.fired['state_listener_raised'] += 1
                raised_in.add(op)
                raise RuntimeError('application state listener failed')

    listener = Listener()

    # an application that attaches its state listener to every transfer it is told about (TransferAddedEvent): what the
    # library reports while it loads the cache is seen as well
    from aioslsk.events import TransferAddedEvent

    def on_added(event):
        if listener not in event.transfer.state_listeners:
            event.transfer.state_listeners.append(listener)
    world.keep_alive.append(on_added)
    alice.client.events.register(TransferAddedEvent, on_added)

    # ------------------------------------------------------------------ dummy tasks
    async def dummy(kind, honour):
        try:
            await loop.create_future()          # "working": pending until cancelled
        except asyncio.CancelledError:
            world.trace('dummy_cancelled', kind)
            if honour > 0:
                await asyncio.sleep(honour)     # takes a while to honour the cancellation
            raise

    def spawn_dummies():
        tr = ctx['transfer']
        if task_cfg.get('transfer') is not None and tr._transfer_task is None:
            task = alice.spawn(dummy('transfer', float(task_cfg['transfer'])), name='dummy-transfer')
            tr._transfer_task = task
            task.add_done_callback(tr._transfer_task_complete)       # as the library registers it
            dummies['transfer'] = task
        if task_cfg.get('queue') is not None and tr._remotely_queue_task is None:
            task = alice.spawn(dummy('queue', float(task_cfg['queue'])), name='dummy-queue')
            tr._remotely_queue_task = task
            task.add_done_callback(tr._remotely_queue_task_complete)
            dummies['queue'] = task

    # ------------------------------------------------------------------ snapshots
    def snapshot():
        tr = ctx['transfer']
        snap = {f: getattr(tr, f, None) for f in SNAP_FIELDS}
        try:
            snap['file'] = os.path.getsize(file_path)
        except OSError:
            snap['file'] = None
        live = []
        for kind in ('transfer', 'queue'):
            task = dummies[kind]
            if task is not None and not task.done() and task.cancelling() == 0:
                live.append(kind)
        snap['live_tasks'] = tuple(live)
        snap['_tasks'] = {kind: dummies[kind] for kind in live}
        return snap

    def after_snapshot(before):
        snap = snapshot()
        # tasks that were alive at invoke: still alive and not asked to cancel?
        live = []
        for kind, task in before['_tasks'].items():
            if not task.done() and task.cancelling() == 0:
                live.append(kind)
        snap['live_tasks'] = tuple(live)
        return snap

    # ------------------------------------------------------------------ operations
    ops = []

    def start_op(op: _Op, on_done=None):
        spec = op.spec

        async def body():
            tr = ctx['transfer']
            op.task = asyncio.current_task()
            by_task[op.task] = op
            state_obj = tr.state                     # dereferenced at the invoke instant, like every call site
            op.captured = state_obj.VALUE.name
            # "has to wait": locked, or released a moment ago with earlier callers still queued (asyncio.Lock is fair)
            lock = tr._state_lock
            op.lock_held = lock.locked() or any(not w.cancelled() for w in (getattr(lock, '_waiters', None) or ()))
            op.before = snapshot()
            op.invoke_seq = next_seq()
            op.invoke_iter = loop.iterations
            events.append(('invoke', op, op.invoke_seq))
            try:
                if op.via == 'manager':
                    return await getattr(manager, op.name)(tr)
                method = getattr(state_obj, op.name)
                if op.name in ('fail', 'abort'):
                    if 'reason' in spec:
                        return await method(reason=spec['reason'])
                    return await method()
                if op.name == 'queue' and spec.get('remotely'):
                    return await method(remotely=True)
                return await method()
            finally:
                op.after = after_snapshot(op.before)
                op.return_seq = next_seq()
                op.return_iter = loop.iterations
                op.state_at_return = ctx['transfer'].state.VALUE.name
                events.append(('return', op, op.return_seq))

        op.call = world.call(alice, f"{op.phase}{op.idx}:{op.name}", body)
        ca = spec.get('cancel_after')
        if ca is not None:
            def cancel_caller(task=None):
                if not op.call.task.done():
                    world.net.fired['caller_cancelled'] += 1
                    op.call.task.cancel()

            def hop(n):
                if n > 0:
                    loop.call_soon(hop, n - 1)
                else:
                    cancel_caller()
            if 'ms' in ca:
                loop.call_later(float(ca['ms']) / 1000.0, cancel_caller)
            else:
                hop(int(ca.get('iter', 0)) + 1)
        if on_done is not None:
            op.call.task.add_done_callback(lambda _t: on_done(op))
        return op

    async def route_step(i, name, tr):
        if name == 'restart':
            await restart()
            return
        if name == 'start_transferring' and direction == G.DOWNLOAD and plan.get('local') == 'natural':
            set_local(tr)                        # _prepare_download_path precedes start_transferring
        op = _Op(i, {'op': name, 'via': 'state'}, 'route')
        if name == 'fail':
            op.spec['reason'] = 'Cancelled'
        elif name == 'abort':
            op.spec['reason'] = 'Requested'
        ops.append(op)
        start_op(op)
        await op.call.task
        if op.call.outcome() != 'returned' or op.call.result is not True:
            # the route is made of accepted operations; anything else is judged by the oracle below,
            # and the run goes on from wherever the transfer is
            world.trace('route_step_refused', i, name)
        if name == 'initialize':
            tr.filesize = size                   # _initialize_download: filesize of the request
        if name == 'start_transferring':
            tr.bytes_transfered = have           # offset / progress

    async def restart():
        """pickle + the real read_cache(): what a new process makes of the persisted transfer"""
        old = ctx['transfer']
        cache = _MemoryCache()
        cache.write([old])
        manager._transfers.remove(old)
        saved = manager.cache
        manager.cache = cache
        try:
            call = world.call(alice, 'restart', manager.read_cache)
            await call.task
        finally:
            manager.cache = saved
        if call.outcome() != 'returned' or len(manager.transfers) != 1:
            raise RuntimeError(f"restart step failed: {call.outcome()} {call.exception!r}")
        new = manager.transfers[0]
        if listener not in new.state_listeners:
            new.state_listeners.append(listener)
        ctx['transfer'] = new
        events.append(('restart', None, old.state.VALUE.name, new.state.VALUE.name, next_seq()))
        world.trace('restart', old.state.VALUE.name, new.state.VALUE.name)

    async def main():
        call = world.call(alice, 'load', manager.load_data)
        await call.task
        tr = Transfer('bob', '@@shared\\music\\song.mp3', tdir)
        if direction == G.UPLOAD:
            set_local(tr)                        # _add_upload: local path and size of the shared item
            tr.filesize = size
        elif plan.get('local') == 'preset':
            set_local(tr)
            tr.filesize = size
            tr.bytes_transfered = have
        added = await manager.add(tr)
        assert added is tr
        if listener not in tr.state_listeners:
            tr.state_listeners.append(listener)
        ctx['transfer'] = tr
        for i, name in enumerate(plan.get('route', [])):
            await route_step(i, name, ctx['transfer'])
        ctx['start_reached'] = ctx['transfer'].state.VALUE.name
        world.trace('start', ctx['start_reached'])
        spawn_dummies()

        # groups: a leader (gap None) and the followers that come after it in the list
        groups = []
        for i, spec in enumerate(plan.get('ops', [])):
            if spec.get('gap') is None or not groups:
                groups.append([])
            groups[-1].append((i, spec))
        for group in groups:
            if plan.get('respawn'):
                spawn_dummies()
            done = loop.create_future()
            pending = [len(group)]

            def on_done(_op):
                pending[0] -= 1
                if pending[0] == 0 and not done.done():
                    done.set_result(None)

            def launch(i, spec):
                op = _Op(i, spec, 'ops')
                ops.append(op)
                start_op(op, on_done)

            def hop(n, i, spec):
                if n <= 0:
                    launch(i, spec)
                else:
                    loop.call_soon(hop, n - 1, i, spec)

            for k, (i, spec) in enumerate(group):
                gap = spec.get('gap') if k else None
                if not gap:
                    launch(i, spec)
                elif 'ms' in gap:
                    loop.call_later(float(gap['ms']) / 1000.0, launch, i, spec)
                else:
                    hop(int(gap.get('iter', 0)), i, spec)
            try:
                await asyncio.wait_for(asyncio.shield(done), GROUP_TIMEOUT)
            except asyncio.TimeoutError:
                # every operation either is accepted or is refused - one that never comes back is neither (the dummy tasks
                # honour their cancellation within 2 s, the slow disk jobs take 2 s at most)
                stuck = [o for o in ops if o.call is not None and not o.call.done]
                for o in stuck[:1]:
                    world.violate('C03.result', what='never_returned', op=o.name, via=o.via, direction=direction,
                                  captured=o.captured, waited=bool(o.lock_held))
                ctx['stuck'] = True
                for o in stuck:
                    o.call.task.cancel()
                break
        await asyncio.sleep(0.01)
        ctx['final'] = ctx['transfer'].state.VALUE.name
        for task in dummies.values():
            if task is not None and not task.done():
                task.cancel()

    world.run(main())

    # ------------------------------------------------------------------ oracle
    # (1) C03.edge: the notified sequence is a path in the graph, chained, ending in the state the transfer has
    current = 'VIRGIN'
    edges_seen = []
    for ev in events:
        kind = ev[0]
        if kind == 'restart':
            current = ev[3]
            continue
        if kind != 'notify':
            continue
        _, op, old, new, seq = ev
        facts = {'direction': direction, 'old': old, 'new': new,
                 'op': op.name if op else None, 'captured': op.captured if op else None,
                 'waited': bool(op.lock_held) if op else None}
        why = G.why_illegal(old, new, direction)
        if why is not None:
            world.violate('C03.edge', what=why, **facts)
        if old != current:
            world.violate('C03.edge', what='chain_broken', expected_old=current, **facts)
        current = new
        edges_seen.append((old, new))
    final = ctx.get('final')
    if final is not None and final != current:
        world.violate('C03.edge', what='final_state_not_notified', direction=direction, last_notified=current,
                      final=final)

    # (2) C03.result
    judged = [op for op in ops]
    outcomes = {}
    for op in judged:
        call = op.call
        facts = {'op': op.name, 'via': op.via, 'direction': direction, 'captured': op.captured,
                 'waited': bool(op.lock_held)}
        out = call.outcome()
        if out == 'cancelled' and op.spec.get('cancel_after') is not None:
            # the caller gave up (asyncio.wait_for, a cancelled task): neither accepted nor refused; what was notified on
            # its behalf is still judged by the edge clause above
            world.probe('caller_cancelled_inside_operation')
            continue
        if out in ('pending', 'cancelled') and ctx.get('stuck'):
            continue        # reported as never_returned
        if out in ('pending', 'cancelled'):
            raise RuntimeError(f"operation {op.name} ended as {out}")
        verdict = None
        if out == 'returned':
            if op.via == 'manager':
                verdict = True if call.result is None else 'bad_return'
            else:
                verdict = call.result if call.result is True or call.result is False else 'bad_return'
            if verdict == 'bad_return':
                world.violate('C03.result', what='bad_return', value=repr(call.result)[:40], **facts)
                continue
        else:
            if op.via == 'manager' and isinstance(call.exception, InvalidStateTransition):
                verdict = False
            elif op in raised_in and isinstance(call.exception, RuntimeError):
                # the failure of the application's listener reaches the caller; the change it was told about is judged
                # by the edge / final-state clauses only
                world.probe('listener_failure_reached_the_caller')
                continue
            else:
                world.violate('C03.result', what='exception', exc=type(call.exception).__name__, **facts)
                continue
        outcomes[op] = verdict
        want = G.target(op.name, direction)
        if verdict is True:
            if len(op.notes) == 0:
                world.violate('C03.result', what='accepted_without_notification', **facts)
            elif len(op.notes) > 1:
                world.violate('C03.result', what='accepted_with_several_notifications', n=len(op.notes), **facts)
            elif op.notes[0][2] != want:
                world.violate('C03.result', what='accepted_with_other_target', new=op.notes[0][2], **facts)
        else:
            if op.notes:
                world.violate('C03.result', what='refused_with_notification', old=op.notes[0][1], new=op.notes[0][2],
                              **facts)

    # (3) C03.side_effect: refusals in segments without an overlapping operation
    nontrivial = False
    for op in judged:
        if outcomes.get(op) is not False:
            continue
        overlapping = [o for o in judged if o is not op and o.invoke_seq is not None and o.return_seq is not None
                       and o.invoke_seq < op.return_seq and op.invoke_seq < o.return_seq]
        if overlapping:
            world.probe('refusal_overlapped_not_judged')
            continue
        before, after = op.before, op.after
        changed = sorted(k for k in before if not k.startswith('_') and before[k] != after[k])
        if before['file'] is not None or before['live_tasks']:
            if op.phase == 'ops':
                nontrivial = True
            world.probe('refusal_judged_with_file_or_task')
        if changed:
            world.violate('C03.side_effect', op=op.name, via=op.via, direction=direction, state=op.captured,
                          changed=changed,
                          file_deleted=before['file'] is not None and after['file'] is None,
                          task_cancelled=before['live_tasks'] != after['live_tasks'])

    # probes
    for op in judged:
        if op.phase != 'ops':
            continue
        if op.lock_held:
            nontrivial = True
            world.probe('invoked_while_lock_held')
            own = op.notes[0][0] if op.notes else op.return_seq
            replaced = [ev for ev in events if ev[0] == 'notify' and ev[1] is not op and op.invoke_seq < ev[4] < own]
            if replaced:
                world.probe('waited_for_lock_while_captured_state_replaced')
                state_at_turn = replaced[-1][3]
                if outcomes.get(op) is False and G.accepted(state_at_turn, op.name, direction):
                    world.probe('refused_although_allowed_in_state_at_its_turn')
                if outcomes.get(op) is True and not G.accepted(state_at_turn, op.name, direction):
                    world.probe('accepted_although_not_allowed_in_state_at_its_turn')
        if op.return_iter is not None and op.return_iter - op.invoke_iter >= 5:
            world.probe('operation_spanned_5_or_more_iterations')
    if ctx.get('start_reached') != plan.get('start'):
        world.probe('start_state_not_reached')

    sig = [direction, ctx.get('start_reached')]
    for ev in events:
        if ev[0] == 'invoke' and ev[1].phase == 'ops':
            op = ev[1]
            sig.append(('i', op.idx, op.name, op.via, op.captured, bool(op.lock_held)))
        elif ev[0] == 'notify' and (ev[1] is None or ev[1].phase == 'ops'):
            sig.append(('n', ev[1].idx if ev[1] else None, ev[2], ev[3]))
        elif ev[0] == 'return' and ev[1].phase == 'ops':
            sig.append(('r', ev[1].idx, outcomes.get(ev[1])))
    for rec in world.loop.exc_contexts:
        raise RuntimeError(f"loop exception handler called: {rec}")
    return common.finish(world, nontrivial, sig)


SHAPES['micro'] = {'weight': 80, 'generate': generate_micro, 'corpus': corpus_micro, 'run': run_micro,
                   'axes': axes_micro}

# further shapes live in their own modules and register themselves in SHAPES on import
for _name in ('c03_integrated', 'c03_live'):
    if importlib.util.find_spec(f'{__package__}.{_name}') is not None:
        importlib.import_module(f'{__package__}.{_name}')


# ----------------------------------------------------------------------------- triage helper

def explain(plan):
    """python -m checks.c03 REPLAY.json : print the event history the oracle saw."""
    world = World(plan, PROPERTY)
    try:
        res = _run_micro(world, plan)
        for ev in world.trace_events:
            if ev[1] in ('invoke', 'return', 'raise', 'notify', 'restart', 'start', 'dummy_cancelled'):
                print(f"  t={ev[0] - 1000.0:.6f}", *ev[1:])
    finally:
        world.close()
    print('violations:')
    for v in res['violations']:
        print('  ', v['invariant'], v['facts'])
    print('probes:', res['probes'])
    return res


if __name__ == '__main__':  # pragma: no cover
    import json
    import sys
    from sim import seams
    seams.install()
    rec = json.load(open(sys.argv[1]))
    explain(rec.get('plan', rec))

INFO['rule'] += ' Round-5 additions: the recording listener is attached on TransferAddedEvent (what is reported while the cache loads is judged); live shape (checks/c03_live.py, weight 15 %): a real download / upload against a scripted peer that injects queue-failure / upload-failure / second-offer / repeated-queue messages around a slow file connection, user abort / pause / queue meanwhile; invariant C03.side_effect (reasons and timestamps of a transfer resting in FAILED / ABORTED / PAUSED / COMPLETE do not change).'

INFO['rule'] += ' Round-6 additions: an application state listener that raises after it was told (listener_raises); an operation that never returns is C03.result what=never_returned.'
