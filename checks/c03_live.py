"""C03, live shape: the library's own negotiation / transfer tasks ask for state changes.

One real client, a scripted transfer peer (sim/xfer.py).  A download from (or an upload to) the peer runs through the real
``TransferManager`` tasks while the peer injects protocol messages about the same file at planned instants (a queue
failure, an upload failure, a second offer, a repeated queue request) and is slow to open the file connection; the user
may abort / pause / re-queue meanwhile.  The requests for state changes judged here are the ones the library's tasks make
themselves - some of them are refused because the transfer has left the state the task expects.

Oracle: (a) every notified change is an edge of the documented graph and the notifications form a chain;
(b) while the transfer rests in FAILED / ABORTED / PAUSED / COMPLETE (no notification), its reasons and timestamps do not
change - a refused request has no side effect.
"""
from __future__ import annotations

import asyncio
import os

from aioslsk.events import TransferAddedEvent
from aioslsk.protocol import messages as M

from sim.world import World
from sim.xfer import XferPeer, pattern_bytes
from models import transfer_graph as G
from . import common
from . import c03

QUIET = ('FAILED', 'ABORTED', 'PAUSED', 'COMPLETE')
WATCHED = ('start_time', 'complete_time', 'fail_reason', 'abort_reason')
INJECT_DOWN = ('queue_failed', 'upload_failed', 'second_offer', 'place_reply')
INJECT_UP = ('queue_again', 'place_request', 'upload_failed')
USER_OPS = ('abort', 'pause', 'queue')
HORIZON = 120.0
NET = {'base_ms': 5, 'jitter_ms': 0, 'segmentation': 'whole', 'coalesce': True}


def live_plan(direction='down', inject=(), user=(), f_delay=2.0, seed=1, **kw):
    plan = {'seed': seed, 'shape': 'live', 'net': dict(NET), 'exec': {'delay_ms': [0, 1]}, 'dir': direction, 'size': 40000,
            'f_delay': f_delay, 'chunk_delay': 0.01, 'queue_delay': 0.05,
            'inject': [dict(i) for i in inject], 'user': [dict(u) for u in user]}
    plan.update(kw)
    return plan


def corpus_live(tier):
    out = []
    # a message about the file lands between our reply and the (slow) file connection
    for what in INJECT_DOWN:
        for delay in (0.0, 0.5):
            for f_delay in (0.05, 2.0, 70.0):
                out.append(live_plan('down', [{'after': 'reply', 'delay': delay, 'what': what}], f_delay=f_delay))
        out.append(live_plan('down', [{'after': 'start', 'delay': 0.3, 'what': what}], chunk_delay=0.05))
    for what in INJECT_UP:
        for delay in (0.0, 0.3, 1.0):
            out.append(live_plan('up', [{'after': 'start', 'delay': delay, 'what': what}], chunk_delay=0.05))
    # the user stops the transfer while the file connection is awaited; it arrives afterwards
    for op in USER_OPS:
        for direction in ('down', 'up'):
            out.append(live_plan(direction, [], [{'at': 1.0, 'op': op}], f_delay=3.0, chunk_delay=0.05))
            out.append(live_plan(direction, [{'after': 'reply', 'delay': 0.2, 'what': 'queue_failed'}],
                                 [{'at': 1.0, 'op': op}, {'at': 4.0, 'op': 'queue'}], f_delay=3.0))
    return out


def generate_live(rng, index, tier):
    direction = rng.choice(('down', 'down', 'up'))
    inject = []
    for _ in range(rng.choice([0, 1, 1, 2, 3])):
        inject.append({'after': rng.choice(('reply', 'reply', 'start', 'request')),
                       'delay': rng.choice([0.0, 0.0, 0.01, 0.3, 1.0, 5.0]),
                       'what': rng.choice(INJECT_DOWN if direction == 'down' else INJECT_UP)})
    user = []
    t = 0.0
    for _ in range(rng.choice([0, 0, 1, 2, 3])):
        t += rng.choice([0.1, 0.5, 1.0, 3.0, 10.0])
        user.append({'at': round(t, 3), 'op': rng.choice(USER_OPS)})
    plan = live_plan(direction, inject, user, f_delay=rng.choice([0.0, 0.05, 1.0, 3.0, 20.0, 70.0]),
                     seed=rng.getrandbits(32), chunk_delay=rng.choice([0.0, 0.005, 0.05]),
                     queue_delay=rng.choice([0.0, 0.05, 1.0]), size=rng.choice([0, 1, 40000, 200000]))
    plan['net'] = dict(NET, base_ms=rng.choice([1, 5, 20])) if rng.random() < 0.6 else common.draw_net(rng)
    return plan


def run_live(plan):
    world = World(plan, c03.PROPERTY)
    try:
        return _run_live(world, plan)
    finally:
        world.close()


def _run_live(world: World, plan):
    loop = world.loop
    direction = plan['dir']
    server = world.add_server()      # noqa: F841
    share_dir = world.sandbox.sub('alice', 'share')
    with open(os.path.join(share_dir, 'up.bin'), 'wb') as fh:
        fh.write(pattern_bytes(int(plan['size']), 3))
    alice = world.add_client('alice', overrides={
        'shares': {'scan_on_start': False, 'directories': [{'path': share_dir}]}})
    client = alice.client
    tm = client.transfers
    xp = XferPeer(world, 'bob')
    xp.attach(alice)
    gdir = G.DOWNLOAD if direction == 'down' else G.UPLOAD

    notes = []                  # (t, iteration, old, new)
    target = {'tr': None}

    class Listener:
        async def on_transfer_state_changed(self, transfer, old, new):
            if transfer is target['tr']:
                notes.append((loop.time(), loop.iterations, old.name, new.name))
                world.trace('state', old.name, new.name)
    listener = Listener()

    def on_added(event):
        if target['tr'] is None:
            target['tr'] = event.transfer
        if listener not in event.transfer.state_listeners:
            event.transfer.state_listeners.append(listener)
    world.keep_alive.extend([listener, on_added])
    client.events.register(TransferAddedEvent, on_added)

    # (b) resting fields ----------------------------------------------------------------
    last = {'snap': None, 'notes': 0, 'reported': False}

    def monitor():
        tr = target['tr']
        if tr is None:
            return
        snap = (tr.state.VALUE.name,) + tuple(getattr(tr, f, None) for f in WATCHED)
        prev = last['snap']
        if prev is not None and snap != prev and snap[0] == prev[0] and snap[0] in QUIET \
                and len(notes) == last['notes'] and not last['reported']:
            changed = [f for f, a, b in zip(WATCHED, prev[1:], snap[1:]) if a != b]
            since = loop.time() - (notes[-1][0] if notes else loop.time())
            if since > 1e-6:        # (fields set in the instant of the transition itself belong to it)
                last['reported'] = True
                world.violate('C03.side_effect', what='field changed while the transfer rests', state=snap[0],
                              fields=changed, direction=gdir)
        last['snap'] = snap
        last['notes'] = len(notes)
    loop.monitors.append(monitor)

    remote = '@@bob\\music\\song.bin'
    fired = world.net.fired

    def inject_now(what):
        async def go():
            link = await xp.p_link()
            if link is None:
                return
            fired['peer_message_' + what] += 1
            world.trace('inject', what)
            if what == 'queue_failed':
                xp.send(link, M.PeerTransferQueueFailed.Request(remote, 'Remote file error'))
            elif what == 'upload_failed':
                xp.send(link, M.PeerUploadFailed.Request(remote if direction == 'down' else up_remote[0]))
            elif what == 'second_offer':
                await xp.offer(remote)
            elif what == 'place_reply':
                xp.send(link, M.PeerPlaceInQueueReply.Request(remote, 3))
            elif what == 'queue_again':
                xp.send(link, M.PeerTransferQueue.Request(up_remote[0]))
            elif what == 'place_request':
                xp.send(link, M.PeerPlaceInQueueRequest.Request(up_remote[0]))
        xp.peer.spawn(go())

    up_remote = [None]
    triggers = {'request': False, 'reply': False, 'start': False}

    def trigger_watch():
        # 'request': the offer (PeerTransferRequest) went out / came in; 'reply': the reply to it; 'start': DOWNLOADING/UPLOADING
        seen = set()
        if direction == 'down':
            ul = xp.uploads.get(remote)
            if ul is not None and ul.requests_sent:
                seen.add('request')
            if ul is not None and ul.replies:
                seen.add('reply')
        else:
            dl = xp.downloads.get(up_remote[0]) if up_remote[0] else None
            if dl is not None and getattr(dl, 'requests', None):
                seen.add('request')
                seen.add('reply')
        if any(n[3] in ('DOWNLOADING', 'UPLOADING') for n in notes):
            seen.add('start')
        for name in seen:
            if not triggers[name]:
                triggers[name] = True
                for inj in plan.get('inject', []):
                    if inj.get('after') == name:
                        loop.call_later(float(inj.get('delay', 0.0)), inject_now, inj['what'])
    loop.monitors.append(trigger_watch)

    async def user_ops():
        t0 = loop.time()
        for u in plan.get('user', []):
            await asyncio.sleep(max(t0 + float(u['at']) - loop.time(), 0.0))
            tr = target['tr']
            if tr is None:
                continue
            fired['user_' + u['op']] += 1
            c = world.call(alice, f"user-{u['op']}", getattr(tm, u['op']), tr)
            await c.task

    async def main():
        await world.start_client(alice)
        await client.shares.scan()
        await asyncio.sleep(0.5)
        beh = {'chunk_delay': plan.get('chunk_delay', 0.0), 'chunk': 4096, 'queue_delay': plan.get('queue_delay', 0.05),
               'f_delay': float(plan.get('f_delay', 0.0)), 'f_under_way': True}
        if direction == 'down':
            xp.share(remote, pattern_bytes(int(plan['size']), 5), **beh)
            c = world.call(alice, 'download', tm.download, 'bob', remote)
            await c.task
        else:
            item = next(iter(client.shares.shared_directories[0].items))
            up_remote[0] = item.get_remote_path()
            xp.want(up_remote[0], chunk_delay=plan.get('chunk_delay', 0.0))
            xp.peer.spawn(xp.request_file(up_remote[0]))
        ops = asyncio.ensure_future(user_ops())
        await asyncio.sleep(HORIZON)
        await ops

    world.run(main())

    current = None
    for (_t, _it, old, new) in notes:
        why = G.why_illegal(old, new, gdir)
        if why is not None:
            world.violate('C03.edge', what=why, direction=gdir, old=old, new=new, op=None, captured=None, waited=None)
        if current is not None and old != current:
            world.violate('C03.edge', what='chain_broken', expected_old=current, direction=gdir, old=old, new=new,
                          op=None, captured=None, waited=None)
        current = new
    tr = target['tr']
    if tr is not None and current is not None and tr.state.VALUE.name != current:
        world.violate('C03.edge', what='final_state_not_notified', direction=gdir, last_notified=current,
                      final=tr.state.VALUE.name)
    if tr is None:
        world.probe('no_transfer_created')
    injected = sum(v for k, v in fired.items() if k.startswith('peer_message_'))
    nontrivial = bool(injected or any(k.startswith('user_') for k in fired))
    return common.finish(world, nontrivial, ['live', direction, [(o, n) for (_, _, o, n) in notes],
                                             sorted(k for k in fired if k.startswith(('peer_message_', 'user_')))])


def axes_live(tier):
    return {}


c03.SHAPES['live'] = {'weight': 15, 'generate': generate_live, 'corpus': corpus_live, 'run': run_live, 'axes': axes_live}
