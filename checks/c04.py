"""C04 - COMPLETE means the whole file arrived intact; resuming never corrupts it.

Two shapes:
 * 'pair'     two REAL clients (alice shares, bob downloads) and the scripted server as relay; network
              faults only (reset at an exact file byte, resets during the negotiation, partitions that make
              the protocol timeouts fire); safety at every state notification and bounded liveness after
              the last fault.
 * 'scripted' one real client against a dishonest scripted peer (sim/xfer.py): short / long senders, a
              lying filesize, offset beyond the size, early close, never close; safety only.
The cut-byte axis of the small sizes is enumerated completely in every batch.
"""
from __future__ import annotations

import asyncio
import os

from aioslsk.events import TransferAddedEvent
from aioslsk.transfer.model import TransferDirection

from sim.world import World
from sim.xfer import FileConnWatch, XferPeer, pattern_bytes
from . import common

PROPERTY = 'C04'
INFO = {
    'level': 'fault_enumeration',
    'rule': ('pair shape: file size from {0,1,127,128,129,8191,8192,8193,24581,~100 KiB}, bandwidth limit off / 64 / 1 KiB/s, '
             'connect mode race/fallback, optional correct partial file on disk, 0-3 network faults (reset of the file '
             'connection after exactly k file bytes, reset of P connections during the negotiation, partitions of 200+ s) '
             'under five latency regimes and all segmentations; for the sizes <= 129 every cut byte k in 0..size is '
             'enumerated in every batch (exhaustive axis), for both download and the scripted-uploader role. scripted shape: '
             'dishonest peers on either side (short / long senders, lying size, offset beyond size, early close, a downloader that '
             'stalls or never closes, a stale local file longer than the announced size). non-trivial = a fault fired or a dishonest step was taken; distinct = signature '
             'over (size class, fault kinds and positions class, state paths of both sides)'),
    'real': common.REAL + ['second real SoulSeekClient as the remote side in the pair shape'],
    'stub': common.STUB,
    'assumptions': [
        'network faults are those a network produces (reset, partition, delay); a clean FIN in mid-file is a peer decision '
        'and appears only in the scripted shape, where only safety is judged',
        'liveness bound B = 900 virtual s after the last network fault, no driver call in between',
        'upload COMPLETE is judged on what the sender handed to the socket (sender-side tap) and on the peer having ended '
        'the connection before the notification; receiver-side completeness only when the connection ended with a FIN',
    ],
}

SIZES = (0, 1, 127, 128, 129, 8191, 8192, 8193, 24581, 100003)
SMALL = (0, 1, 127, 128, 129)
B_LIVE = 900.0
NETS = {
    'lan': {'base_ms': 2, 'jitter_ms': 3},
    'wan': {'base_ms': 40, 'jitter_ms': 150},
    'flat': {'base_ms': 5, 'jitter_ms': 0},
}


def pair_plan(size, faults=(), seed=1, **kw):
    plan = {'seed': seed, 'shape': 'pair', 'size': size,
            'net': {'base_ms': 5, 'jitter_ms': 0, 'segmentation': 'whole', 'coalesce': True},
            'exec': {'delay_ms': [0, 1]}, 'mode': 'race', 'limit_up': 0, 'limit_down': 0, 'prefix': 0,
            'faults': list(faults)}
    plan.update(kw)
    return plan


def scripted_plan(role, size, beh, seed=1, **kw):
    plan = {'seed': seed, 'shape': 'scripted', 'role': role, 'size': size, 'beh': beh,
            'net': {'base_ms': 5, 'jitter_ms': 0, 'segmentation': 'whole', 'coalesce': True},
            'exec': {'delay_ms': [0, 1]}, 'mode': 'race', 'prefix': 0}
    plan.update(kw)
    return plan


def corpus(tier):
    out = []
    # plain transfers of every size
    for size in SIZES:
        out.append(pair_plan(size))
    # exhaustive cut axis on the small sizes (pair shape)
    for size in SMALL:
        for k in range(0, size + 1):
            out.append(pair_plan(size, faults=[{'kind': 'cut_file', 'attempt': 0, 'byte': k}]))
    # chunk boundaries on the larger ones
    for size in (8191, 8192, 8193, 24581):
        for k in (0, 1, 127, 128, 129, 8191, 8192, 8193, size - 1, size):
            if k <= size:
                out.append(pair_plan(size, faults=[{'kind': 'cut_file', 'attempt': 0, 'byte': k}]))
    # repeated faults, prefix on disk, limits
    out.append(pair_plan(24581, faults=[{'kind': 'cut_file', 'attempt': 0, 'byte': 100},
                                        {'kind': 'cut_file', 'attempt': 1, 'byte': 8192},
                                        {'kind': 'cut_file', 'attempt': 2, 'byte': 3}]))
    for prefix in (1, 128, 8192, 24580, 24581):
        out.append(pair_plan(24581, prefix=prefix))
        out.append(pair_plan(24581, prefix=prefix, faults=[{'kind': 'cut_file', 'attempt': 0, 'byte': 5}]))
    # the partial file shrinks or vanishes between two attempts
    for size, byte in ((8193, 6000), (24581, 20000), (204800, 150000)):
        for to in (0, 1000, 'delete'):
            for lim in (0, 64):
                out.append(pair_plan(size, limit_down=lim, faults=[{'kind': 'cut_file', 'attempt': 0, 'byte': byte},
                                                                   {'kind': 'truncate_local', 'attempt': 0, 'to': to}]))
    out.append(pair_plan(8193, limit_up=64))
    out.append(pair_plan(8193, limit_down=64, faults=[{'kind': 'cut_file', 'attempt': 0, 'byte': 4000}]))
    out.append(pair_plan(300, limit_up=1, limit_down=1))
    for mode in ('race', 'fallback'):
        out.append(pair_plan(8193, mode=mode, faults=[{'kind': 'reset_p', 'when': 'after_queue'}]))
        out.append(pair_plan(8193, mode=mode, faults=[{'kind': 'reset_p', 'when': 'after_request'}]))
        out.append(pair_plan(8193, mode=mode, faults=[{'kind': 'partition_file', 'attempt': 0, 'byte': 100, 'seconds': 200.0}]))
    # scripted shape: dishonest peers, exhaustive small cuts as clean FIN / RST from the peer
    for size in SMALL:
        for k in range(0, size + 1):
            out.append(scripted_plan('uploader', size, {'send_bytes': k, 'after_send': 'close'}))
            out.append(scripted_plan('uploader', size, {'send_bytes': k, 'after_send': 'abort'}))
            out.append(scripted_plan('downloader', size, {'read_bytes': k, 'stop_how': 'abort'} if k < size else {}))
    for size in (1, 129, 8193):
        out.append(scripted_plan('uploader', size, {'extra_len': 1}))
        out.append(scripted_plan('uploader', size, {'extra_len': 5000}))
        out.append(scripted_plan('uploader', size, {'announce_delta': 1}))
        out.append(scripted_plan('uploader', size, {'announce_delta': -1}))
        out.append(scripted_plan('uploader', size, {'after_send': 'close'}))
        out.append(scripted_plan('downloader', size, {'offset_delta': 1}))
        out.append(scripted_plan('downloader', size, {'offset_delta': 1000000}))
        out.append(scripted_plan('downloader', size, {'after_all': 'never_close'}))
        out.append(scripted_plan('downloader', size, {'read_bytes': 0, 'stop_how': 'close'}))
        # the local file is longer than the size announced now (stale version on disk / surplus of an earlier attempt)
        for junk in (1, 1000):
            out.append(scripted_plan('uploader', size, {}, prefix=size, prefix_junk=junk))
        # other people's files sit where the download would go (natural name, numbered variants), default and configured chains
        for foreign in ([''], ['', ' (2)'], ['', ' (2)', ' (3)'], ['', ' (1)', ' (3)']):
            for chain in (None, ['D', 'K', 'N'], ['K', 'D', 'N']):
                out.append(scripted_plan('uploader', size, {}, foreign=foreign, chain=chain))
        # a downloader that stops reading (everything fits the socket buffers) and never ends the connection
        out.append(scripted_plan('downloader', size, {'read_bytes': 0, 'stop_how': 'stall'}))
        out.append(scripted_plan('downloader', size, {'read_bytes': max(size // 2, 1), 'stop_how': 'stall'}))
    return out


def enumerated_axes(tier):
    n = sum(s + 1 for s in SMALL)
    return {
        'cut_byte_pair': {'size': n, 'exhaustive': True, 'axes': 'file size in {0,1,127,128,129} x reset after k file bytes, k in 0..size, two real clients'},
        'cut_byte_scripted': {'size': 3 * n, 'exhaustive': True,
                              'axes': 'same sizes x k, scripted uploader ending with FIN / RST, scripted downloader resetting'},
    }


def generate(rng, index, tier):
    if rng.random() < 0.25:
        role = rng.choice(('uploader', 'downloader'))
        size = rng.choice(SIZES[:-1])
        beh = {}
        r = rng.random()
        if role == 'uploader':
            if r < 0.3:
                beh = {'send_bytes': rng.randint(0, size), 'after_send': rng.choice(('close', 'abort'))}
            elif r < 0.45:
                beh = {'extra_len': rng.choice([1, 128, 9000])}
            elif r < 0.6:
                beh = {'announce_delta': rng.choice([-1, 1, 1000])}
            elif r < 0.7:
                beh = {'after_send': 'close', 'close_delay': rng.choice([0.0, 0.01, 1.0])}
            elif r < 0.8:
                beh = {'chunk': rng.choice([1, 127, 128, 4096]), 'chunk_delay': rng.choice([0.0, 0.001])}
        else:
            if r < 0.3:
                beh = {'read_bytes': rng.randint(0, size), 'stop_how': rng.choice(('close', 'abort', 'stall'))}
            elif r < 0.5:
                beh = {'offset_delta': rng.choice([1, -1, 1000000])}
            elif r < 0.65:
                beh = {'after_all': 'never_close'}
            elif r < 0.75:
                beh = {'close_delay': rng.choice([0.0, 0.5, 5.0])}
        plan = scripted_plan(role, size, beh, seed=rng.getrandbits(32))
        plan['net'] = common.draw_net(rng)
        plan['prefix'] = rng.choice([0, 0, 0, 1, size // 2, size]) if role == 'uploader' else 0
        if plan['prefix'] == size and role == 'uploader' and rng.random() < 0.5 and \
                not (beh.get('announce_delta') or beh.get('extra_len')):
            # (with a sender that lies about the size "the remote file" is not defined well enough to judge a stale local file)
            plan['prefix_junk'] = rng.choice([1, 128, 5000])
        plan['mode'] = rng.choice(('race', 'fallback'))
        if role == 'uploader' and not plan['prefix'] and rng.random() < 0.3:
            plan['foreign'] = rng.choice([[''], ['', ' (1)'], ['', ' (2)'], ['', ' (2)', ' (3)'], [' (2)'], ['', ' (1)', ' (3)']])
            plan['chain'] = rng.choice([None, None, ['D', 'N'], ['D', 'K', 'N'], ['K', 'D', 'N']])
        return plan
    size = rng.choice(SIZES)
    regime = rng.random()
    faults = []
    if regime < 0.2:
        pass
    elif regime < 0.6:
        faults.append({'kind': 'cut_file', 'attempt': 0, 'byte': _cut_pos(rng, size)})
    elif regime < 0.8:
        for a in range(rng.randint(2, 3)):
            faults.append({'kind': 'cut_file', 'attempt': a, 'byte': _cut_pos(rng, size)})
        if rng.random() < 0.3:
            faults.append({'kind': 'truncate_local', 'attempt': 0, 'to': rng.choice([0, 1, 127, 'delete'])})
    elif regime < 0.9:
        faults.append({'kind': 'reset_p', 'when': rng.choice(('after_queue', 'after_request', 'after_reply'))})
        if rng.random() < 0.5:
            faults.append({'kind': 'cut_file', 'attempt': 0, 'byte': _cut_pos(rng, size)})
    else:
        faults.append({'kind': 'partition_file', 'attempt': 0, 'byte': _cut_pos(rng, size),
                       'seconds': rng.choice([30.0, 200.0, 400.0])})
    netname = rng.choice(list(NETS))
    net = dict(NETS[netname])
    net['segmentation'] = rng.choice(('whole', 'prf', 'prf', 'byte'))
    net['coalesce'] = rng.random() < 0.7
    if rng.random() < 0.3:
        # asymmetric: the file connection slower or faster than the control connections is produced by jitter
        net['jitter_ms'] = rng.choice([0, 50, 400])
    limit = rng.random()
    lim_up = lim_down = 0
    if limit > 0.6:
        v = 64 if limit < 0.8 or size > 4096 else 1
        if rng.random() < 0.5:
            lim_up = v
        else:
            lim_down = v
    return pair_plan(size, faults=faults, seed=rng.getrandbits(32), net=net, mode=rng.choice(('race', 'fallback')),
                     limit_up=lim_up, limit_down=lim_down,
                     prefix=rng.choice([0, 0, 0, 0, 1, size // 2, max(size - 1, 0), size]) if rng.random() < 0.3 else 0,
                     exec={'delay_ms': [0, rng.choice([1, 5, 50])]})


def _cut_pos(rng, size):
    cands = [0, 1, 127, 128, 129, 8191, 8192, 8193, size - 1, size, rng.randint(0, max(size, 1))]
    return max(0, min(size, rng.choice(cands)))


SHRINK_LISTS = ('faults',)


def simplify(plan):
    if plan.get('mode') != 'race':
        yield dict(plan, mode='race')
    for key in ('limit_up', 'limit_down', 'prefix'):
        if plan.get(key):
            yield dict(plan, **{key: 0})
    if plan.get('size', 0) > 129:
        for s in (129, 1):
            cand = dict(plan, size=s)
            if cand.get('prefix', 0) > s:
                cand['prefix'] = s
            cand['faults'] = [dict(f, byte=min(f.get('byte', 0), s)) if 'byte' in f else dict(f) for f in plan.get('faults', [])]
            yield cand


# ------------------------------------------------------------------------------------------ run

def run(plan):
    world = World(plan, PROPERTY)
    try:
        if plan.get('shape') == 'scripted':
            return _run_scripted(world, plan)
        return _run_pair(world, plan)
    finally:
        world.close()


class SideMonitor:
    """State listener + file checks for one transfer on one side."""

    def __init__(self, world, who, source: bytes, role: str, honest_content: bool = True):
        self.world = world
        self.who = who
        self.source = source       # what the remote file is (for a lying announcement: its announced prefix)
        self.honest_content = honest_content
        self.role = role           # 'download' | 'upload'
        self.path_states = []      # (t, old, new)
        self.failed_without_reason = 0
        self.transfer = None
        self.min_size_seen = 0
        self.last_size = 0
        self.complete_at = None
        self.after_fault_states = []

    def local_bytes(self):
        t = self.transfer
        if t is None or not t.local_path:
            return None
        try:
            with open(t.local_path, 'rb') as fh:
                return fh.read()
        except OSError:
            return None

    async def on_transfer_state_changed(self, transfer, old, new):
        now = self.world.loop.time()
        self.path_states.append((now, old.name, new.name))
        if new.name == 'FAILED' and old.name == 'DOWNLOADING' and not transfer.fail_reason:
            self.failed_without_reason += 1
        self.world.trace('state', self.who, old.name, new.name)
        if self.role == 'download':
            self.check_prefix('notification:' + new.name)
            if new.name == 'COMPLETE':
                self.complete_at = now
                data = self.local_bytes()
                if data is None or data != self.source or transfer.filesize != len(self.source):
                    self.world.violate(
                        'C04.complete_bytes', size_class=size_class(len(self.source)),
                        local=None if data is None else ('short' if len(data) < len(self.source) else
                                                         'long' if len(data) > len(self.source) else 'differs'),
                        announced_ok=transfer.filesize == len(self.source))
        else:
            if new.name == 'COMPLETE':
                self.complete_at = now

    def check_prefix(self, where):
        if self.role != 'download' or not self.honest_content:
            return
        data = self.local_bytes()
        if data is None:
            return
        if data != self.source[:len(data)]:
            self.world.violate('C04.prefix', what='not a prefix of the source', where=where.split(':')[0],
                               longer=len(data) > len(self.source))
        if len(data) < self.last_size and self.transfer.state.VALUE.name not in ('ABORTED',):
            self.world.violate('C04.prefix', what='local file shrank', where=where.split(':')[0])
        self.last_size = len(data)


def size_class(n):
    if n in (0, 1):
        return str(n)
    if n <= 129:
        return '<=129'
    if n <= 8193:
        return '<=8193'
    return 'multi-chunk'


def _run_pair(world: World, plan):
    loop = world.loop
    size = plan['size']
    source = pattern_bytes(size, 7)
    server = world.add_server()
    share_dir = world.sandbox.sub('alice', 'share')
    with open(os.path.join(share_dir, 'data.bin'), 'wb') as fh:
        fh.write(source)
    alice = world.add_client('alice', overrides={
        'shares': {'scan_on_start': False, 'directories': [{'path': share_dir}]},
        'network': {'peer': {'connect_mode': plan.get('mode', 'race')},
                    'limits': {'upload_speed_kbps': plan.get('limit_up', 0)}},
    })
    bob = world.add_client('bob', overrides={
        'network': {'peer': {'connect_mode': plan.get('mode', 'race')},
                    'limits': {'download_speed_kbps': plan.get('limit_down', 0)}},
    })
    watch = FileConnWatch(world, 'alice', 'bob')
    faults = [dict(f) for f in plan.get('faults', [])]
    fired = world.net.fired
    last_fault = [loop.time()]
    down = SideMonitor(world, 'bob', source, 'download')
    up = SideMonitor(world, 'alice', source, 'upload')
    world.keep_alive.extend([down, up])
    offsets_seen = []

    def on_file_conn(rec):
        n = rec['n']
        for f in faults:
            if f.get('attempt') == n and not f.get('armed'):
                f['armed'] = True
                if f['kind'] == 'cut_file':
                    rec['conn'].cut_after(rec['dir'], rec['header'] + f['byte'])
                    f['conn'] = rec['conn']
                elif f['kind'] == 'partition_file':
                    f['conn'] = rec['conn']
                    f['rec'] = rec
    watch.on_file_conn = on_file_conn

    def fault_monitor():
        for f in faults:
            if f.get('done'):
                continue
            if f['kind'] == 'cut_file' and f.get('armed') and f['conn'].reset_done:
                f['done'] = True
                last_fault[0] = loop.time()
            elif f['kind'] == 'truncate_local':
                # once the cut of that attempt has happened and the download has noticed, the partial file loses its tail
                # (or goes away): the next attempt has to resume at what is really there
                cut = [c for c in faults if c['kind'] == 'cut_file' and c.get('attempt') == f.get('attempt')]
                tr = down.transfer
                if cut and cut[0].get('done') and tr is not None and tr.local_path and \
                        tr.state.VALUE.name in ('INCOMPLETE', 'QUEUED') and os.path.isfile(tr.local_path):
                    f['done'] = True
                    down.last_size = 0          # the harness shrinks the file itself: "keeps the received prefix" restarts here
                    cur = os.path.getsize(tr.local_path)
                    if f.get('to') == 'delete':
                        os.unlink(tr.local_path)
                        fired['local_file_deleted'] += 1
                    else:
                        os.truncate(tr.local_path, min(int(f.get('to', 0)), cur))
                        fired['local_file_truncated'] += 1
                    last_fault[0] = loop.time()
            elif f['kind'] == 'partition_file' and f.get('armed') and not f.get('held'):
                if f['rec']['delivered'] >= f['byte']:
                    f['held'] = True
                    f['conn'].hold(f['seconds'])
                    f['done'] = True
                    last_fault[0] = loop.time() + f['seconds']
        # offset check: when the downloader wrote its offset, the local file must have exactly that size
        for rec in watch.fconns:
            if rec.get('offset') is not None and not rec.get('offset_checked'):
                rec['offset_checked'] = True
                offsets_seen.append(rec['offset'])
                data = down.local_bytes()
                local = 0 if data is None else len(data)
                if rec['offset'] != local:
                    world.violate('C04.offset', offset_minus_local=('+' if rec['offset'] > local else '-'),
                                  attempt=min(rec['n'], 3))
        down.check_prefix('iteration')
    loop.monitors.append(fault_monitor)

    # resets of P connections during the negotiation
    from sim.net import Tap

    class PTap(Tap):
        def __init__(self):
            self.count = {}

        def on_data(self, conn, direction, data):
            if {conn.src.name, conn.dst.name} != {'alice', 'bob'}:
                return
            from aioslsk.protocol import messages as M
            for f in faults:
                if f['kind'] != 'reset_p' or f.get('done'):
                    continue
                try:
                    msg = M.PeerMessage.deserialize_request(data)
                except Exception:
                    continue
                want = {'after_queue': M.PeerTransferQueue.Request, 'after_request': M.PeerTransferRequest.Request,
                        'after_reply': M.PeerTransferReply.Request}[f['when']]
                if isinstance(msg, want):
                    f['done'] = True
                    last_fault[0] = loop.time()
                    loop.call_soon(conn.reset, 'rst_negotiation')
    world.net.taps.append(PTap())

    def hook_bob(event):
        if isinstance(event, TransferAddedEvent) and event.transfer.direction == TransferDirection.DOWNLOAD:
            down.transfer = event.transfer
            event.transfer.state_listeners.append(down)

    def hook_alice(event):
        if isinstance(event, TransferAddedEvent) and event.transfer.direction == TransferDirection.UPLOAD:
            up.transfer = event.transfer
            event.transfer.state_listeners.append(up)
    bob.recorder.hooks.append(hook_bob)
    alice.recorder.hooks.append(hook_alice)
    results = {}

    async def main():
        await world.start_client(alice)
        await world.start_client(bob)
        c = world.call(alice, 'scan', alice.client.shares.scan)
        await c.task
        item = next(iter(alice.client.shares.shared_directories[0].items))
        remote = item.get_remote_path()
        if plan.get('prefix'):
            # a correct partial file already on disk at the place the client will choose
            ddir, fname = bob.client.shares.calculate_download_path(remote)
            os.makedirs(ddir, exist_ok=True)
            with open(os.path.join(ddir, fname), 'wb') as fh:
                fh.write(source[:min(plan['prefix'], size)])
            results['preset'] = os.path.join(ddir, fname)
        await asyncio.sleep(0.5)
        c = world.call(bob, 'download', bob.client.transfers.download, 'alice', remote)
        await c.task
        t = c.result
        if results.get('preset'):
            t.local_path = results['preset']
        # wait until both sides are complete, or the liveness bound after the last fault has passed
        while True:
            await asyncio.sleep(1.0)
            pending_faults = [f for f in faults if not f.get('done')]
            both = down.complete_at is not None and up.complete_at is not None
            if both:
                break
            if loop.time() > last_fault[0] + B_LIVE + 5.0 and (not pending_faults or loop.time() > last_fault[0] + 2 * B_LIVE):
                break
        results['end'] = loop.time()
        await asyncio.sleep(2.0)

    world.run(main())

    # ----------------------------------------------------------------- history checks
    sc = size_class(size)
    pending_faults = [f for f in faults if not f.get('done')]
    for f in faults:
        if f.get('done'):
            fired[f['kind']] += 0 if f['kind'] == 'cut_file' else 1
    both = down.complete_at is not None and up.complete_at is not None
    if not both:
        world.violate('C04.liveness', size_class=sc, down=down.transfer.state.VALUE.name if down.transfer else None,
                      up=up.transfer.state.VALUE.name if up.transfer else None,
                      faults=sorted({f['kind'] for f in faults if f.get('done')}),
                      prefix=('none' if not plan.get('prefix') else 'full' if plan['prefix'] >= size else 'partial'))
    elif max(down.complete_at, up.complete_at) > last_fault[0] + B_LIVE and faults:
        world.violate('C04.liveness', size_class=sc, late=True)
    # upload COMPLETE: every byte from the negotiated offset was handed to the socket and the peer ended the connection
    if up.complete_at is not None and watch.fconns:
        rec = None
        for r in watch.fconns:
            if r['opened_at'] <= up.complete_at:
                rec = r
        if rec is not None:
            off = rec['offset'] if rec['offset'] is not None else 0
            if rec['sent'] != max(size - off, 0):
                world.violate('C04.upload_complete', what='not all bytes were sent', size_class=sc,
                              sent_minus_due=('+' if rec['sent'] > size - off else '-'))
            conn = rec['conn']
            alice_tr = conn.a if conn.src.name == 'alice' else conn.b
            if not (alice_tr._eof_received or conn.reset_done or alice_tr._closed):
                world.violate('C04.upload_complete', what='peer had not ended the connection', size_class=sc)
    # after a cut the download is INCOMPLETE / FAILED(reason) / QUEUED again
    for (t, old, new) in down.path_states:
        if old == 'DOWNLOADING' and new not in ('COMPLETE', 'INCOMPLETE', 'FAILED', 'ABORTED', 'PAUSED'):
            world.violate('C04.fault_state', frm=old, to=new)
    if down.failed_without_reason:
        # "the download becomes INCOMPLETE (or FAILED with a reason)": judged at the notification
        world.violate('C04.fault_state', what='DOWNLOADING -> FAILED without a reason')
    for rec in world.loop.exc_contexts:
        world.violate('C04.fault_state', what='loop exception handler', exc=rec.get('exc_type'), coro=rec.get('coro'))
        break
    nontrivial = any(f.get('done') for f in faults) or bool(plan.get('prefix')) or bool(plan.get('limit_up') or plan.get('limit_down'))
    if len(watch.fconns) > 1:
        world.probe('resumed_on_a_new_file_connection')
    if any(o > 0 for o in offsets_seen):
        world.probe('resume_offset_nonzero')
    sig = [sc, plan.get('mode'), [(f['kind'], _pos_class(f.get('byte'), size), bool(f.get('done'))) for f in faults],
           [s[2] for s in down.path_states], [s[2] for s in up.path_states], bool(plan.get('prefix')),
           bool(plan.get('limit_up')), bool(plan.get('limit_down'))]
    return common.finish(world, nontrivial, sig)


def _pos_class(k, size):
    if k is None:
        return None
    if k == 0:
        return 'start'
    if k >= size:
        return 'end'
    if k in (127, 128, 129, 8191, 8192, 8193):
        return 'chunk-edge'
    return 'mid'


def _run_scripted(world: World, plan):
    loop = world.loop
    size = plan['size']
    role = plan['role']
    beh = dict(plan.get('beh') or {})
    if plan.get('prefix_junk') and (beh.get('announce_delta') or beh.get('extra_len')):
        plan = dict(plan, prefix_junk=0)      # not judged together (see generate): older replays / shrunk plans
    source = pattern_bytes(size, 9)
    server = world.add_server()
    share_dir = world.sandbox.sub('alice', 'share')
    with open(os.path.join(share_dir, 'data.bin'), 'wb') as fh:
        fh.write(source)
    alice = world.add_client('alice', overrides={
        'shares': {'scan_on_start': False, 'directories': [{'path': share_dir}]},
        'network': {'peer': {'connect_mode': plan.get('mode', 'race')}},
    })
    xp = XferPeer(world, 'mallory')
    xp.attach(alice)
    # a sender that lies about the size: "the remote file" is what it announced, if it has that many bytes
    announced = source
    if role == 'uploader' and beh.get('announce_delta', 0) < 0:
        announced = source[:max(size + beh['announce_delta'], 0)]
    mon = SideMonitor(world, 'alice', announced, 'download' if role == 'uploader' else 'upload',
                      honest_content=not (beh.get('extra_len') or beh.get('announce_delta') or plan.get('prefix_junk')))
    world.keep_alive.append(mon)
    fired = world.net.fired

    def hook(event):
        if isinstance(event, TransferAddedEvent) and mon.transfer is None:
            mon.transfer = event.transfer
            event.transfer.state_listeners.append(mon)
    alice.recorder.hooks.append(hook)
    loop.monitors.append(lambda: mon.check_prefix('iteration'))
    results = {}

    async def main():
        await world.start_client(alice)
        c = world.call(alice, 'scan', alice.client.shares.scan)
        await c.task
        await asyncio.sleep(0.3)
        if role == 'uploader':
            path = '@@mallory\\stuff\\data.bin'
            b = {}
            if 'send_bytes' in beh:
                b['send_bytes'] = beh['send_bytes']
                fired['short_sender'] += beh['send_bytes'] < size
            if beh.get('extra_len'):
                b['extra'] = pattern_bytes(beh['extra_len'], 3)
                fired['long_sender'] += 1
            if beh.get('announce_delta'):
                b['announce_size'] = max(size + beh['announce_delta'], 0)
                fired['lying_filesize'] += 1
            for k in ('after_send', 'close_delay', 'chunk', 'chunk_delay'):
                if k in beh:
                    b[k] = beh[k]
            if beh.get('after_send') in ('close', 'abort'):
                fired['early_close'] += 1
            b.setdefault('on_queue', 'start_once')
            xp.share(path, source, **b)
            if plan.get('chain'):
                # a configured naming chain (it ends in number-duplicates: fresh names are its job)
                from aioslsk.naming import DefaultNamingStrategy, KeepDirectoryStrategy, NumberDuplicateStrategy
                kinds = {'D': DefaultNamingStrategy, 'K': KeepDirectoryStrategy, 'N': NumberDuplicateStrategy}
                alice.client.shares.naming_strategies = [kinds[c]() for c in plan['chain']]
            if plan.get('foreign') is not None:
                # other people's files already sit where the download would go (its natural name, numbered variants)
                chain = plan.get('chain') or ['D', 'N']
                ddir = alice.settings.shares.download
                if 'K' in chain:
                    ddir = os.path.join(ddir, 'stuff')
                os.makedirs(ddir, exist_ok=True)
                for k, suffix in enumerate(plan['foreign']):
                    with open(os.path.join(ddir, f'data{suffix}.bin'), 'wb') as fh:
                        fh.write(pattern_bytes(700 + k, 40 + k))
                    fired['foreign_file_in_the_way'] += 1
                results['foreign'] = {os.path.join(ddir, f'data{suffix}.bin'): pattern_bytes(700 + k, 40 + k)
                                      for k, suffix in enumerate(plan['foreign'])}
            if plan.get('prefix'):
                ddir, fname = alice.client.shares.calculate_download_path(path)
                os.makedirs(ddir, exist_ok=True)
                with open(os.path.join(ddir, fname), 'wb') as fh:
                    fh.write(source[:min(plan['prefix'], size)])
                    if plan.get('prefix_junk'):
                        # a stale local file that is longer than what the peer announces now
                        fh.write(pattern_bytes(plan['prefix_junk'], 5))
                        fired['local_file_longer_than_remote'] += 1
                results['preset'] = os.path.join(ddir, fname)
            c = world.call(alice, 'download', alice.client.transfers.download, 'mallory', path)
            await c.task
            if results.get('preset'):
                c.result.local_path = results['preset']
            results['ul'] = xp.uploads[path]
        else:
            item = next(iter(alice.client.shares.shared_directories[0].items))
            path = item.get_remote_path()
            b = {}
            if 'read_bytes' in beh:
                b['read_bytes'] = beh['read_bytes']
                b['stop_how'] = beh.get('stop_how', 'close')
                fired['early_close'] += 1
            if beh.get('offset_delta'):
                b['offset'] = max(0, (size if beh['offset_delta'] > 0 else 0) + beh['offset_delta']) \
                    if abs(beh['offset_delta']) > 1 else max(0, min(size + 1, (size if beh['offset_delta'] > 0 else 1) + beh['offset_delta']))
                fired['bad_offset'] += 1
            if beh.get('after_all'):
                b['after_all'] = beh['after_all']
                fired['never_close'] += 1
            if beh.get('close_delay'):
                b['close_delay'] = beh['close_delay']
            results['dl'] = xp.want(path, **b)
            xp.peer.spawn(xp.request_file(path))
        await asyncio.sleep(400.0)

    world.run(main())

    sc = size_class(size)
    t = mon.transfer
    if role == 'uploader':
        ul = results.get('ul')
        # download COMPLETE => intact (checked in the monitor). A short/long sender must not end COMPLETE with a wrong file.
        if t is not None and t.state.VALUE.name == 'COMPLETE':
            data = mon.local_bytes()
            if data != announced:
                world.violate('C04.complete_bytes', size_class=sc, at='end', beh=sorted(beh),
                              **({'foreign': list(plan['foreign'])} if plan.get('foreign') is not None else {}))
        for fpath, content in (results.get('foreign') or {}).items():
            try:
                with open(fpath, 'rb') as fh:
                    now_content = fh.read()
            except OSError:
                now_content = None
            if now_content != content:
                world.violate('C04.complete_bytes', size_class=sc, at='end', what='a file that was there before was changed',
                              foreign=list(plan['foreign']))
                break
    else:
        dl = results.get('dl')
        # upload COMPLETE only if every byte from the negotiated offset was sent and the peer closed
        if mon.complete_at is not None and dl is not None:
            off = dl.offsets_sent[-1] if dl.offsets_sent else 0
            got = dl.attempt_bytes[-1] if dl.attempt_bytes else 0
            due = max(size - off, 0)
            ended = [e for e in dl.ended if e[0] <= mon.complete_at + 1e-9]
            # the statement says *sent*: judge what alice handed to the socket of that file connection
            sent = None
            if dl.f_links:
                conn = dl.f_links[-1].writer.transport.conn
                pipe = conn.c2s if conn.src.name == 'alice' else conn.s2c
                header = (pipe.written - 0)
                sent = pipe.written
            if off > size:
                world.violate('C04.upload_complete', what='COMPLETE with an offset beyond the size', size_class=sc)
            elif sent is not None and sent < due:
                world.violate('C04.upload_complete', what='COMPLETE although not all bytes were handed to the socket',
                              size_class=sc, stop_how=beh.get('stop_how'))
            elif not [c for c in dl.closed_at if c <= mon.complete_at + 1e-9]:
                world.violate('C04.upload_complete', what='COMPLETE although the peer had not closed the connection',
                              size_class=sc, stop_how=beh.get('stop_how'), after_all=beh.get('after_all'))
    for rec in world.loop.exc_contexts:
        world.violate('C04.fault_state', what='loop exception handler', exc=rec.get('exc_type'), coro=rec.get('coro'),
                      shape='scripted')
        break
    nontrivial = bool(beh) or bool(plan.get('prefix_junk'))
    sig = ['scripted', role, sc, sorted(beh.items()), [s[2] for s in mon.path_states], bool(plan.get('prefix'))]
    return common.finish(world, nontrivial, sig)

INFO['rule'] += " Round-5 additions (scripted uploader): other people's files where the download would go (natural name, numbered variants with gaps) and configured naming chains ending in number-duplicates; those files must be unchanged at the end."
