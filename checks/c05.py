"""C05 - active uploads never exceed the slot limit or one per user; priority holds.

World (W-xfer): one real client sharing a handful of files, scripted server, 1..5 scripted
downloaders (sim/xfer.py) with a plan-assigned mix of status / friend / privileged.  Events:
queue requests in any order, downloaders that finish, reset mid-file, refuse, never answer,
user aborts, slot-limit changes 0..4, status / privilege notifications; gaps straddle the
management cycle spacing.
"""
from __future__ import annotations

import asyncio
import os

from aioslsk.events import MessageReceivedEvent, TransferAddedEvent
from aioslsk.protocol import messages as M
from aioslsk.transfer.model import TransferDirection

from sim.world import World
from sim.xfer import XferPeer, pattern_bytes
from . import common

PROPERTY = 'C05'
INFO = {
    'level': 'exploration',
    'rule': ('plans = 1..5 downloader users (status online/away/offline/unknown, friend, privileged) x 1..3 files each x '
             'slot limit 0..4 x <= 12 events (queue request, reset mid-file, user abort, slot change, status/privilege '
             'change, refusing / silent downloader) with gaps from {0, 1 ms, 40 ms, 60 ms, 300 ms, 5 s}; upload speed '
             'limited so that uploads overlap; non-trivial = more eligible users than slots at some instant, or a fault '
             'event (reset / refuse / silent / abort / limit change) fired; distinct = signature over (population, limit '
             'history, order of INITIALIZING entries by rank class)'),
    'real': common.REAL, 'stub': common.STUB,
    'assumptions': [
        'limit in force for an upload entering INITIALIZING = the largest value the setting had during the preceding 0.3 s '
        '(a management cycle decides up to one cycle spacing before the task changes the state)',
        'rank class: privileged > friend > online/away > unknown, from what the client has been told (AddUser / '
        'GetUserStatus / PrivilegedUsers frames it processed); a comparison is made only at stable-rank instants: no '
        'status/privilege/friend change for either user during the preceding 1 s and both users\' status learnt after '
        'their upload was queued',
        'liveness bound B = 120 virtual s in the cooperative tail (all downloaders answer), measured while an eligible '
        'QUEUED upload and a free slot coexist',
    ],
}
INFO['rule'] += ' Later additions: user pause / re-queue of an upload and repeated requests for the same file (an older upload of a user comes back while a newer one is active).'

GAPS = (0.0, 0.001, 0.04, 0.06, 0.3, 5.0)
STATUS = {'online': 2, 'away': 1, 'offline': 0, 'unknown': None}
B_LIVE = 120.0


def generate(rng, index, tier):
    nusers = rng.randint(1, 5)
    users = []
    for i in range(nusers):
        users.append({'name': f'u{i}', 'status': rng.choice(('online', 'online', 'away', 'offline', 'unknown')),
                      'friend': rng.random() < 0.3, 'privileged': rng.random() < 0.2,
                      'files': rng.randint(1, 3)})
    for u in users:
        if rng.random() < 0.25:
            # this user drops its control connection right after asking; the client has to open a connection of its own,
            # which takes a while (longer than one management cycle)
            u['reach'] = {'delay': rng.choice([0.3, 1.5, 4.0, 8.0])}
    events = []
    # every user's files get requested at some point, in random order
    reqs = [(u['name'], f) for u in users for f in range(u['files'])]
    rng.shuffle(reqs)
    for (name, f) in reqs:
        events.append({'do': 'request', 'user': name, 'file': f, 'gap': rng.choice(GAPS)})
    extra = rng.randint(0, 5)
    for _ in range(extra):
        r = rng.random()
        u = rng.choice(users)['name']
        if r < 0.2:
            ev = {'do': 'slots', 'value': rng.randint(0, 4), 'how': rng.choice(['field', 'field', 'limits', 'transfers'])}
        elif r < 0.4:
            ev = {'do': 'status', 'user': u, 'status': rng.choice(('online', 'away', 'offline')),
                  'privileged': rng.random() < 0.2}
        elif r < 0.47:
            ev = {'do': 'abort', 'user': u}
            if rng.random() < 0.4:
                ev.update(twice=rng.choice(('abort', 'pause')), hops=rng.randint(0, 4))
            if rng.random() < 0.3:
                # ... and blocks the same user shortly before: the management's own abort and the application's meet
                events.insert(rng.randint(0, len(events)), {'do': 'block', 'user': u, 'gap': rng.choice([0.0, 0.3, 0.8])})
        elif r < 0.55:
            ev = {'do': rng.choice(('pause', 'requeue', 'request')), 'user': u, 'file': rng.randint(0, 2)}
        elif r < 0.7:
            ev = {'do': 'reset', 'user': u, 'after': rng.choice([0, 1, 2000, 9000])}
        elif r < 0.8:
            ev = {'do': 'behaviour', 'user': u, 'reply': rng.choice(('refuse', 'silent'))}
        elif r < 0.9:
            ev = {'do': 'friend', 'user': u, 'value': rng.random() < 0.5}
        else:
            ev = {'do': 'behaviour', 'user': u, 'reply': 'allow'}
        ev['gap'] = rng.choice(GAPS)
        events.insert(rng.randint(0, len(events)), ev)
    return {
        'slow_close': rng.choice([0.05, 0.3, 1.0]) if rng.random() < 0.2 else None,
        'seed': rng.getrandbits(32), 'net': common.draw_net(rng), 'exec': {'delay_ms': [0, 2]},
        'users': users, 'slots': rng.randint(0, 4), 'events': events[:14],
        'size': rng.choice([2000, 20000, 60000]), 'speed_kbps': rng.choice([0, 20, 50, 200]),
        'mode': rng.choice(('race', 'fallback')),
    }


def corpus(tier):
    out = []
    net = {'base_ms': 5, 'jitter_ms': 0, 'segmentation': 'whole', 'coalesce': True}

    def plan(users, slots, events, **kw):
        p = {'seed': 1, 'net': net, 'exec': {'delay_ms': [0, 1]}, 'users': users, 'slots': slots, 'events': events,
             'size': 20000, 'speed_kbps': 20, 'mode': 'race'}
        p.update(kw)
        return p
    # one slot, three users of different rank classes arriving lowest rank first, all in one cycle
    classes = [
        {'name': 'u0', 'status': 'unknown', 'friend': False, 'privileged': False, 'files': 1},
        {'name': 'u1', 'status': 'online', 'friend': False, 'privileged': False, 'files': 1},
        {'name': 'u2', 'status': 'online', 'friend': True, 'privileged': False, 'files': 1},
        {'name': 'u3', 'status': 'online', 'friend': False, 'privileged': True, 'files': 1},
    ]
    # a first upload occupies the single slot while the others queue up; when it finishes the best must start
    blocker = {'name': 'u4', 'status': 'online', 'friend': False, 'privileged': False, 'files': 1}
    for order in ([0, 1, 2, 3], [3, 2, 1, 0], [1, 3, 0, 2], [2, 0, 3, 1]):
        evs = [{'do': 'request', 'user': 'u4', 'file': 0, 'gap': 0.0}]
        evs += [{'do': 'request', 'user': f'u{i}', 'file': 0, 'gap': 0.3 if n == 0 else 0.0} for n, i in enumerate(order)]
        out.append(plan(classes + [blocker], 1, evs))
    # same user, three files, two slots: never two at once
    out.append(plan([{'name': 'u0', 'status': 'online', 'friend': False, 'privileged': False, 'files': 3}], 2,
                    [{'do': 'request', 'user': 'u0', 'file': f, 'gap': 0.0} for f in range(3)]))
    # an older upload leaves its slot (paused / aborted / completed), the same user's next file takes over, then the
    # older one is queued again (by the user, or by the peer asking again) while the newer one is still active
    two = [{'name': 'u0', 'status': 'online', 'friend': False, 'privileged': False, 'files': 2},
           {'name': 'u1', 'status': 'online', 'friend': False, 'privileged': False, 'files': 1}]
    for leave in ('pause', 'abort', None):
        for back in ('requeue', 'request'):
            for gap in (0.0, 0.3):
                evs = [{'do': 'request', 'user': 'u0', 'file': 0, 'gap': 0.0}, {'do': 'request', 'user': 'u0', 'file': 1, 'gap': 0.0}]
                if leave:
                    evs.append({'do': leave, 'user': 'u0', 'gap': 0.3})
                evs.append({'do': back, 'user': 'u0', 'file': 0, 'gap': 0.6 if leave else 3.0})
                evs.append({'do': 'request', 'user': 'u1', 'file': 0, 'gap': gap})
                out.append(plan(two, 2, evs, size=60000 if leave else 20000, speed_kbps=20))
    # the selected user is slow to reach (control connection dropped, connect takes 1.5 / 4 s): a higher-ranked user asks
    # meanwhile; one slot
    for delay in (1.5, 4.0):
        for gap in (0.1, 0.5, 1.0):
            slowu = [{'name': 'u0', 'status': 'online', 'friend': False, 'privileged': False, 'files': 1, 'reach': {'delay': delay}},
                     {'name': 'u1', 'status': 'online', 'friend': False, 'privileged': True, 'files': 1},
                     {'name': 'u2', 'status': 'online', 'friend': True, 'privileged': False, 'files': 1}]
            out.append(plan(slowu, 1, [{'do': 'request', 'user': 'u0', 'file': 0, 'gap': 0.0},
                                       {'do': 'request', 'user': 'u1', 'file': 0, 'gap': gap},
                                       {'do': 'request', 'user': 'u2', 'file': 0, 'gap': gap}]))
    # an upload to a privileged, slow-to-reach user breaks mid-file; while the failure notice is still being delivered the
    # user asks again and a lower-ranked user asks too: the free slot must wait for the privileged user
    for delay in (6.0, 8.0):
        for gap in (1.5, 2.5):
            pair = [{'name': 'u0', 'status': 'online', 'friend': False, 'privileged': True, 'files': 1, 'reach': {'delay': delay}},
                    {'name': 'u1', 'status': 'online', 'friend': False, 'privileged': False, 'files': 1}]
            out.append(plan(pair, 1, [{'do': 'request', 'user': 'u0', 'file': 0, 'gap': 0.0},
                                      {'do': 'reset', 'user': 'u0', 'after': 2000, 'gap': delay + 1.5},
                                      {'do': 'request', 'user': 'u0', 'file': 0, 'gap': gap},
                                      {'do': 'request', 'user': 'u1', 'file': 0, 'gap': gap}], size=60000, speed_kbps=20))
    # a user with a running and a queued upload goes offline: when the running one has finished the queued one must wait
    for friend in (False, True):
        two = [{'name': 'u0', 'status': 'online', 'friend': friend, 'privileged': False, 'files': 2},
               {'name': 'u1', 'status': 'online', 'friend': False, 'privileged': False, 'files': 1}]
        for later in (None, 'u1'):
            evs = [{'do': 'request', 'user': 'u0', 'file': 0, 'gap': 0.0}, {'do': 'request', 'user': 'u0', 'file': 1, 'gap': 0.0},
                   {'do': 'status', 'user': 'u0', 'status': 'offline', 'privileged': False, 'gap': 1.0}]
            if later:
                evs.append({'do': 'request', 'user': later, 'file': 0, 'gap': 12.0})
            evs.append({'do': 'nothing', 'gap': 15.0})      # several idle management cycles
            out.append(plan(two, 1, evs, size=60000, speed_kbps=20))
    # offline user never started; comes online later
    out.append(plan([{'name': 'u0', 'status': 'offline', 'friend': False, 'privileged': False, 'files': 1},
                     {'name': 'u1', 'status': 'online', 'friend': False, 'privileged': False, 'files': 1}], 2,
                    [{'do': 'request', 'user': 'u0', 'file': 0, 'gap': 0.0},
                     {'do': 'request', 'user': 'u1', 'file': 0, 'gap': 0.0},
                     {'do': 'status', 'user': 'u0', 'status': 'online', 'privileged': False, 'gap': 5.0}]))
    # the application aborts a running upload and calls again (abort / pause) while the first call is still closing the file
    # connection; a queue waits behind it
    two = [{'name': f'u{i}', 'status': 'online', 'friend': False, 'privileged': False, 'files': 1} for i in range(3)]
    for twice in ('abort', 'pause'):
        for hops in (0, 1, 3):
            for slow in (0.05, 0.5):
                evs = [{'do': 'request', 'user': f'u{i}', 'file': 0, 'gap': 0.0} for i in range(3)]
                evs.append({'do': 'abort', 'user': 'u0', 'twice': twice, 'hops': hops, 'gap': 1.5})
                evs.append({'do': 'abort', 'user': 'u1', 'twice': twice, 'hops': hops, 'gap': 1.0})
                out.append(plan([dict(u, privileged=(u['name'] == 'u0')) for u in two], 1, evs, slow_close=slow, size=120000))
    # the application blocks the user of the running upload and aborts that upload itself a moment later; the file connection
    # is slow to close, so the management's abort (after the next look at the settings) meets the application's
    first = [dict(u, privileged=(u['name'] == 'u0')) for u in two]       # u0 gets the slot
    for gap in (0.1, 0.4, 0.7, 1.0):
        for slow in (1.5, 3.0):
            evs = [{'do': 'request', 'user': f'u{i}', 'file': 0, 'gap': 0.0} for i in range(3)]
            evs.append({'do': 'block', 'user': 'u0', 'gap': 1.5})
            evs.append({'do': 'abort', 'user': 'u0', 'gap': gap})
            out.append(plan(first, 1, evs, slow_close=slow, size=120000))
    # limit changes around arrivals: 0 -> 2, 3 -> 1, 1 -> 0
    four = [{'name': f'u{i}', 'status': 'online', 'friend': False, 'privileged': False, 'files': 1} for i in range(4)]
    for a, b in ((0, 2), (3, 1), (1, 0), (2, 4), (4, 0)):
        for gap in (0.0, 0.04, 0.3):
            evs = [{'do': 'request', 'user': f'u{i}', 'file': 0, 'gap': 0.0} for i in range(2)]
            evs.append({'do': 'slots', 'value': b, 'gap': gap})
            evs += [{'do': 'request', 'user': f'u{i}', 'file': 0, 'gap': 0.0} for i in range(2, 4)]
            out.append(plan(four, a, evs))
            if gap == 0.3:
                # the same with the settings section replaced as a whole
                for how in ('limits', 'transfers'):
                    out.append(plan(four, a, [dict(e, how=how) if e['do'] == 'slots' else e for e in evs]))
    # faults: reset mid file, refusing and silent downloader, user abort, with a waiting queue behind
    for ev in ({'do': 'reset', 'user': 'u0', 'after': 2000}, {'do': 'behaviour', 'user': 'u0', 'reply': 'refuse'},
               {'do': 'behaviour', 'user': 'u0', 'reply': 'silent'}, {'do': 'abort', 'user': 'u0'}):
        evs = [dict(ev, gap=0.0)] if ev['do'] == 'behaviour' else []
        evs += [{'do': 'request', 'user': f'u{i}', 'file': 0, 'gap': 0.0} for i in range(3)]
        if ev['do'] != 'behaviour':
            evs.append(dict(ev, gap=0.3))
        out.append(plan(four[:3], 1, evs))
    return out


SHRINK_LISTS = ('events', 'users')


def simplify(plan):
    if plan.get('mode') != 'race':
        yield dict(plan, mode='race')
    for i, ev in enumerate(plan['events']):
        if ev.get('gap'):
            cand = dict(plan, events=[dict(e) for e in plan['events']])
            cand['events'][i]['gap'] = 0.0
            yield cand


def rank_class(info, friends):
    if info.get('privileged'):
        return 3
    if info['name'] in friends:
        return 2
    if info.get('status') in (1, 2):
        return 1
    return 0


def run(plan):
    if not plan.get('users'):
        return {'violations': [], 'signature': 'empty', 'nontrivial': False}
    world = World(plan, PROPERTY)
    try:
        return _run(world, plan)
    finally:
        world.close()


def _run(world: World, plan):
    loop = world.loop
    users = {u['name']: u for u in plan['users']}
    friends0 = sorted(u['name'] for u in plan['users'] if u['friend'])
    server = world.add_server({'privileged': sorted(u['name'] for u in plan['users'] if u['privileged'])})
    for u in plan['users']:
        st = STATUS[u['status']]
        if st is None:
            server.add_user_script[u['name']] = ['silent'] * 50
        else:
            server.users[u['name']] = {'status': st, 'privileged': u['privileged']}
    share_dir = world.sandbox.sub('alice', 'share')
    nfiles = max(u['files'] for u in plan['users'])
    size = plan.get('size', 20000)
    for f in range(nfiles):
        with open(os.path.join(share_dir, f'file{f}.bin'), 'wb') as fh:
            fh.write(pattern_bytes(size, f))
    alice = world.add_client('alice', overrides={
        'shares': {'scan_on_start': False, 'directories': [{'path': share_dir}]},
        'network': {'peer': {'connect_mode': plan.get('mode', 'race')},
                    'limits': {'upload_speed_kbps': plan.get('speed_kbps', 0)}},
        'transfers': {'limits': {'upload_slots': plan['slots']}},
        'users': {'friends': friends0},
    })
    client = alice.client
    tm = client.transfers
    settings = alice.settings
    if plan.get('slow_close'):
        # an application listener that takes its time whenever a peer connection is closing: stopping a running upload
        # (which closes its file connection while it holds the transfer's lock) takes that long
        from aioslsk.events import ConnectionStateChangedEvent
        from aioslsk.network.connection import PeerConnection

        async def slow_close(event):
            if event.state.name == 'CLOSING' and isinstance(event.connection, PeerConnection):
                world.net.fired['slow_close_listener'] += 1
                await asyncio.sleep(float(plan['slow_close']))
        world.keep_alive.append(slow_close)
        client.events.register(ConnectionStateChangedEvent, slow_close, priority=2000)
    xpeers = {}
    for name in users:
        xp = XferPeer(world, name)
        xp.attach(alice)
        xpeers[name] = xp

    # ---- what the client has been told (rank knowledge) -------------------------------------
    known = {name: {'name': name, 'status': None, 'privileged': users[name]['privileged'] and True,
                    'status_at': None, 'changed_at': 0.0} for name in users}
    for name in users:
        known[name]['privileged'] = False     # learnt from the PrivilegedUsers frame below
    limit_hist = [(loop.time(), plan['slots'])]
    friend_changed = {name: 0.0 for name in users}

    def on_message(event):
        msg = event.message
        now = loop.time()
        if isinstance(msg, M.AddUser.Response) and msg.username in known:
            k = known[msg.username]
            if msg.exists:
                if k['status'] != msg.status:
                    k['changed_at'] = now
                k['status'] = msg.status
                k['status_at'] = now
        elif isinstance(msg, M.GetUserStatus.Response) and msg.username in known:
            k = known[msg.username]
            if k['status'] != msg.status or k['privileged'] != msg.privileged:
                k['changed_at'] = now
            k['status'] = msg.status
            k['privileged'] = bool(msg.privileged)
            k['status_at'] = now
        elif isinstance(msg, M.PrivilegedUsers.Response):
            for name, k in known.items():
                p = name in msg.users
                if k['privileged'] != p:
                    k['changed_at'] = now
                k['privileged'] = p
    world.keep_alive.append(on_message)
    client.events.register(MessageReceivedEvent, on_message, priority=2000)

    # ---- monitors ----------------------------------------------------------------------------
    uploads = []          # Transfer objects (uploads)
    queued_at = {}        # id(transfer) -> time it (last) became QUEUED
    init_log = []         # (t, user, class, waiting classes)
    stats = {'max_eligible_over_slots': 0}

    def limit_in_force(now):
        best = limit_hist[-1][1]
        for (t, v) in reversed(limit_hist):
            if t < now - 0.3:
                best = max(best, v)
                break
            best = max(best, v)
        return best

    def active():
        return [t for t in uploads if t in tm.transfers and t.state.VALUE.name in ('INITIALIZING', 'UPLOADING')]

    def current_friends():
        return set(settings.users.friends)

    class Listener:
        async def on_transfer_state_changed(self, transfer, old, new):
            now = loop.time()
            world.trace('state', transfer.username, old.name, new.name)
            if new.name == 'QUEUED':
                queued_at[id(transfer)] = now
            if new.name != 'INITIALIZING':
                return
            act = active()
            lim = limit_in_force(now)
            if len(act) > lim:
                world.violate('C05.slots', active=len(act), limit=lim,
                              limit_changed_recently=any(t > now - 1.0 for (t, _) in limit_hist[1:]))
            mine = [t for t in act if t.username == transfer.username]
            if len(mine) > 1:
                world.violate('C05.per_user', n=len(mine))
            k = known[transfer.username]
            friends = current_friends()
            stable_me = (k['changed_at'] <= now - 1.0 and friend_changed[transfer.username] <= now - 1.0)
            learnt_me = k['status_at'] is not None and k['status_at'] >= queued_at.get(id(transfer), 0.0) \
                and k['status_at'] <= now - 1.0
            if k['status'] == 0 and stable_me and learnt_me:
                world.violate('C05.offline', told_seconds_ago=round(now - k['status_at'], 1) >= 1.0)
            my_class = rank_class(k, friends)
            waiting = []
            busy_users = {t.username for t in act}
            for other in uploads:
                if other is transfer or other not in tm.transfers or other.state.VALUE.name != 'QUEUED':
                    continue
                if other.username in busy_users:
                    continue
                ko = known[other.username]
                stable_o = (ko['changed_at'] <= now - 1.0 and friend_changed[other.username] <= now - 1.0)
                learnt_o = ko['status_at'] is not None and ko['status_at'] >= queued_at.get(id(other), 0.0) \
                    and ko['status_at'] <= now - 1.0
                queued_long = queued_at.get(id(other), now) <= now - 1.0
                if ko['status'] == 0:
                    continue      # offline: not eligible
                oc = rank_class(ko, friends)
                waiting.append(oc)
                if not (stable_me and stable_o and queued_long):
                    continue
                if oc > my_class:
                    # friend / privileged are certain; the status classes (online/away vs unknown) are only
                    # compared when both statuses were learnt for these very uploads
                    if oc == 1 and not (learnt_me and learnt_o):
                        continue
                    world.violate('C05.priority', started=my_class, waiting=oc)
            init_log.append((now, transfer.username, my_class, tuple(sorted(waiting))))
    listener = Listener()
    world.keep_alive.append(listener)

    def on_event(event):
        if isinstance(event, TransferAddedEvent) and event.transfer.direction == TransferDirection.UPLOAD:
            uploads.append(event.transfer)
            event.transfer.state_listeners.append(listener)
    alice.recorder.hooks.append(on_event)

    live = {'since': None, 'worst': 0.0, 'tail': False}

    def iteration_monitor():
        act = [t for t in uploads if t in tm.transfers and t.state.VALUE.name in ('INITIALIZING', 'UPLOADING')]
        per = {}
        for t in act:
            per[t.username] = per.get(t.username, 0) + 1
            if per[t.username] == 2:
                world.violate('C05.per_user', n=2, seen='between notifications')
        if not live['tail']:
            return
        # liveness: eligible QUEUED upload while a slot is free
        now = loop.time()
        free = settings.transfers.limits.upload_slots - len(act)
        waiting = False
        if free > 0:
            busy = set(per)
            for t in uploads:
                if t in tm.transfers and t.state.VALUE.name == 'QUEUED' and t.username not in busy \
                        and known[t.username]['status'] != 0:
                    waiting = True
                    break
        if waiting:
            if live['since'] is None:
                live['since'] = now
            elif now - live['since'] > live['worst']:
                live['worst'] = now - live['since']
        else:
            live['since'] = None
    loop.monitors.append(iteration_monitor)

    fired = world.net.fired
    remote = {}

    async def request_and_hang_up(xp, path):
        await xp.request_file(path)
        await asyncio.sleep(0.02)
        fired['control_connection_dropped'] += 1
        for link in list(xp.p_links):
            if link.is_open():
                link.close()

    def connect_hook(attempt):
        if attempt['src'] != 'alice':
            return None
        r = users.get(attempt['dst'], {}).get('reach')
        if r:
            fired['slow_connect_to_downloader'] += 1
            return ('slow', float(r['delay']))
        return None
    world.net.connect_hook = connect_hook

    async def main():
        await world.start_client(alice)
        c = world.call(alice, 'scan', client.shares.scan)
        await c.task
        for it in client.shares.shared_directories[0].items:
            remote[int(it.filename[4:-4])] = it.get_remote_path()
        await asyncio.sleep(0.5)
        for ev in plan['events']:
            if ev.get('gap'):
                await asyncio.sleep(ev['gap'])
            do = ev['do']
            if do == 'request':
                if ev['user'] not in xpeers or ev['file'] not in remote:
                    continue
                xp = xpeers[ev['user']]
                path = remote[ev['file']]
                if path not in xp.downloads:
                    xp.want(path, **xp.dl_beh.get('*', {}))
                if users[ev['user']].get('reach'):
                    xp.peer.spawn(request_and_hang_up(xp, path))
                else:
                    xp.peer.spawn(xp.request_file(path))
            elif do == 'slots':
                fired['limit_change'] += 1
                how = ev.get('how', 'field')
                if how == 'limits':
                    # the application replaces the settings section instead of assigning the field
                    settings.transfers.limits = type(settings.transfers.limits)(
                        **dict(settings.transfers.limits.model_dump(), upload_slots=ev['value']))
                elif how == 'transfers':
                    data = settings.transfers.model_dump()
                    data['limits']['upload_slots'] = ev['value']
                    settings.transfers = type(settings.transfers)(**data)
                else:
                    settings.transfers.limits.upload_slots = ev['value']
                limit_hist.append((loop.time(), ev['value']))
            elif do == 'status' and ev['user'] in users:
                fired['status_change'] += 1
                st = STATUS[ev['status']]
                server.users.setdefault(ev['user'], {}).update(status=st, privileged=ev.get('privileged', False))
                server.add_user_script.pop(ev['user'], None)
                server.send_to('alice', M.GetUserStatus.Response(ev['user'], st, bool(ev.get('privileged', False))))
            elif do == 'friend' and ev['user'] in users:
                fired['settings_change'] += 1
                fr = set(settings.users.friends)
                (fr.add if ev['value'] else fr.discard)(ev['user'])
                settings.users.friends = fr
                friend_changed[ev['user']] = loop.time()
            elif do == 'block' and ev['user'] in users:
                # the application blocks the user for uploads: the management aborts his unfinished uploads by itself
                from aioslsk.user.model import BlockingFlag
                fired['settings_change'] += 1
                settings.users.blocked = dict(settings.users.blocked, **{ev['user']: BlockingFlag.UPLOADS})
            elif do == 'abort' and ev['user'] in users:
                for t in list(uploads):
                    if t.username == ev['user'] and t in tm.transfers and t.state.VALUE.name in ('QUEUED', 'INITIALIZING', 'UPLOADING'):
                        fired['user_abort'] += 1
                        world.call(alice, 'abort', tm.abort, t)
                        if ev.get('twice'):
                            # the application calls again (abort or pause) while the first call is still under way
                            fired['overlapping_user_calls'] += 1

                            def again(n, t=t, what=ev['twice']):
                                if n > 0:
                                    loop.call_soon(again, n - 1)
                                else:
                                    world.call(alice, what + '2', tm.abort if what == 'abort' else tm.pause, t)
                            again(int(ev.get('hops', 0)))
                        break
            elif do in ('pause', 'requeue') and ev['user'] in users:
                # user pauses an upload of that peer / puts its oldest stopped upload back in the queue
                states = ('QUEUED', 'INITIALIZING', 'UPLOADING') if do == 'pause' else ('PAUSED', 'ABORTED', 'FAILED', 'COMPLETE')
                for t in list(uploads):
                    if t.username == ev['user'] and t in tm.transfers and t.state.VALUE.name in states:
                        fired['user_' + do] += 1
                        world.call(alice, do, tm.pause if do == 'pause' else tm.queue, t)
                        break
            elif do == 'reset' and ev['user'] in xpeers:
                xp = xpeers[ev['user']]
                for dl in xp.downloads.values():
                    for fl in dl.f_links:
                        if fl.is_open():
                            fired['reset_mid_file'] += 1
                            fl.abort()
                            break
                # and future attempts of that user stop after a few bytes once
                xp.dl_beh.setdefault('*', {})
            elif do == 'behaviour' and ev['user'] in xpeers:
                xp = xpeers[ev['user']]
                fired['peer_' + ev['reply']] += ev['reply'] != 'allow'
                for path in list(xp.dl_beh) + list(remote.values()):
                    xp.dl_beh.setdefault(path, {})['reply'] = ev['reply']
        # cooperative tail: everybody answers, known-offline users come online, nobody changes anything
        await asyncio.sleep(2.0)
        for xp in xpeers.values():
            for path in list(xp.dl_beh):
                xp.dl_beh[path]['reply'] = 'allow'
        live['tail'] = True
        tail_start = loop.time()
        while loop.time() < tail_start + 400.0:
            await asyncio.sleep(5.0)
            pend = [t for t in uploads if t in tm.transfers and t.state.VALUE.name in ('QUEUED', 'INITIALIZING', 'UPLOADING')
                    and known[t.username]['status'] != 0]
            if not pend or settings.transfers.limits.upload_slots == 0:
                break

    world.run(main())

    if live['worst'] > B_LIVE:
        world.violate('C05.liveness', waited_more_than=B_LIVE,
                      limit_changed=len(limit_hist) > 1, final_limit=limit_hist[-1][1])
    for rec in world.loop.exc_contexts:
        world.violate('C05.slots', what='loop exception handler', exc=rec.get('exc_type'), coro=rec.get('coro'))
        break
    # probes / signature
    max_over = 0
    for (t, user, cls, waiting) in init_log:
        if waiting:
            max_over = max(max_over, len(waiting))
            world.probe('start_with_others_waiting')
            if any(w != cls for w in waiting):
                world.probe('start_with_other_rank_class_waiting')
    faults = sum(v for k, v in fired.items() if k in ('limit_change', 'status_change', 'user_abort', 'user_pause', 'user_requeue', 'reset_mid_file',
                                                       'peer_refuse', 'peer_silent', 'settings_change'))
    nontrivial = max_over > 0 or faults > 0
    sig = [sorted((u['status'], u['friend'], u['privileged'], u['files']) for u in plan['users']),
           [v for (_, v) in limit_hist], [(cls, waiting) for (_, _, cls, waiting) in init_log][:12]]
    return common.finish(world, nontrivial, sig)

INFO['rule'] += ' Round-5 additions: the slot limit is also changed by replacing settings.transfers.limits or settings.transfers as a whole.'

INFO['rule'] += ' Round-6 additions: the application calls abort / pause again while its first abort is still closing the file connection (twice, slow_close), and blocks the user of the running upload shortly before aborting it (block).'
