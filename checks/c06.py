"""C06 - after abort/pause/remove returns, nothing more happens for that transfer; at most
one background negotiation per transfer is in flight.

World (W-xfer): one real client, scripted server, scripted transfer peers (sim/xfer.py)
whose reachability is plan data.  The stop call is placed on a trigger at the k-th
negotiation event of the target transfer (k enumerated in the corpus) plus j loop
iterations; afterwards the peers go silent about that file and a 300 s window is observed.
"""
from __future__ import annotations

import asyncio
import os

from aioslsk.protocol import messages as M
from aioslsk.transfer.model import TransferDirection

from sim.net import Tap
from sim.world import World
from sim.xfer import WireTap, XferPeer, pattern_bytes
from . import common

PROPERTY = 'C06'
INFO = {
    'level': 'exploration',
    'rule': ('plans = 1..3 transfers (downloads from / uploads to 1..2 scripted peers) x peer reachability (fast, slow, '
             'direct black-hole, both paths dead, refused) x a stop operation (abort / pause / remove) on a trigger at '
             'the k-th negotiation event of the target transfer + j loop iterations (k = 0..15 enumerated in the '
             'corpus for each base scenario) x server status notifications and other transfers driving management '
             'cycles; non-trivial = the stop landed while a negotiation task of the target was pending or a connect '
             'was in flight; distinct = signature over (scenario, stop op, event kind at the trigger, what was pending)'),
    'real': common.REAL, 'stub': common.STUB,
    'assumptions': [
        'after the stop call returned the scripted peers no longer speak about that file (the property\'s "until the '
        'peer legitimately re-queues it"); refusals the client sends in answer to peer frames already in flight '
        '(PeerTransferReply allowed=false, PeerTransferQueueFailed) are not counted',
        'window W = 300 virtual s, longer than every protocol timeout (10 + 60 + 30 + 60 + 180 s paths are cut by the stop)',
        'negotiation tasks are identified by their coroutine (TransferManager._queue_remotely / _initialize_upload / '
        '_initialize_download) and its bound transfer argument, collected through the loop task factory',
        'remotely_queued is left out of the field comparison when a peer status change lands inside the window',
    ],
}
INFO['rule'] += ' Later additions: (25 %) the uploader offers the file over its own connection while our queue attempt still connects; (uploads) the file connection is reset mid-file after the control connections were dropped and the reachability changed, and the peer asks again; a duplicated PeerTransferRequest.'

W = 300.0
REACH = ('fast', 'slow', 'blackhole', 'dead', 'refused')
OPS = ('abort', 'pause', 'remove')
FIELDS = ('local_path', 'filesize', 'bytes_transfered', 'fail_reason', 'abort_reason', 'start_time',
          'complete_time', 'remotely_queued', 'place_in_queue')
KINDS = {'_queue_remotely': 'queue', '_initialize_upload': 'init', '_initialize_download': 'init'}


def base_plan(seed=1, **kw):
    plan = {
        'seed': seed, 'net': {'base_ms': 5, 'jitter_ms': 0, 'segmentation': 'whole', 'coalesce': True},
        'exec': {'delay_ms': [0, 1]},
        'mode': 'race',
        'transfers': [{'id': 0, 'dir': 'down', 'peer': 'bob', 'size': 40000, 'at': 0.0}],
        'reach': {'bob': {'direct': 'fast', 'delay': 0.02, 'pierce': False}},
        'stop': {'transfer': 0, 'op': 'abort', 'k': 3, 'plus_iter': 0, 'fallback_at': 25.0},
        'status': [], 'chunk_delay': 0.0, 'queue_delay': 0.05, 'slots': 2,
        # the uploader offers the file on its own connection at this instant (it had it queued from before),
        # whether or not our own queue request has reached it
        'spontaneous': None,
        # upload target only: the downloader resets the file connection after `after` bytes, drops its P links, is from
        # then on reachable as `then` says, and asks for the file again `requeue_delay` later
        'ul_break': None,
        # download target only: the uploader resets the first file connection after `after` bytes, drops its P links and is
        # from then on reachable as `then` says: the automatic retry of the INCOMPLETE download hangs in its connect
        'dl_break': None,
        # download target only: the uploader (which holds an open control connection) offers the file this many seconds
        # after the stop call was ISSUED - i.e. possibly while the call is still waiting for the tasks it cancelled
        'offer_on_stop': None,
        # an application listener that takes its time inside a connection state notification (makes cancelling a
        # connect attempt take virtual time)
        'slow_listener': None,
    }
    plan.update(kw)
    return plan


def corpus(tier):
    out = []
    scenarios = []
    for direction in ('down', 'up'):
        for reach in REACH:
            delay = {'fast': 0.02, 'slow': 4.0, 'blackhole': None, 'dead': None, 'refused': 0.02}[reach]
            scenarios.append((direction, reach, delay))
    for direction, reach, delay in scenarios:
        for op in OPS:
            for k in range(0, 16):
                out.append(base_plan(
                    transfers=[{'id': 0, 'dir': direction, 'peer': 'bob', 'size': 40000, 'at': 0.0}],
                    reach={'bob': {'direct': reach, 'delay': delay, 'pierce': reach in ('blackhole',)}},
                    stop={'transfer': 0, 'op': op, 'k': k, 'plus_iter': 0, 'fallback_at': 25.0},
                    chunk_delay=0.01))
    # an upload aborted by the user, then its downloader is blocked and unblocked again
    for k in (0, 2, 4, 6, 8, 99):
        for flap in ({'after': 0.5, 'for': 3.0}, {'after': 5.0, 'for': 10.0}):
            out.append(base_plan(transfers=[{'id': 0, 'dir': 'up', 'peer': 'bob', 'size': 40000, 'at': 0.0}],
                                 stop={'transfer': 0, 'op': 'abort', 'k': k, 'plus_iter': 0, 'fallback_at': 25.0},
                                 block_flap=flap, chunk_delay=0.01))
    # the uploader's file connection is under way when the stop lands (it arrives, with its ticket, after the stop)
    for op in OPS:
        for late in (1.0, 5.0, 70.0):
            for k in range(3, 12):
                out.append(base_plan(stop={'transfer': 0, 'op': op, 'k': k, 'plus_iter': 0, 'fallback_at': 25.0},
                                     late_f=late, chunk_delay=0.01))
    # management cycles while the connect of the target hangs: second transfer completing + status flaps
    for op in OPS:
        for t in (0.3, 2.0, 8.0, 12.0, 30.0):
            out.append(base_plan(
                transfers=[{'id': 0, 'dir': 'down', 'peer': 'bob', 'size': 40000, 'at': 0.0},
                           {'id': 1, 'dir': 'down', 'peer': 'carol', 'size': 3000, 'at': 0.1}],
                reach={'bob': {'direct': 'blackhole', 'delay': None, 'pierce': False},
                       'carol': {'direct': 'fast', 'delay': 0.02, 'pierce': False}},
                stop={'transfer': 0, 'op': op, 'k': 99, 'plus_iter': 0, 'fallback_at': t},
                status=[{'at': 0.5, 'peer': 'carol', 'status': 1}, {'at': 1.5, 'peer': 'carol', 'status': 2}]))
    # our queue attempt hangs on a black-holed connect while the uploader offers the file over its own connection:
    # a remote-queue task and an initialisation are in flight together
    for op in OPS:
        for k in range(0, 12):
            out.append(base_plan(
                reach={'bob': {'direct': 'blackhole', 'delay': None, 'pierce': False}},
                stop={'transfer': 0, 'op': op, 'k': k, 'plus_iter': 0, 'fallback_at': 25.0},
                spontaneous=0.5, chunk_delay=0.01))
    # upload broken mid-file, the failure notice needs a new (slow) connection, the peer asks again meanwhile
    for op in OPS:
        for then, then_delay in (('slow', 4.0), ('blackhole', None)):
            for k in range(4, 16):
                out.append(base_plan(
                    transfers=[{'id': 0, 'dir': 'up', 'peer': 'bob', 'size': 200000, 'at': 0.0}],
                    reach={'bob': {'direct': 'fast', 'delay': 0.02, 'pierce': then == 'blackhole', 'pierce_delay': 20.0}},
                    stop={'transfer': 0, 'op': op, 'k': k, 'plus_iter': 0, 'fallback_at': 25.0},
                    ul_break={'after': 4096, 'requeue_delay': 0.3, 'then': then, 'then_delay': then_delay}))
            for t in (1.0, 3.0, 6.0, 11.0, 15.0):
                out.append(base_plan(
                    transfers=[{'id': 0, 'dir': 'up', 'peer': 'bob', 'size': 200000, 'at': 0.0}],
                    reach={'bob': {'direct': 'fast', 'delay': 0.02, 'pierce': then == 'blackhole', 'pierce_delay': 20.0}},
                    stop={'transfer': 0, 'op': op, 'k': 99, 'plus_iter': 0, 'fallback_at': t},
                    ul_break={'after': 4096, 'requeue_delay': 0.3, 'then': then, 'then_delay': then_delay}))
    # the stop call waits for a cancelled connect attempt (slow CLOSING listener) while the uploader's offer arrives
    for op in OPS:
        for reach in ('slow', 'blackhole'):
            for d in (0.0, 0.05, 0.2, 0.45):
                for t in (0.3, 2.0):
                    out.append(base_plan(
                        reach={'bob': {'direct': reach, 'delay': 6.0 if reach == 'slow' else None, 'pierce': False}},
                        stop={'transfer': 0, 'op': op, 'k': 99, 'plus_iter': 0, 'fallback_at': t},
                        offer_on_stop=d, slow_listener={'state': 'CLOSING', 'delay': 0.5}, chunk_delay=0.01))
    # a download broken mid-file whose automatic retry hangs in a slow / black-holed connect when the user stops it
    for op in OPS:
        for then, then_delay in (('slow', 6.0), ('blackhole', None)):
            for t in (0.5, 1.5, 3.0, 8.0):
                out.append(base_plan(
                    transfers=[{'id': 0, 'dir': 'down', 'peer': 'bob', 'size': 40000, 'at': 0.0}],
                    stop={'transfer': 0, 'op': op, 'k': 99, 'plus_iter': 0, 'fallback_at': t},
                    dl_break={'after': 8192, 'then': then, 'then_delay': then_delay}, chunk_delay=0.001))
    # pause first, abort / remove a little later (the call starts from PAUSED)
    for direction in ('down', 'up'):
        for op in ('abort', 'remove'):
            for k in (0, 2, 4, 6, 9):
                for gap in (0.0, 1.0):
                    out.append(base_plan(
                        transfers=[{'id': 0, 'dir': direction, 'peer': 'bob', 'size': 40000, 'at': 0.0}],
                        stop={'transfer': 0, 'op': op, 'k': k, 'plus_iter': 0, 'fallback_at': 25.0, 'pre_pause': gap},
                        chunk_delay=0.01))
    # duplicated PeerTransferRequest handled back-to-back
    for op in OPS:
        for k in range(2, 9):
            out.append(base_plan(stop={'transfer': 0, 'op': op, 'k': k, 'plus_iter': 0, 'fallback_at': 25.0},
                                 dup_request=1, chunk_delay=0.01))
    return out


def generate(rng, index, tier):
    n = rng.choice([1, 1, 2, 2, 3])
    peers = ['bob'] if rng.random() < 0.5 else ['bob', 'carol']
    transfers = []
    for i in range(n):
        transfers.append({'id': i, 'dir': rng.choice(('down', 'down', 'up')), 'peer': rng.choice(peers),
                          'size': rng.choice([0, 1, 3000, 40000, 200000]),
                          'at': round(rng.choice([0.0, 0.0, 0.05, 0.3, 1.0]) + rng.random() * 0.01, 4)})
    reach = {}
    for p in peers:
        r = rng.choice(REACH)
        reach[p] = {'direct': r,
                    'delay': {'fast': rng.choice([0.0, 0.02, 0.2]), 'slow': rng.uniform(2.0, 8.0), 'blackhole': None,
                              'dead': None, 'refused': rng.choice([0.0, 0.02, 1.0])}[r],
                    'pierce': (r in ('blackhole', 'refused', 'slow') and rng.random() < 0.5),
                    'pierce_delay': rng.choice([0.05, 1.0, 20.0])}
    status = []
    for _ in range(rng.choice([0, 0, 1, 2, 3])):
        status.append({'at': round(rng.uniform(0.0, 40.0), 3), 'peer': rng.choice(peers), 'status': rng.choice([0, 1, 2])})
    status.sort(key=lambda s: s['at'])
    plan = base_plan(
        seed=rng.getrandbits(32), net=common.draw_net(rng) if rng.random() < 0.5 else
        {'base_ms': rng.choice([1, 5, 20]), 'jitter_ms': 0, 'segmentation': 'whole', 'coalesce': True},
        mode=rng.choice(('race', 'fallback')),
        transfers=transfers, reach=reach,
        stop={'transfer': rng.randrange(n), 'op': rng.choice(OPS), 'k': rng.choice(list(range(0, 14)) + [99]),
              'plus_iter': rng.randint(0, 3), 'fallback_at': rng.choice([0.0, 0.3, 2.0, 9.0, 11.0, 25.0, 65.0])},
        status=status, chunk_delay=rng.choice([0.0, 0.005, 0.05]), queue_delay=rng.choice([0.0, 0.05, 1.0]),
        slots=rng.choice([1, 2, 2, 3]))
    if rng.random() < 0.15:
        plan['dup_request'] = 1
    if rng.random() < 0.25:
        plan['spontaneous'] = rng.choice([0.0, 0.05, 0.5, 3.0, 12.0])
    target = transfers[plan['stop']['transfer']]
    if target['dir'] == 'down' and rng.random() < 0.15:
        then = rng.choice(('slow', 'blackhole', 'refused'))
        plan['dl_break'] = {'after': rng.choice([1, 4096, 30000]), 'then': then,
                            'then_delay': rng.uniform(2.0, 8.0) if then == 'slow' else None}
    if plan['stop']['op'] in ('abort', 'remove') and rng.random() < 0.15:
        plan['stop']['pre_pause'] = rng.choice([0.0, 0.01, 1.0, 6.0])
    if target['dir'] == 'down' and rng.random() < 0.15:
        plan['late_f'] = rng.choice([0.5, 2.0, 5.0, 30.0, 70.0])
    if target['dir'] == 'down' and rng.random() < 0.2:
        plan['offer_on_stop'] = rng.choice([0.0, 0.001, 0.05, 0.3])
        plan['slow_listener'] = {'state': rng.choice(('CLOSING', 'CLOSED')), 'delay': rng.choice([0.01, 0.1, 0.5])}
    if target['dir'] == 'up' and plan['stop']['op'] == 'abort' and rng.random() < 0.3:
        plan['block_flap'] = {'after': rng.choice([0.0, 0.5, 5.0, 20.0]), 'for': rng.choice([0.5, 3.0, 10.0, 30.0])}
    if target['dir'] == 'up' and rng.random() < 0.4:
        then = rng.choice(('slow', 'blackhole', 'refused', None))
        plan['ul_break'] = {'after': rng.choice([1, 4096, 30000]), 'requeue_delay': rng.choice([0.0, 0.3, 2.0, 12.0]),
                            'then': then, 'then_delay': rng.uniform(2.0, 8.0) if then == 'slow' else None}
    return plan


SHRINK_LISTS = ('transfers', 'status')


def simplify(plan):
    if plan.get('spontaneous') is not None:
        yield dict(plan, spontaneous=None)
    if plan.get('ul_break'):
        yield dict(plan, ul_break=None)
    if plan.get('dl_break'):
        yield dict(plan, dl_break=None)
    if plan.get('offer_on_stop') is not None:
        yield dict(plan, offer_on_stop=None)
    if plan.get('slow_listener'):
        yield dict(plan, slow_listener=None)
    if plan.get('dup_request'):
        yield dict(plan, dup_request=0)
    if plan['stop'].get('plus_iter'):
        yield dict(plan, stop=dict(plan['stop'], plus_iter=0))
    if plan['stop'].get('pre_pause') is not None:
        yield dict(plan, stop={k: v for k, v in plan['stop'].items() if k != 'pre_pause'})
    if plan.get('mode') != 'race':
        yield dict(plan, mode='race')


def run(plan):
    if not plan.get('transfers'):
        return {'violations': [], 'signature': 'empty', 'nontrivial': False}
    if plan['stop']['transfer'] >= len(plan['transfers']) or \
            not any(t['id'] == plan['stop']['transfer'] for t in plan['transfers']):
        return {'violations': [], 'signature': 'no-target', 'nontrivial': False}
    world = World(plan, PROPERTY)
    try:
        return _run(world, plan)
    finally:
        world.close()


def _run(world: World, plan):
    loop = world.loop
    server = world.add_server()
    transfers = plan['transfers']
    peers_needed = sorted({t['peer'] for t in transfers})
    share_dir = world.sandbox.sub('alice', 'share')
    up_files = {}
    for t in transfers:
        if t['dir'] == 'up':
            name = f"up{t['id']}.bin"
            with open(os.path.join(share_dir, name), 'wb') as fh:
                fh.write(pattern_bytes(t['size'], t['id']))
            up_files[t['id']] = name
    alice = world.add_client('alice', overrides={
        'shares': {'scan_on_start': False, 'directories': [{'path': share_dir}]},
        'network': {'peer': {'connect_mode': plan.get('mode', 'race')}},
        'transfers': {'limits': {'upload_slots': plan.get('slots', 2)}},
    })
    client = alice.client
    tm = client.transfers
    wire = WireTap(world, 'alice')
    xpeers = {}
    for name in peers_needed:
        r = plan['reach'].get(name, {'direct': 'fast', 'delay': 0.02})
        xp = XferPeer(world, name, pierce=bool(r.get('pierce')))
        xp.attach(alice)
        xpeers[name] = xp

    # reachability ----------------------------------------------------------------
    reach_now = {name: dict(r) for name, r in plan['reach'].items()}
    def connect_hook(attempt):
        if attempt['src'] != 'alice':
            return None
        r = reach_now.get(attempt['dst'])
        if r is None:
            return None
        d = r['direct']
        if d == 'fast':
            return ('accept', r.get('delay') or 0.0)
        if d == 'slow':
            return ('slow', r.get('delay') or 4.0)
        if d in ('blackhole', 'dead'):
            return ('blackhole', None)
        if d == 'refused':
            return ('refuse', r.get('delay') or 0.0)
        return None
    world.net.connect_hook = connect_hook
    pierce_pending = {}

    class PierceTap(Tap):
        def on_connect(self, conn):
            if conn.dst.name == 'alice' and pierce_pending.get(conn.src.name, 0) > 0:
                pierce_pending[conn.src.name] -= 1
                conn.meta['pierce_after_stop'] = True      # (whether it is "after the stop" is decided by its opening time)
    world.net.taps.append(PierceTap())
    for name, xp in xpeers.items():
        r = plan['reach'].get(name, {})
        if r.get('pierce'):
            orig = xp._on_relay

            async def delayed(relay, xp=xp, r=r, orig=orig):
                await asyncio.sleep(r.get('pierce_delay', 0.05))
                pierce_pending[xp.name] = pierce_pending.get(xp.name, 0) + 1
                await orig(relay)
            xp.peer.connect_to_peer_handler = delayed

    slow = plan.get('slow_listener')
    if slow:
        from aioslsk.events import ConnectionStateChangedEvent
        from aioslsk.network.connection import PeerConnection

        async def slow_listener(event):
            if isinstance(event.connection, PeerConnection) and event.state.name == slow['state']:
                world.probe('slow_listener_held_notification')
                await asyncio.sleep(slow['delay'])
        world.keep_alive.append(slow_listener)
        client.events.register(ConnectionStateChangedEvent, slow_listener, priority=2000)

    # negotiation task registry (task factory wrapper) --------------------------------
    nego = []        # [task, kind, transfer or None]
    base_factory = loop.get_task_factory()

    def factory(lp, coro, **kw):
        task = base_factory(lp, coro, **kw)
        name = getattr(coro, '__qualname__', '')
        short = name.rsplit('.', 1)[-1]
        if short in KINDS and name.startswith('TransferManager.'):
            nego.append([task, KINDS[short], coro])
        return task
    loop.set_task_factory(factory)

    def bound_transfer(coro):
        frame = getattr(coro, 'cr_frame', None)
        if frame is None:
            return None
        return frame.f_locals.get('transfer')

    two_tasks_seen = set()

    def monitor():
        if not nego:
            return
        counts = {}
        alive = []
        for entry in nego:
            task, kind, coro = entry
            if task.done():
                continue
            alive.append(entry)
            tr = bound_transfer(coro)
            if tr is None:
                continue
            key = (id(tr), kind)
            counts[key] = counts.get(key, 0) + 1
            if counts[key] == 2 and key not in two_tasks_seen:
                two_tasks_seen.add(key)
                world.violate('C06.two_tasks', kind=kind, direction=tr.direction.name.lower(),
                              state=tr.state.VALUE.name)
        nego[:] = alive
    loop.monitors.append(monitor)

    # target tracking --------------------------------------------------------------------
    target_spec = next(t for t in transfers if t['id'] == plan['stop']['transfer'])
    objs = {}           # transfer id -> Transfer object
    remote_paths = {}   # transfer id -> remote path
    events_seen = []    # negotiation events of the target: (kind, detail)
    stop_state = {'issued': False, 'call': None, 'trigger_event': None}

    def target_path():
        return remote_paths.get(target_spec['id'])

    def note_event(kind, detail=None):
        if stop_state['issued']:
            return
        events_seen.append((kind, detail))
        if len(events_seen) - 1 == plan['stop']['k']:
            stop_state['trigger_event'] = kind
            hop(plan['stop'].get('plus_iter', 0))

    def hop(n):
        if n <= 0:
            issue_stop()
        else:
            loop.call_soon(hop, n - 1)

    def issue_stop():
        if stop_state['issued']:
            return
        tr = objs.get(target_spec['id'])
        if tr is None:
            return
        stop_state['issued'] = True
        op = plan['stop']['op']
        pre = plan['stop'].get('pre_pause')
        if pre is not None and op in ('abort', 'remove'):
            # the user pauses first and aborts / removes a little later: the judged call starts from PAUSED
            async def two_steps():
                world.net.fired['pause_before_stop'] += 1
                c = world.call(alice, 'pre-pause', tm.pause, tr)
                await c.task
                await asyncio.sleep(float(pre))
                do_stop(tr, op)
            world.keep_alive.append(asyncio.ensure_future(two_steps()))
        else:
            do_stop(tr, op)

    def do_stop(tr, op):
        fn = {'abort': tm.abort, 'pause': tm.pause, 'remove': tm.remove}[op]
        pend = [k for (task, k, coro) in nego if not task.done() and bound_transfer(coro) is tr]
        stop_state['pending_at_stop'] = sorted(pend)
        stop_state['state_at_stop'] = tr.state.VALUE.name
        stop_state['connect_in_flight'] = any(
            a.get('outcome') in (None, 'blackhole', 'slow') and 'conn' not in a and a['src'] == 'alice'
            and a['dst'] == target_spec['peer'] and a['time'] + 10.0 > loop.time()
            for a in world.net.connect_attempts)
        stop_state['call'] = world.call(alice, f'stop-{op}', fn, tr)
        if plan.get('offer_on_stop') is not None and target_spec['dir'] == 'down':
            world.net.fired['offer_during_stop_call'] += 1
            xp = xpeers[target_spec['peer']]
            xp.peer.spawn(xp.offer(target_path(), delay=float(plan['offer_on_stop'])))
        stop_state['call'].task.add_done_callback(lambda _t, tr=tr: at_return(tr))

    def at_return(tr):
        # runs in the iteration after the call returned: snapshot, and the peers go silent about the file
        call = stop_state['call']
        if call.returned_at is None:
            return
        results['t0'] = call.returned_at
        for xp in xpeers.values():
            xp.muted.add(target_path())
        results['snap0'] = {f: getattr(tr, f, None) for f in FIELDS}
        results['state0'] = tr.state.VALUE.name
        # a transfer of that user which does not exist yet (its request is still to come) is not "stopped"
        results['all_stopped'] = all(
            objs.get(t['id']) is not None and (
                objs[t['id']].state.VALUE.name in ('ABORTED', 'PAUSED', 'COMPLETE', 'FAILED')
                or objs[t['id']] not in tm.transfers)
            for t in transfers if t['peer'] == target_spec['peer'])

    class EvTap(Tap):
        def on_connect(self, conn):
            pass

    lost_at = {}            # id(sim connection) -> instant at which alice's end of it was closed

    class LostTap(Tap):
        def on_lost(self, conn, side, exc):
            end = conn.a if side == 'a' else conn.b
            if end is not None and getattr(end, 'context', None) is not None:
                host = conn.src if side == 'a' else conn.dst
                if host.name == 'alice':
                    lost_at.setdefault(id(conn), loop.time())
    world.net.taps.append(LostTap())

    def on_attempt_watch():
        # connect attempts towards the target's peer count as negotiation events
        seen = stop_state.setdefault('attempts_seen', 0)
        atts = [a for a in world.net.connect_attempts if a['src'] == 'alice' and a['dst'] == target_spec['peer']]
        if len(atts) > seen:
            stop_state['attempts_seen'] = len(atts)
            for _ in range(len(atts) - seen):
                note_event('connect_attempt')
    loop.monitors.append(on_attempt_watch)

    class Listener:
        async def on_transfer_state_changed(self, transfer, old, new):
            if transfer is objs.get(target_spec['id']):
                world.trace('state', old.name, new.name)
                note_event('state', new.name)
    listener = Listener()
    world.keep_alive.append(listener)

    # frames of the target seen at either end
    wire_seen = [0]
    peer_seen = {name: 0 for name in xpeers}

    def frame_watch():
        path = target_path()
        if path is None:
            return
        out = wire.out
        while wire_seen[0] < len(out):
            rec = out[wire_seen[0]]
            wire_seen[0] += 1
            msg = rec.get('msg')
            if msg is not None and getattr(msg, 'filename', None) == path:
                note_event('sent', type(msg).__qualname__)
            elif rec.get('typ') == 'F' and rec['peer'] == target_spec['peer']:
                note_event('sent', 'file-bytes')
        for name, xp in xpeers.items():
            while peer_seen[name] < len(xp.sent):
                t, msg = xp.sent[peer_seen[name]]
                peer_seen[name] += 1
                if getattr(msg, 'filename', None) == path:
                    note_event('peer_sent', type(msg).__qualname__)
    loop.monitors.append(frame_watch)

    from aioslsk.events import TransferAddedEvent

    def on_event(event):
        if isinstance(event, TransferAddedEvent):
            tr = event.transfer
            for t in transfers:
                if t['id'] not in objs and remote_paths.get(t['id']) == tr.remote_path and tr.username == t['peer']:
                    objs[t['id']] = tr
                    if t['id'] == target_spec['id']:
                        tr.state_listeners.append(listener)
    alice.recorder.hooks.append(on_event)

    results = {}
    started = set()

    async def start_transfer(t):
        await asyncio.sleep(t['at'])
        started.add(t['id'])
        xp = xpeers[t['peer']]
        if t['dir'] == 'down':
            path = f"@@{t['peer']}\\music\\file{t['id']}.bin"
            remote_paths[t['id']] = path
            beh = {'chunk_delay': plan.get('chunk_delay', 0.0), 'chunk': 4096, 'queue_delay': plan.get('queue_delay', 0.05)}
            if plan.get('dup_request') and t['id'] == target_spec['id']:
                beh['dup_request'] = plan['dup_request']
            if plan.get('late_f') is not None and t['id'] == target_spec['id']:
                # the uploader is slow to open the file connection after our reply; once it has decided to open it, it
                # does (the stop cannot be known to it): the connection and its ticket arrive after the stop
                beh['f_delay'] = float(plan['late_f'])
                beh['f_under_way'] = True
            brk = plan.get('dl_break') if t['id'] == target_spec['id'] else None
            if brk:
                beh['per_attempt'] = [{'send_bytes': int(brk['after']), 'after_send': 'abort'}]
                beh['on_queue'] = 'start'
                xp.peer.spawn(dl_break_watch(xp, path, brk))
            xp.share(path, pattern_bytes(t['size'], t['id']), **beh)
            if plan.get('offer_on_stop') is not None and t['id'] == target_spec['id']:
                await xp.peer.spawn(xp.p_link())
            c = world.call(alice, f"download-{t['id']}", tm.download, t['peer'], path)
            await c.task
            if plan.get('spontaneous') is not None and t['id'] == target_spec['id']:
                world.net.fired['spontaneous_offer'] += 1
                xp.peer.spawn(xp.offer(path, delay=plan['spontaneous']))
        else:
            item = None
            for it in client.shares.shared_directories[0].items:
                if it.filename == up_files[t['id']]:
                    item = it
            if item is None:
                return
            path = item.get_remote_path()
            remote_paths[t['id']] = path
            brk = plan.get('ul_break') if t['id'] == target_spec['id'] else None
            if brk:
                xp.want(path, read_bytes=brk['after'], stop_how='abort')
                xp.peer.spawn(break_watch(xp, path, brk))
            else:
                xp.want(path)
            xp.peer.spawn(xp.request_file(path))

    async def dl_break_watch(xp, path, brk):
        t_end = loop.time() + 120.0
        while path not in xp.uploads or not xp.uploads[path].sent_total:
            if loop.time() > t_end:
                return
            await asyncio.sleep(0.005)
        world.net.fired['download_file_conn_reset'] += 1
        for link in list(xp.p_links):
            if link.is_open():
                link.close()
        if brk.get('then'):
            reach_now[xp.name] = {'direct': brk['then'], 'delay': brk.get('then_delay')}

    async def break_watch(xp, path, brk):
        dl = xp.downloads[path]
        t_end = loop.time() + 120.0
        # as soon as the file connection is there the control connections go away and the reachability changes, so
        # that whatever the client wants to tell the peer after the break needs a new connection
        while not dl.tickets:
            if loop.time() > t_end:
                return
            await asyncio.sleep(0.001)
        for link in list(xp.p_links):
            if link.is_open():
                link.close()
        if brk.get('then'):
            reach_now[xp.name] = {'direct': brk['then'], 'delay': brk.get('then_delay')}
        while not any(how == 'peer_abort' for (_, how) in dl.ended):
            if loop.time() > t_end:
                return
            await asyncio.sleep(0.01)
        world.net.fired['upload_file_conn_reset'] += 1
        xp.dl_beh[path] = {}
        await asyncio.sleep(brk.get('requeue_delay', 0.3))
        if path not in xp.muted:
            world.net.fired['peer_requeue_after_break'] += 1
            await xp.request_file(path)

    async def status_feed():
        last = 0.0
        for s in plan.get('status', []):
            await asyncio.sleep(max(s['at'] - last, 0.0))
            last = s['at']
            server.users.setdefault(s['peer'], {})['status'] = s['status']
            server.send_to('alice', M.GetUserStatus.Response(s['peer'], s['status'], False))
            results.setdefault('status_times', []).append(loop.time())

    async def main():
        await world.start_client(alice)
        c = world.call(alice, 'scan', client.shares.scan)
        await c.task
        await asyncio.sleep(0.5)
        t_base = loop.time()
        if plan['stop']['k'] == 0 and False:
            pass
        tasks = [asyncio.ensure_future(start_transfer(t)) for t in transfers]
        feed = asyncio.ensure_future(status_feed())
        await asyncio.gather(*tasks)
        # fallback: time based stop
        deadline = t_base + plan['stop'].get('fallback_at', 25.0)
        while not stop_state['issued'] and loop.time() < deadline:
            await asyncio.sleep(min(0.25, max(deadline - loop.time(), 0.001)))
        if not stop_state['issued']:
            stop_state['trigger_event'] = 'time'
            issue_stop()
        t_pre = loop.time() + 30.0
        while stop_state['call'] is None and stop_state['issued'] and plan['stop'].get('pre_pause') is not None \
                and loop.time() < t_pre:
            await asyncio.sleep(0.05)     # the judged call follows the pause
        call = stop_state['call']
        if call is None:
            results['no_target'] = True
            return
        t_wait = loop.time() + 200.0      # longer than every protocol timeout the call could be waiting on
        while not call.done and loop.time() < t_wait:
            await asyncio.sleep(0.01)
        results['call'] = call
        if not call.done:
            results['stop_hang'] = True
            return
        t0 = call.returned_at
        tr = objs[target_spec['id']]
        await feed
        flap = plan.get('block_flap')
        if flap and target_spec['dir'] == 'up' and plan['stop']['op'] == 'abort':
            # the application blocks the downloader for uploads and lifts the block again: an upload the user aborted
            # stays what it is (reason and all) and is not offered again
            from aioslsk.user.model import BlockingFlag
            settings = alice.settings
            await asyncio.sleep(float(flap.get('after', 5.0)))
            world.net.fired['user_blocked_then_unblocked_after_abort'] += 1
            settings.users.blocked = dict(settings.users.blocked, **{target_spec['peer']: BlockingFlag.UPLOADS})
            await asyncio.sleep(float(flap.get('for', 10.0)))
            settings.users.blocked = {u: f for u, f in settings.users.blocked.items() if u != target_spec['peer']}
        await asyncio.sleep(max(W - (loop.time() - t0), 1.0))
        results['snap1'] = {f: getattr(tr, f, None) for f in FIELDS}
        if plan.get('late_f') is not None and target_spec['dir'] == 'down':
            ul = xpeers[target_spec['peer']].uploads.get(remote_paths.get(target_spec['id']))
            kept = 0
            for flink in (ul.f_links if ul is not None else []):
                sim_conn = flink.writer.transport.conn
                if sim_conn.opened_at > t0 and sim_conn.b is not None and not sim_conn.b._closed:
                    kept += 1
                elif sim_conn.opened_at > t0:
                    world.probe('file_connection_after_stop_refused')
            results['late_f_kept'] = kept
        results['state1'] = tr.state.VALUE.name
        results['in_list'] = tr in tm.transfers

    world.run(main())

    # ------------------------------------------------------------------------ oracle
    if results.get('no_target') or 'call' not in results:
        return common.finish(world, False, ['no-target'])
    call = results['call']
    op = plan['stop']['op']
    facts = {'op': op, 'direction': target_spec['dir'], 'state_at_stop': stop_state.get('state_at_stop')}
    if results.get('stop_hang'):
        world.violate('C06.field_after', **facts, what='stop call did not return within 200 s')
        return common.finish(world, True, ['hang', op])
    accepted = call.outcome() == 'returned'
    refused = call.outcome() == 'raised:InvalidStateTransition'
    if not accepted and not refused:
        world.violate('C06.field_after', **facts, what='stop call raised', exc=call.outcome())
    t0 = results['t0']
    path = target_path()
    peer = target_spec['peer']
    # a queue request of the peer that was on the wire when the call returned re-queues the file legitimately
    requeue_in_flight = any(
        isinstance(m, M.PeerTransferQueue.Request) and m.filename == path and t0 - 2.0 < t <= t0
        for xp in xpeers.values() for (t, m) in xp.sent)
    if requeue_in_flight:
        world.probe('peer_requeue_on_the_wire_at_return')
    if (accepted or (op == 'remove')) and not requeue_in_flight:
        status_in_window = [t for t in results.get('status_times', []) if t >= t0]
        # (1) frames about the file leaving the client inside the window
        bad_kinds = (M.PeerTransferQueue.Request, M.PeerTransferRequest.Request, M.PeerPlaceInQueueRequest.Request,
                     M.PeerUploadFailed.Request)
        for rec in wire.out:
            if rec['t'] <= t0:
                continue
            msg = rec.get('msg')
            if msg is not None and getattr(msg, 'filename', None) == path and rec['peer'] == peer:
                if isinstance(msg, bad_kinds):
                    world.violate('C06.frame_after', **facts, frame=type(msg).__qualname__,
                                  pending_at_stop=stop_state.get('pending_at_stop'))
                elif isinstance(msg, M.PeerTransferReply.Request) and msg.allowed:
                    world.violate('C06.frame_after', **facts, frame='PeerTransferReply(allowed)')
            elif rec.get('typ') == 'F' and rec['peer'] == peer and results.get('all_stopped'):
                world.violate('C06.frame_after', **facts, frame='file-connection-bytes')
        # (2) lookups / connects for the user when all its transfers are stopped
        if results.get('all_stopped'):
            for (t, m) in wire.to_server:      # sender-side instants: what left the client after t0
                if t <= t0:
                    continue
                if isinstance(m, M.GetPeerAddress.Request) and m.username == peer:
                    world.violate('C06.connect_after', **facts, what='GetPeerAddress')
                if isinstance(m, M.ConnectToPeer.Request) and m.username == peer:
                    world.violate('C06.connect_after', **facts, what='ConnectToPeer')
            for a in world.net.connect_attempts:
                if a['src'] == 'alice' and a['dst'] == peer and a['time'] > t0:
                    world.violate('C06.connect_after', **facts, what='connect attempt')
        # (2b) connections the peer opens towards the client after the stop (an answer to the ConnectToPeer of the
        # negotiation that was cut, arriving late): the ticket means nothing any more, the client has to turn them away at
        # once instead of adopting them for the stopped transfer (an adopted P connection would linger until its 60 s read
        # timeout, an adopted F connection for ever)
        if results.get('all_stopped') and plan.get('late_f') is None and plan.get('offer_on_stop') is None \
                and not plan.get('ul_break') and not plan.get('dl_break') and plan.get('spontaneous') is None:
            for conn in world.net.conns:
                if conn.src.name == peer and conn.dst.name == 'alice' and conn.opened_at > t0 + 1e-9 \
                        and conn.meta.get('pierce_after_stop'):
                    closed = lost_at.get(id(conn))
                    if closed is None or closed - conn.opened_at > 10.0:
                        world.violate('C06.connect_after', **facts, what='late pierced connection adopted')
                        break
                    world.probe('late_pierce_turned_away')
        if results.get('late_f_kept'):
            world.violate('C06.connect_after', **facts, what='file connection of the stopped transfer kept open')
        # (3) fields
        s0, s1 = results['snap0'], results['snap1']
        for f in FIELDS:
            if f == 'remotely_queued' and status_in_window:
                continue
            if s0[f] != s1[f]:
                world.violate('C06.field_after', **facts, field=f)
        if results['state0'] != results['state1']:
            world.violate('C06.field_after', **facts, field='state', frm=results['state0'], to=results['state1'])
        if op == 'remove' and results.get('in_list'):
            world.violate('C06.field_after', **facts, field='still listed after remove')
    for rec in world.loop.exc_contexts:
        world.violate('C06.field_after', what='loop exception handler', exc=rec.get('exc_type'), coro=rec.get('coro'))
        break

    pend = stop_state.get('pending_at_stop') or []
    nontrivial = bool(pend) or bool(stop_state.get('connect_in_flight'))
    if pend:
        world.probe('stop_while_negotiation_task_pending')
    if stop_state.get('connect_in_flight'):
        world.probe('stop_while_connect_in_flight')
    if stop_state.get('trigger_event') != 'time':
        world.probe('stop_on_event_trigger')
    sig = [sorted((t['dir'], plan['reach'].get(t['peer'], {}).get('direct')) for t in transfers), op,
           stop_state.get('trigger_event'), stop_state.get('state_at_stop'), tuple(pend), call.outcome(),
           len(plan.get('status', [])), plan.get('mode')]
    return common.finish(world, nontrivial, sig)

INFO['rule'] += " Round-5 additions: the uploader's file connection is under way when the stop lands and arrives with its ticket afterwards (late_f; must not be kept); the downloader of a user-aborted upload is blocked and unblocked inside the window (block_flap)."

INFO['rule'] += ' Round-6 additions: a connection the peer pierces after the stop (late answer to the ConnectToPeer of the negotiation that was cut) must be turned away within 10 s, not adopted.'
