"""C07 - a search over the shares returns exactly the matching files; every file is
indexed once under the innermost shared directory; the counts equal the index.

World: one real client that is never started (the shares manager needs neither server
nor login; with no executor factory its scan jobs go through ``loop.run_in_executor``,
i.e. the inline executor of ``sim.disk`` with plan-chosen completion delays).  A plan is
a directory tree on the per-run tmpfs sandbox, a set of shared directories given in the
settings, a history of share operations / scans / disk changes / explicit collections
(scans may be left pending while later steps run) and a query batch.  Every run ends with
a full ``scan()`` and the query batch.  The oracle is the reference index and the
independent matcher of ``models/shares.py`` (DESIGN.md B.6).

Points of judgement
* *exact* points - no scan is pending and the history determines the set of known files
  (every scan since the last clean full scan ran without a concurrent share operation):
  index == known files, each once, owned by the innermost shared directory, reported under
  that directory's alias; stats == index; every query == reference (cap honoured).
  ``point`` is 'scanned' right after a clean full scan, 'settled' when share/disk
  operations followed it (documented: add/remove of a nested directory moves the items,
  nothing else changes before the next scan).
* everywhere else ('between'): no result outside every currently shared directory, no file
  indexed twice, stats equal the index, every result satisfies the reference predicate on
  its own reported path.
Files that change on disk while a scan covering them runs may or may not be indexed.
"""
from __future__ import annotations

import asyncio
import gc
import os

from sim.world import World
from models.shares import (
    ShareIndexModel, matches, tokens, words, leading_word, has_inner_punctuation,
    INCLUDE, EXCLUDE, WILDCARD,
)
from . import common

PROPERTY = 'C07'
INFO = {
    'level': 'exploration',
    'rule': ('plans = tree of <=30 files (colliding vocabulary: song/long/along/ong, shared prefixes, accent '
             'variants, digits, CJK; separators space _ - . ( ) [ ] \' &; depth 0..3) x <=2 shared directories '
             'from the settings x history of <=8 steps from {add top-level/nested/parent-of-existing, remove '
             '(handle kept or dropped, by path or object), update mode/users, scan all, scan one (+attributes), '
             'touch/create/delete/rename file, gc_now, query batch}, scans optionally left pending on the '
             'executor while later steps run (plan-chosen executor delays), fault file_vanish between listing '
             'and getmtime / attribute extraction; every plan ends with scan() + query batch (1..4 terms, '
             'include/-exclude/*wildcard, inner punctuation, suffixes/substrings of indexed words, max_results '
             '1/2/5/100), 30 % also query before the final scan; non-trivial = some query has a non-empty '
             'reference answer and the history contains a nested pair, a removal, an overlap or a fired fault; '
             'distinct = signature over (step kinds with directory relation, overlap, fault, query term-kind '
             'sets, result-size classes)'),
    'real': common.REAL,
    'stub': common.STUB,
    'assumptions': [
        'file and directory names use only characters whose case mapping is one-to-one and context free '
        '(ASCII letters/digits, precomposed Latin-1 accented letters, CJK ideographs); characters such as '
        'sharp s, dotted/dotless i, final sigma, ligatures and combining marks are EXCLUDED from names and queries',
        'names contain neither path separators nor backslashes; query terms never contain "/" (the documents '
        'allow either separator, the reported path only has backslashes)',
        'the searched path is the path below the innermost shared directory (sub directories + file name), '
        'not the alias and not the local name of the shared directory (models/shares.py docstring)',
        'word character = str.isalnum(); "_" and all punctuation are separators',
        'visible and locked results are judged together (entitlement is C08)',
        'each query is issued with max_results=100 (not binding for <=30 files) to judge the result set and, '
        'when the plan asks for a smaller cap, again with that cap to judge the cap clause; this keeps verdicts '
        'independent of set iteration order',
        'a file that changes on disk while a scan covering it runs may or may not be indexed until the next scan',
        'a file below a re-added, not yet rescanned directory may be returned if it exists and matches',
        'mtimes are set explicitly (SharedItem hashes include the modification time)',
        'the harness clears its own event recorder after every step (recorded SharedDirectoryChangeEvent objects '
        'would keep removed directories alive); "handle kept" is a planned choice',
    ],
}
INFO['rule'] += ' Later additions: remove + re-add of the same path while its scan is pending (directed).'

USER = 'bob'
BASE_MTIME = 1_600_000_000

WORDS = ['song', 'long', 'along', 'ong', 'so', 'son', 'sonic', 'songs', 'live', 'alive', 'liv', 'love', 'glove',
         'mix', 'remix', 'mixtape', 'tape', '1', '01', '10', '101', '2001', 'café', 'cafe', 'naïve', 'naive',
         'über', 'uber', '東京', '東京事変', '事変', '歌', 'a', 'la', 'mp3', 'ost']
DIR_WORDS = ['music', 'rock', 'live', 'song', 'long', 'mix', '2001', 'café', '東京', 'ost', 'a', 'so', 'along']
EXTS = ['mp3', 'mp3', 'MP3', 'flac', 'ogg', 'txt', 'm4a']
JOINERS = [' ', ' ', ' ', '_', '-', '.', ' - ', ' & ', "'", '&']
PUNCT = ['_', '-', '.', "'", '&', '(', ')', '[', ']']
# words with letters whose case-folded form differs from their lower-case form (sharp s, final sigma, micro sign, a
# ligature): they are used exactly as spelt here (never upper-cased or title-cased, so "case-insensitively" stays
# unambiguous), in names and in queries
SPECIAL_WORDS = ['stra\u00dfe', 'wei\u00dfes', '\u03bf\u03b4\u03c5\u03c3\u03c3\u03ad\u03b1\u03c2', '\u00b5ziq', '\ufb01le']
SPECIAL_CHARS = set('\u00df\u03c2\u00b5\ufb01') | set('\u03bf\u03b4\u03c5\u03c3\u03ad\u03b1')
ALPHABET = set(''.join(WORDS + DIR_WORDS + EXTS))
for _c in ALPHABET:   # the stated exclusion, enforced
    assert len(_c.upper()) == 1 and len(_c.lower()) == 1 and _c.upper().lower() == _c.lower() and _c.isalnum(), _c


WORDS = WORDS + SPECIAL_WORDS
DIR_WORDS = DIR_WORDS + SPECIAL_WORDS[:2]


# ----------------------------------------------------------------------------- generator

def _case(rng, w):
    r = rng.random()
    if SPECIAL_CHARS & set(w):
        return w
    return w if r < 0.6 else w.title() if r < 0.85 else w.upper()


def gen_name(rng, ext=True):
    n = rng.choice([1, 2, 2, 3, 3, 4]) if ext else rng.choice([1, 1, 2])
    ws = [_case(rng, rng.choice(WORDS if ext else DIR_WORDS)) for _ in range(n)]
    s = ws[0]
    for w in ws[1:]:
        if rng.random() < 0.18:
            op = rng.choice([' (', '(', ' [', '['])
            s += op + w + (')' if '(' in op else ']')
        else:
            s += rng.choice(JOINERS) + w
    if ext and rng.random() < 0.9:
        s += '.' + rng.choice(EXTS)
    return s


def gen_tree(rng):
    tops = []
    for _ in range(rng.choice([1, 1, 2, 2, 3])):
        name = gen_name(rng, ext=False)
        if [name] not in tops:
            tops.append([name])
    dirs = [list(t) for t in tops]
    for _ in range(rng.randint(0, 6)):
        parent = rng.choice(dirs)
        if len(parent) >= 4:
            continue
        child = parent + [gen_name(rng, ext=False)]
        if child not in dirs:
            dirs.append(child)
    files = []
    taken = {tuple(d) for d in dirs}
    for i in range(rng.choice([3, 5, 8, 8, 12, 16, 24, 30])):
        d = rng.choice(dirs)
        comps = d + [gen_name(rng)]
        if tuple(comps) in taken:
            continue
        taken.add(tuple(comps))
        files.append({'path': comps, 'mtime': BASE_MTIME + 7 * i})
    # copies: the same relative path with the same modification time under another directory (cp -p, an archive
    # unpacked twice): only the shared directory tells such items apart
    for f in list(files):
        if rng.random() < 0.15 and len(f['path']) >= 2:
            other = rng.choice(dirs)
            comps = other + f['path'][1:] if len(other) == 1 else other + f['path'][-1:]
            if tuple(comps) not in taken and tuple(comps[:-1]) in {tuple(d) for d in dirs}:
                taken.add(tuple(comps))
                files.append({'path': comps, 'mtime': f['mtime']})
    return dirs, files


def _tree_words(dirs, paths):
    out = set()
    for comps in dirs + paths:
        for c in comps:
            out |= words(c)
    return sorted(out)


def _punct_chunk(rng, names):
    """A whitespace-free piece of an existing name that contains punctuation between word characters."""
    for _ in range(6):
        name = rng.choice(names)
        chunks = [c for c in name.split() if any(ch.isalnum() for ch in c) and has_inner_punctuation(c)]
        if not chunks:
            continue
        chunk = rng.choice(chunks)
        r = rng.random()
        if r < 0.5:
            return chunk
        # cut at word boundaries (or, rarely, inside a word)
        idx = [i for i in range(len(chunk)) if chunk[i].isalnum() and (i == 0 or not chunk[i - 1].isalnum())]
        start = rng.choice(idx) if r < 0.85 else rng.randrange(len(chunk))
        piece = chunk[start:]
        if any(ch.isalnum() for ch in piece) and has_inner_punctuation(piece):
            return piece
        return chunk
    return rng.choice(WORDS) + rng.choice(PUNCT[:5]) + rng.choice(WORDS)


def gen_term(rng, kind, tree_words, names, paths):
    r = rng.random()
    if r < 0.13:
        text = _punct_chunk(rng, names)
    elif r < 0.17 and paths:
        comps = rng.choice(paths)
        if len(comps) >= 2:
            i = rng.randrange(len(comps) - 1)
            left = comps[i].split()[-1]
            right = comps[i + 1].split()[0]
            text = left + '\\' + right
        else:
            text = rng.choice(tree_words or WORDS)
    else:
        w = rng.choice(tree_words) if tree_words and rng.random() < 0.75 else rng.choice(WORDS)
        t = rng.random()
        suffix_p = 0.6 if kind == WILDCARD else 0.22
        if t < suffix_p and len(w) > 1:
            text = w[rng.randrange(1, len(w)):]
        elif t < suffix_p + 0.1 and len(w) > 1:
            text = w[:rng.randrange(1, len(w))]
        elif t < suffix_p + 0.15 and len(w) > 2:
            a = rng.randrange(1, len(w) - 1)
            text = w[a:rng.randrange(a + 1, len(w))]
        elif t < suffix_p + 0.2:
            text = w + rng.choice(['s', '1', 'a'])
        else:
            text = w
    if rng.random() < 0.15 and not (SPECIAL_CHARS & set(text)):
        text = text.upper()
    return text


def gen_queries(rng, dirs, paths, n):
    tree_words = _tree_words(dirs, paths)
    names = [p[-1] for p in paths] + [d[-1] for d in dirs] or ['song.mp3']
    out = []
    for _ in range(n):
        nterms = rng.choice([1, 1, 2, 2, 3, 4])
        parts = []
        for i in range(nterms):
            r = rng.random()
            if i == 0:
                kind = INCLUDE if r < 0.72 else WILDCARD if r < 0.96 else EXCLUDE
            else:
                kind = INCLUDE if r < 0.4 else EXCLUDE if r < 0.75 else WILDCARD
            text = gen_term(rng, kind, tree_words, names, paths)
            parts.append({'include': '', 'exclude': '-', 'wildcard': '*'}[kind] + text)
        rng.shuffle(parts)
        out.append({'q': ' '.join(parts), 'max': rng.choice([1, 2, 5, 100])})
    return out


def _inside(a, b):
    """directory ``b`` (components) lies strictly inside ``a``"""
    return len(b) > len(a) and b[:len(a)] == a


def generate(rng, index, tier):
    dirs, files = gen_tree(rng)
    shared = []
    initial = []
    for _ in range(rng.choice([0, 1, 1, 1, 2])):
        d = rng.choice(dirs)
        if d not in shared:
            shared.append(d)
            initial.append({'dir': list(d), 'mode': rng.choice(['everyone', 'everyone', 'friends', 'users']),
                            'users': rng.choice([[], [USER]])})
    live = [list(f['path']) for f in files]
    all_paths = [list(f['path']) for f in files]
    steps = []
    serial = [0]

    def new_file():
        serial[0] += 1
        return rng.choice(dirs) + [gen_name(rng)]

    nsteps = rng.randint(2, 8)
    while len(steps) < nsteps:
        ops = (['add'] * 22 + ['remove'] * 14 + ['update'] * 5 + ['scan_all'] * 14 + ['scan_one'] * 10 +
               ['touch'] * 4 + ['create'] * 6 + ['delete'] * 8 + ['rename'] * 5 + ['gc_now'] * 8 + ['reload'] * 3 +
               ['rmtree'] * 3)
        if not shared:
            ops += ['add'] * 40
        op = rng.choice(ops)
        if op == 'add':
            r = rng.random()
            nested = [d for d in dirs if d not in shared and any(_inside(s, d) for s in shared)]
            parents = [d for d in dirs + [[]] if d not in shared and any(_inside(d, s) for s in shared)]
            free = [d for d in dirs if d not in shared]
            if r < 0.35 and nested:
                d = rng.choice(nested)
            elif r < 0.55 and parents:
                d = rng.choice(parents)
            elif r < 0.6 and shared:
                d = rng.choice(shared)          # already shared: documented error
            elif free:
                d = rng.choice(free)
            else:
                continue
            steps.append({'op': 'add', 'dir': list(d), 'mode': rng.choice(['everyone', 'everyone', 'friends', 'users']),
                          'users': rng.choice([[], [USER]])})
            if d not in shared:
                shared.append(d)
        elif op == 'remove':
            if shared and rng.random() < 0.93:
                d = rng.choice(shared)
                shared.remove(d)
            else:
                d = rng.choice(dirs)
            steps.append({'op': 'remove', 'dir': list(d), 'keep': rng.random() < 0.4,
                          'by': rng.choice(['path', 'object'])})
        elif op == 'update':
            if not shared:
                continue
            steps.append({'op': 'update', 'dir': list(rng.choice(shared)), 'mode': rng.choice(['everyone', 'friends', 'users']),
                          'users': rng.choice([[], [USER], ['eve']]), 'by': rng.choice(['path', 'object'])})
        elif op == 'scan_all':
            step = {'op': 'scan_all', 'wait': rng.random() < 0.7}
            if not step['wait']:
                step['gap_ms'] = rng.choice([0, 0.3, 1, 5, 20])
            steps.append(step)
        elif op == 'scan_one':
            if not shared:
                continue
            step = {'op': 'scan_one', 'dir': list(rng.choice(shared)), 'wait': rng.random() < 0.65,
                    'attrs': rng.random() < 0.5}
            if not step['wait']:
                step['gap_ms'] = rng.choice([0, 0.3, 1, 5, 20])
            steps.append(step)
        elif op == 'touch':
            if live:
                steps.append({'op': 'touch', 'file': list(rng.choice(live)), 'mtime': BASE_MTIME + 1000 + len(steps)})
        elif op == 'create':
            f = new_file()
            if f not in live and f not in dirs:
                live.append(f)
                steps.append({'op': 'create', 'file': list(f), 'mtime': BASE_MTIME + 2000 + len(steps)})
        elif op == 'delete':
            if live:
                f = rng.choice(live)
                live.remove(f)
                steps.append({'op': 'delete', 'file': list(f)})
        elif op == 'rename':
            if live:
                f = rng.choice(live)
                to = (rng.choice(dirs) if rng.random() < 0.4 else f[:-1]) + [gen_name(rng)]
                if to not in live and to not in dirs:
                    live.remove(f)
                    live.append(to)
                    steps.append({'op': 'rename', 'file': list(f), 'to': list(to)})
        elif op == 'rmtree':
            d = rng.choice(shared) if shared and rng.random() < 0.7 else rng.choice(dirs)
            steps.append({'op': 'rmtree', 'dir': list(d), 'as_file': rng.random() < 0.3})
            live[:] = [f for f in live if f[:len(d)] != list(d)]
        elif op == 'reload':
            steps.append({'op': 'reload'})
            shared[:] = [list(e['dir']) for e in initial]
        else:
            steps.append({'op': 'gc_now'})
    if rng.random() < 0.3:
        steps.insert(rng.randint(1, len(steps)), {'op': 'query'})
        steps = steps[:9]
    plan = {
        'seed': rng.getrandbits(32),
        'exec': {'delay_ms': rng.choice([[0, 0], [0, 2], [0, 2], [0.5, 8], [5, 40]])},
        'dirs': dirs,
        'tree': files,
        'initial': initial,
        'friends': rng.choice([[], [USER]]),
        'steps': steps,
        'queries': gen_queries(rng, dirs, [f['path'] for f in files] + [f for f in live if f not in all_paths],
                               rng.choice([8, 12, 16]) if tier == 'quick' else rng.choice([16, 24, 40])),
    }
    if rng.random() < 0.25 and files:
        plan['fault'] = {'kind': 'file_vanish', 'file': list(rng.choice(files)['path']),
                         'at': rng.choice(['getmtime', 'attributes']), 'nth': rng.choice([1, 1, 2, 3])}
    if rng.random() < 0.3:
        plan['hold'] = True        # the application keeps every result it was given
    return plan


def _base(tree, initial, steps, queries, **extra):
    dirs = []
    for f in tree:
        for n in range(1, len(f['path'])):
            if f['path'][:n] not in dirs:
                dirs.append(f['path'][:n])
    plan = {'seed': 7, 'exec': {'delay_ms': [0, 1]}, 'dirs': dirs,
            'tree': tree, 'initial': [{'dir': d, 'mode': 'everyone', 'users': []} for d in initial],
            'friends': [], 'steps': steps, 'queries': [q if isinstance(q, dict) else {'q': q, 'max': 100} for q in queries]}
    plan.update(extra)
    return plan


def _files(*paths):
    return [{'path': p.split('/'), 'mtime': BASE_MTIME + 3 * i} for i, p in enumerate(paths)]


def corpus(tier):
    """Directed plans, one per clause / documented example."""
    out = []
    # 1. wildcard suffix shared by two indexed words; exclusion on whole words only; case; accents; CJK
    tree = _files('m/long.mp3', 'm/song.mp3', 'm/along.flac', 'm/a (live).mp3', 'm/alive.mp3',
                  'm/Café del Mar.mp3', 'm/cafe.mp3', 'm/東京事変 - 歌.mp3', 'm/01 - Song_Long (Live).MP3',
                  'm/sub/long along-song.mp3', "m/sub/don't.mp3", 'm/sub/mix & remix [2001].ogg')
    out.append(_base(tree, [['m']], [], [
        '*ong', 'mp3 -live', 'mp3 -ong', '-live', 'SONG', 'café', 'cafe', 'CAFÉ', '*事変', '東京', '東京事変',
        'long-song', 'along-song', 'song_long', '(live)', 'live', "don't", 'don', '*on', '*ng mp3', '*ive -alive',
        'sub\\long', 'sub long', 'remix [2001]', '[2001].ogg', 'mix', '*mix', '*mix -remix', '1', '01', '*1',
        {'q': 'mp3', 'max': 2}, {'q': 'mp3', 'max': 1}, {'q': 'mp3', 'max': 5}, 'mp3 mp3', '* song', 'song *',
        '- * .', 'live).mp3', '*ve).mp3', '*-song', 'song -*ong',
    ]))
    # 1b. letters whose case-folded form differs from the lower-case one, spelt the same in name and query
    tree = _files('m/wei\u00dfes stra\u00dfe.mp3', 'm/gro\u00dfe freiheit.mp3', 'm/\u03bf\u03b4\u03c5\u03c3\u03c3\u03ad\u03b1\u03c2 song.mp3',
                  'm/\u00b5ziq - long.flac', 'm/\ufb01le one.ogg', 'm/strasse.mp3')
    out.append(_base(tree, [['m']], [], [
        'stra\u00dfe', 'wei\u00dfes', '*ra\u00dfe', '*\u00dfe', 'gro\u00dfe -mp3', 'gro\u00dfe -flac', 'mp3 -stra\u00dfe', '\u03bf\u03b4\u03c5\u03c3\u03c3\u03ad\u03b1\u03c2',
        '*\u03ad\u03b1\u03c2', '\u00b5ziq', '*ziq', '\ufb01le', '\ufb01le one', 'strasse', '*asse', 'song -\u03bf\u03b4\u03c5\u03c3\u03c3\u03ad\u03b1\u03c2']))
    # 1c. the root of a shared directory (top-level / nested) vanishes from disk or becomes a plain file, then a rescan
    tree = _files('p/one song.mp3', 'p/c/song.mp3', 'p/c/d/deep song.mp3', 'q/other song.mp3')
    for initial in ([['p'], ['p', 'c']], [['p', 'c']], [['p'], ['q']]):
        for victim in (['p', 'c'], ['p']):
            for as_file in (False, True):
                for scan in ({'op': 'scan_all', 'wait': True}, {'op': 'scan_one', 'dir': initial[-1], 'wait': True, 'attrs': False}):
                    out.append(_base(tree, initial, [{'op': 'scan_all', 'wait': True}, {'op': 'query'},
                                                      {'op': 'rmtree', 'dir': victim, 'as_file': as_file}, scan,
                                                      {'op': 'query'}], ['song', 'deep', 'one', 'mp3']))
    # 2. removed top-level directory: not queryable any more (handle kept / dropped / collection)
    tree = _files('a/song.mp3', 'a/x/long.mp3', 'b/song two.mp3')
    for keep in (False, True):
        for gc_step in (False, True):
            for by in ('path', 'object'):
                steps = [{'op': 'scan_all', 'wait': True}, {'op': 'remove', 'dir': ['a'], 'keep': keep, 'by': by}]
                if gc_step:
                    steps.append({'op': 'gc_now'})
                steps.append({'op': 'query'})
                out.append(_base(tree, [['a'], ['b']], steps, ['song', '*ong', 'mp3', 'two']))
    # 3. nested shared directories: add after scan, remove after scan, parent added after child
    tree = _files('p/one.mp3', 'p/c/song.mp3', 'p/c/d/long song.mp3', 'p/e/c.mp3')
    out.append(_base(tree, [['p']], [{'op': 'scan_all', 'wait': True},
                                    {'op': 'add', 'dir': ['p', 'c'], 'mode': 'friends', 'users': []},
                                    {'op': 'query'}], ['c', 'song', 'd', 'mp3', 'c song', '*ong -c']))
    out.append(_base(tree, [['p'], ['p', 'c']], [{'op': 'scan_all', 'wait': True},
                                                 {'op': 'remove', 'dir': ['p', 'c'], 'keep': False, 'by': 'path'},
                                                 {'op': 'query'}], ['c', 'song', 'd', 'mp3', 'c song']))
    out.append(_base(tree, [['p', 'c']], [{'op': 'scan_all', 'wait': True},
                                          {'op': 'add', 'dir': ['p'], 'mode': 'everyone', 'users': []},
                                          {'op': 'query'}, {'op': 'scan_one', 'dir': ['p'], 'wait': True, 'attrs': True},
                                          {'op': 'query'}], ['c', 'song', 'one', 'mp3']))
    out.append(_base(tree, [['p'], ['p', 'c'], ['p', 'c', 'd']], [], ['c', 'd', 'song', 'long', 'mp3', 'long song']))
    # 4. rescan reconciles with the disk: vanished, new, renamed, touched
    tree = _files('m/song.mp3', 'm/long.mp3', 'm/s/tape.mp3')
    out.append(_base(tree, [['m']], [{'op': 'scan_all', 'wait': True}, {'op': 'delete', 'file': ['m', 'song.mp3']},
                                    {'op': 'create', 'file': ['m', 's', 'mixtape.mp3'], 'mtime': BASE_MTIME + 50},
                                    {'op': 'rename', 'file': ['m', 'long.mp3'], 'to': ['m', 's', 'along.mp3']},
                                    {'op': 'touch', 'file': ['m', 's', 'tape.mp3'], 'mtime': BASE_MTIME + 99},
                                    {'op': 'query'}, {'op': 'scan_one', 'dir': ['m'], 'wait': True, 'attrs': False},
                                    {'op': 'query'}], ['song', 'long', 'along', '*tape', 'tape', 'mp3', 's']))
    # 5. overlap: nested directory added / parent removed while the scan is pending
    tree = _files('p/one.mp3', 'p/c/song.mp3', 'p/c/long.mp3')
    for gap in (0, 1, 30):
        out.append(_base(tree, [['p']], [{'op': 'scan_all', 'wait': False, 'gap_ms': gap},
                                        {'op': 'add', 'dir': ['p', 'c'], 'mode': 'everyone', 'users': []},
                                        {'op': 'scan_one', 'dir': ['p', 'c'], 'wait': True, 'attrs': False},
                                        {'op': 'query'}], ['song', 'c', 'mp3'], exec={'delay_ms': [5, 20]}))
        out.append(_base(tree, [['p'], ['p', 'c']], [{'op': 'scan_all', 'wait': False, 'gap_ms': gap},
                                                     {'op': 'remove', 'dir': ['p'], 'keep': False, 'by': 'path'},
                                                     {'op': 'query'}], ['song', 'one', 'mp3'], exec={'delay_ms': [5, 20]}))
    # 5b. the directory is removed and the same path added again (other mode) while its scan is pending; then a rescan, a
    #     collection and queries
    for gap in (0, 1, 30):
        for gc_step in (False, True):
            steps = [{'op': 'scan_all', 'wait': False, 'gap_ms': gap},
                     {'op': 'remove', 'dir': ['p'], 'keep': False, 'by': 'path'},
                     {'op': 'add', 'dir': ['p'], 'mode': 'friends', 'users': []},
                     {'op': 'query'}, {'op': 'sleep', 'ms': 500}, {'op': 'query'},
                     {'op': 'scan_all', 'wait': True}, {'op': 'query'}]
            if gc_step:
                steps += [{'op': 'gc_now'}, {'op': 'query'}]
            out.append(_base(tree, [['p']], steps, ['song', 'one', 'mp3', 'c'], exec={'delay_ms': [5, 20]}))
    # 5c. the application holds on to earlier results while files are touched / deleted / renamed and rescanned
    tree2 = _files('m/song.mp3', 'm/long.mp3', 'm/s/tape.mp3')
    for gc_step in (False, True):
        steps = [{'op': 'scan_all', 'wait': True}, {'op': 'query'},
                 {'op': 'touch', 'file': ['m', 'song.mp3'], 'mtime': BASE_MTIME + 77},
                 {'op': 'delete', 'file': ['m', 'long.mp3']},
                 {'op': 'rename', 'file': ['m', 's', 'tape.mp3'], 'to': ['m', 's', 'mixtape.mp3']},
                 {'op': 'scan_all', 'wait': True}]
        if gc_step:
            steps.append({'op': 'gc_now'})
        steps.append({'op': 'query'})
        out.append(_base(tree2, [['m']], steps, ['song', 'long', 'tape', '*tape', 'mp3'], hold=True))
    # 5d. copies with identical relative path and modification time in sibling and nested shared directories
    twins = [{'path': ['a', 'song.mp3'], 'mtime': BASE_MTIME}, {'path': ['b', 'song.mp3'], 'mtime': BASE_MTIME},
             {'path': ['a', 'x', 'long.mp3'], 'mtime': BASE_MTIME + 5}, {'path': ['b', 'x', 'long.mp3'], 'mtime': BASE_MTIME + 5},
             {'path': ['a', 'n', 'song.mp3'], 'mtime': BASE_MTIME}, {'path': ['a', 'n', 'x', 'long.mp3'], 'mtime': BASE_MTIME + 5}]
    for initial in ([['a'], ['b']], [['a'], ['a', 'n']], [['a'], ['b'], ['a', 'n']]):
        out.append(_base(twins, initial, [{'op': 'scan_all', 'wait': True}, {'op': 'query'}], ['song', 'long', 'mp3', 'x long']))
    # 6. file vanishes between listing and getmtime / attribute extraction
    for at in ('getmtime', 'attributes'):
        out.append(_base(tree, [['p']], [{'op': 'scan_all', 'wait': True}, {'op': 'query'}], ['song', 'mp3', '*ong'],
                         fault={'kind': 'file_vanish', 'file': ['p', 'c', 'song.mp3'], 'at': at, 'nth': 1}))
        out.append(_base(tree, [['p']], [], ['song', 'mp3'],
                         fault={'kind': 'file_vanish', 'file': ['p', 'c', 'song.mp3'], 'at': at, 'nth': 1}))
    # 7. re-added directory, update does not touch the index
    out.append(_base(tree, [['p']], [{'op': 'scan_all', 'wait': True},
                                    {'op': 'update', 'dir': ['p'], 'mode': 'users', 'users': ['eve'], 'by': 'object'},
                                    {'op': 'query'}, {'op': 'remove', 'dir': ['p'], 'keep': False, 'by': 'object'},
                                    {'op': 'gc_now'}, {'op': 'add', 'dir': ['p'], 'mode': 'everyone', 'users': []},
                                    {'op': 'query'}], ['song', 'mp3']))
    # what start() does, a second time on the same manager (cache and settings read again), then scan, collect, query
    for initial in ([['p']], [['p'], ['p', 'c']]):
        for extra in ([], [{'op': 'add', 'dir': ['m'], 'mode': 'everyone', 'users': []}]):
            out.append(_base(tree, initial, [{'op': 'scan_all', 'wait': True}, {'op': 'query'}] + extra +
                             [{'op': 'reload'}, {'op': 'query'}, {'op': 'scan_all', 'wait': True}, {'op': 'query'},
                              {'op': 'gc_now'}, {'op': 'query'}], ['song', 'c', 'one', 'mp3']))
    return out


SHRINK_LISTS = ('steps', 'queries', 'tree', 'initial')
SHRINK_PROTECT = ('path', 'dir', 'file', 'to', 'users', 'delay_ms')


def simplify(plan):
    if plan.get('fault'):
        cand = dict(plan)
        cand.pop('fault')
        yield cand
    if plan.get('exec', {}).get('delay_ms') != [0, 0]:
        yield dict(plan, exec={'delay_ms': [0, 0]})
    if plan.get('friends'):
        yield dict(plan, friends=[])
    for i, step in enumerate(plan.get('steps', [])):
        if step.get('wait') is False:
            steps = [dict(s) for s in plan['steps']]
            steps[i]['wait'] = True
            steps[i].pop('gap_ms', None)
            yield dict(plan, steps=steps)
        if step.get('mode', 'everyone') != 'everyone' or step.get('users'):
            steps = [dict(s) for s in plan['steps']]
            steps[i]['mode'] = 'everyone'
            steps[i]['users'] = []
            yield dict(plan, steps=steps)
    for i, entry in enumerate(plan.get('initial', [])):
        if entry.get('mode', 'everyone') != 'everyone' or entry.get('users'):
            initial = [dict(e) for e in plan['initial']]
            initial[i]['mode'] = 'everyone'
            initial[i]['users'] = []
            yield dict(plan, initial=initial)
    for i, q in enumerate(plan.get('queries', [])):
        if q.get('max', 100) != 100:
            queries = [dict(x) for x in plan['queries']]
            queries[i]['max'] = 100
            yield dict(plan, queries=queries)
        parts = q['q'].split()
        if len(parts) > 1:
            for k in range(len(parts)):
                queries = [dict(x) for x in plan['queries']]
                queries[i]['q'] = ' '.join(parts[:k] + parts[k + 1:])
                yield dict(plan, queries=queries)


# ----------------------------------------------------------------------------- run

def run(plan):
    world = World(plan, PROPERTY)
    restore = []
    try:
        return _run(world, plan, restore)
    finally:
        for fn in restore:
            fn()
        world.close()


def _run(world: World, plan, restore):
    from aioslsk.shares.model import DirectoryShareMode

    root = world.sandbox.sub('alice', 'shares')

    def P(comps):
        return os.path.join(root, *comps) if comps else root

    def rel(path):
        return os.path.relpath(path, root)

    # ------------------------------------------------------------------ disk
    for d in plan.get('dirs', []):
        os.makedirs(P(d), exist_ok=True)
    for entry in plan.get('initial', []):
        os.makedirs(P(entry['dir']), exist_ok=True)
    for step in plan.get('steps', []):
        if step['op'] == 'add':
            os.makedirs(P(step['dir']), exist_ok=True)

    def write_file(comps, mtime):
        path = P(comps)
        if os.path.isdir(path):
            return False
        try:
            os.makedirs(os.path.dirname(path), exist_ok=True)
            with open(path, 'wb') as fh:
                fh.write(b'x')
            os.utime(path, (mtime, mtime))
        except OSError:
            return False
        return True

    for f in plan.get('tree', []):
        write_file(f['path'], f['mtime'])

    overrides = {
        'shares': {'scan_on_start': False, 'directories': [
            {'path': P(e['dir']), 'share_mode': e.get('mode', 'everyone'), 'users': list(e.get('users', []))}
            for e in plan.get('initial', [])]},
        'users': {'friends': list(plan.get('friends', []))},
    }
    alice = world.add_client('alice', overrides=overrides)
    shares = alice.client.shares
    settings = alice.settings

    model = ShareIndexModel()
    kept = {}                 # planned "handle kept" references
    scans = []                # pending scan records
    state = {'dirty': True, 'overlap': False, 'seq': 0, 'nested_seen': False, 'removed_seen': False,
             'ref_nonempty': False}
    sig_steps = []
    sig_queries = set()
    file_roots = set()          # directories that were replaced by a plain file of that name

    # ------------------------------------------------------------------ fault
    fault = plan.get('fault')
    fault_state = {'count': 0, 'fired': False}

    def note_disk_change(path):
        for rec in scans:
            rec['changed'].add(path)

    if fault and fault.get('kind') == 'file_vanish':
        target = P(fault['file'])
        nth = fault.get('nth', 1)

        def vanish():
            if fault_state['fired']:
                return
            try:
                os.unlink(target)
            except OSError:
                return
            fault_state['fired'] = True
            world.disk.fired['file_vanish'] += 1
            world.trace('fault', 'file_vanish', fault['at'], rel(target))
            note_disk_change(target)

        def install_getmtime_trap():
            import os.path as osp
            original = osp.getmtime

            def trap(p):
                if p == target:
                    osp.getmtime = original
                    vanish()
                return original(p)
            osp.getmtime = trap
            restore.append(lambda: setattr(osp, 'getmtime', original))

        def hook(name, func, args):
            if fault_state['fired']:
                return None
            fargs = getattr(func, 'args', ()) or args
            if fault['at'] == 'getmtime' and name.endswith('scan_directory') and fargs:
                base = getattr(fargs[0], 'absolute_path', None)
                if base and target.startswith(base + os.sep) and os.path.exists(target):
                    fault_state['count'] += 1
                    if fault_state['count'] == nth:
                        return ('pre', install_getmtime_trap)
            elif fault['at'] == 'attributes' and name.endswith('extract_attributes') and fargs and fargs[0] == target:
                fault_state['count'] += 1
                if fault_state['count'] == nth:
                    return ('pre', vanish)
            return None
        world.disk.hooks.append(hook)

    # ------------------------------------------------------------------ helpers
    def find_object(path):
        for d in shares.shared_directories:
            if d.absolute_path == path:
                return d
        return None

    def share_op_happened():
        """a share operation succeeded: every pending scan is no longer clean"""
        if scans:
            state['overlap'] = True
            model.exact = False
            for rec in scans:
                rec['clean'] = False
            world.probe('share_op_while_scan_pending')
        state['dirty'] = True

    def reap():
        done = [r for r in scans if r['call'].done]
        done.sort(key=lambda r: (r['call'].returned_at, r['call'].returned_iter, r['seq']))
        for rec in done:
            scans.remove(rec)
            ok = rec['call'].outcome() == 'returned'
            world.trace('scan_done', rec['kind'], rec['call'].outcome(), rec['clean'])
            if not ok:
                world.violate('C07.index', what='scan_raised', kind=rec['kind'],
                              exc=type(rec['call'].exception).__name__ if rec['call'].exception else 'cancelled')
                model.exact = False
                continue
            if not rec['clean']:
                model.exact = False
                continue
            if rec['changed']:
                world.probe('disk_change_during_scan')
            if rec['kind'] == 'all':
                model.scanned_all(rec['changed'])
                state['dirty'] = bool(rec['changed'])
            else:
                model.scanned(rec['dir'], rec['changed'])

    def start_scan(kind, path=None, attrs=False):
        state['seq'] += 1
        rec = {'kind': kind, 'dir': path, 'seq': state['seq'], 'changed': set(),
               'clean': all(r['clean'] for r in scans)}
        if scans:
            world.probe('concurrent_scans')
        if kind == 'all':
            rec['call'] = world.call(alice, f"scan_all#{rec['seq']}", shares.scan)
        else:
            async def one():
                directory = find_object(path)
                if directory is None:
                    return          # not shared (any more): nothing to scan
                await shares.scan_directory_files(directory)
                if attrs:
                    await shares.scan_directory_file_attributes(directory)
            rec['call'] = world.call(alice, f"scan_one#{rec['seq']}", one)
        scans.append(rec)
        return rec

    async def sync_call(label, fn):
        async def wrapper():
            return fn()
        call = world.call(alice, label, wrapper)
        await call.task
        return call

    def point():
        if not model.exact or scans:
            return 'between'
        return 'settled' if state['dirty'] else 'scanned'

    def snapshot():
        entries = []
        for d in shares.shared_directories:
            for item in d.items:
                owner = item.shared_directory
                entries.append((item.get_absolute_path(), d.absolute_path, d.alias,
                                owner.absolute_path if owner is not None else None, item.get_remote_path()))
        entries.sort(key=lambda e: tuple('' if x is None else x for x in e))
        return entries

    def inspect(label):
        entries = snapshot()
        paths = [e[0] for e in entries]
        where = point()
        counts = {}
        for p in paths:
            counts[p] = counts.get(p, 0) + 1
        doubles = sorted(p for p, n in counts.items() if n > 1)
        world.trace('index', label, where, len(entries), len(doubles))
        facts_base = {'point': where, 'overlap': state['overlap']}
        if doubles:
            world.violate('C07.index', what='double', **facts_base)
        owner_mismatch = any(e[1] != e[3] for e in entries)     # item claims another directory than its container
        if where != 'between':
            required = model.expected_index(False)
            allowed = model.expected_index(True)
            actual = set(paths)
            for p in sorted(set(required) - actual):
                world.violate('C07.index', what='missing', on_disk=os.path.isfile(p),
                              moved=model.moved.get(p), **facts_base)
                break
            for p in sorted(actual - set(allowed)):
                world.violate('C07.index', what='extra', on_disk=os.path.isfile(p),
                              shared=model.owner_of(p) is not None, **facts_base)
                break
            alias_of = {d.absolute_path: d.alias for d in shares.shared_directories}
            for (p, container, alias, item_owner, remote) in entries:
                want = allowed.get(p)
                if want is None:
                    continue
                expect_remote = '@@' + alias_of.get(want, '?') + '\\' + model.query_path(p, want)
                if container != want or item_owner != want or remote != expect_remote:
                    world.violate('C07.index', what='wrong_owner', moved=model.moved.get(p),
                                  container_ok=container == want, item_owner_ok=item_owner == want,
                                  reported_ok=remote == expect_remote, **facts_base)
                    break
        if not doubles:
            got = tuple(shares.get_stats())
            want_stats = ShareIndexModel.stats(paths)
            world.trace('stats', label, got)
            if got != want_stats:
                world.violate('C07.stats', folders_ok=got[0] == want_stats[0], files_ok=got[1] == want_stats[1],
                              owner_mismatch=owner_mismatch, **facts_base)

    held = []
    world.keep_alive.append(held)

    def do_query(text, cap):
        settings.searches.receive.max_results = cap
        visible, locked = shares.query(text, username=USER, excluded_search_phrases=[])
        if plan.get('hold'):
            # the application keeps what it was given (a result list shown to the user, a reply still being sent)
            held.extend(list(visible) + list(locked))
        out = sorted((item.get_absolute_path(), item.get_remote_path()) for item in list(visible) + list(locked))
        return out, len(visible), len(locked)

    def query_facts(text, where, indexed_words, cap_hit):
        toks = tokens(text)
        kinds = sorted({k for k, _ in toks})
        wild = None
        if indexed_words is not None:
            for kind, term in toks:
                if kind != WILDCARD:
                    continue
                lead = leading_word(term)
                if not lead:
                    cls = 'n/a'
                else:
                    n = sum(1 for w in indexed_words if w.endswith(lead))
                    cls = '0' if n == 0 else '1' if n == 1 else '>=2'
                order = ['n/a', '0', '1', '>=2']
                if wild is None or order.index(cls) > order.index(wild):
                    wild = cls
        return {'kinds': kinds, 'wild_words': wild, 'punct': any(has_inner_punctuation(t) for _, t in toks),
                'cap_hit': cap_hit, 'point': where, 'after_removal': bool(model.removed), 'overlap': state['overlap']}

    def run_queries(label):
        where = point()
        exact = where != 'between'
        indexed_words = model.indexed_words() if exact else None
        aliases = {d.alias for d in shares.shared_directories}
        for qi, q in enumerate(plan.get('queries', [])):
            text, cap = q['q'], int(q.get('max', 100))
            try:
                res, nvis, nlock = do_query(text, 100)
            except Exception as exc:  # noqa
                world.trace('query', label, qi, 'raised', type(exc).__name__)
                world.violate('C07.query_missing', what='raised', exc=type(exc).__name__,
                              **query_facts(text, where, indexed_words, False))
                continue
            got = [p for p, _ in res]
            got_set = set(got)
            remotes = {}
            for p, remote in res:
                remotes.setdefault(p, []).append(remote)

            def removed_alias(p):
                """is ``p`` reported under the alias of a directory that is not shared (any more)?"""
                return any(r[2:].split('\\', 1)[0] not in aliases for r in remotes.get(p, []))
            toks = tokens(text)
            sig_queries.add((tuple(sorted({k for k, _ in toks})), min(len(got_set), 3)))
            facts = query_facts(text, where, indexed_words, False)
            if len(got) != len(got_set):
                twice = sorted(p for p in got_set if len(remotes[p]) > 1)
                world.violate('C07.query_extra', what='same_file_twice', removed_alias=removed_alias(twice[0]), **facts)
            # results outside every currently shared directory
            for p in sorted(got_set):
                if model.owner_of(p) is None:
                    alias = remotes[p][0][2:].split('\\', 1)[0]
                    rec = model.removal_of(p, alias) or {}
                    world.violate('C07.stale', gc_ran=rec.get('gc'), handle_kept=rec.get('kept'), point=where,
                                  overlap=state['overlap'])
                    break
            if exact:
                required = model.reference_matches(text, False)
                allowed = model.reference_matches(text, True)
                if allowed:
                    state['ref_nonempty'] = True
                world.trace('query', label, qi, len(got), len(required), len(allowed), nlock)
                for p in sorted(required - got_set):
                    world.violate('C07.query_missing', what='missing', moved=model.moved.get(p), **facts)
                    break
                for p in sorted(got_set - allowed):
                    owner = model.owner_of(p)
                    if owner is None:
                        continue            # reported as C07.stale
                    known = p in model.known or p in model.optional
                    if not known and os.path.isfile(p) and matches(text, model.query_path(p, owner)):
                        world.probe('result_from_unscanned_readded_directory')
                        continue
                    world.violate('C07.query_extra', what='extra' if known else 'not_indexed',
                                  moved=model.moved.get(p), removed_alias=removed_alias(p), **facts)
                    break
            else:
                world.trace('query', label, qi, len(got), nlock)
                for p, remote in res:
                    if model.owner_of(p) is None:
                        continue
                    below = remote.split('\\', 1)[1] if '\\' in remote else ''
                    if not matches(text, below):
                        world.violate('C07.query_extra', what='predicate_on_reported_path', **facts)
                        break
            if cap < 100:
                try:
                    capped, _, _ = do_query(text, cap)
                except Exception as exc:  # noqa
                    world.violate('C07.query_missing', what='raised', exc=type(exc).__name__,
                                  **query_facts(text, where, indexed_words, True))
                    continue
                want_n = min(cap, len(res))
                hit = len(res) > cap
                if hit:
                    world.probe('cap_binding')
                world.trace('query_cap', label, qi, cap, len(capped))
                cfacts = query_facts(text, where, indexed_words, hit)
                if len(capped) > cap:
                    world.violate('C07.query_extra', what='cap_exceeded', **cfacts)
                elif len(capped) < want_n:
                    world.violate('C07.query_missing', what='fewer_than_cap', **cfacts)
                elif not set(capped) <= set(res):
                    world.violate('C07.query_extra', what='capped_not_subset', **cfacts)
        settings.searches.receive.max_results = 100

    # ------------------------------------------------------------------ steps
    async def do_step(i, step):
        op = step['op']
        label = f"s{i}:{op}"
        if op == 'add' and P(step['dir']) in file_roots:
            sig_steps.append(('add', 'skipped'))
        elif op == 'add':
            path = P(step['dir'])
            relation = model.relation(path)
            mode = DirectoryShareMode(step.get('mode', 'everyone'))

            def fn():
                shares.add_shared_directory(path, share_mode=mode, users=list(step.get('users', [])))
            call = await sync_call(label, fn)
            if call.outcome() == 'returned':
                if model.is_shared(path):
                    world.violate('C07.index', what='duplicate_shared_directory_accepted', point=point(),
                                  overlap=state['overlap'])
                model.add(path, step.get('mode', 'everyone'), step.get('users', []))
                share_op_happened()
                if 'nested' in relation or 'parent' in relation:
                    state['nested_seen'] = True
                sig_steps.append(('add', relation, bool(scans)))
            else:
                sig_steps.append(('add', 'refused'))
        elif op == 'remove':
            path = P(step['dir'])
            relation = model.relation(path) if model.is_shared(path) else 'unshared'
            keep = bool(step.get('keep'))

            info = {}

            def fn():
                arg = path
                current = find_object(path)
                info['alias'] = current.alias if current is not None else None
                if step.get('by') == 'object':
                    arg = current or path
                del current
                removed = shares.remove_shared_directory(arg)
                if keep:
                    kept[path] = removed
            call = await sync_call(label, fn)
            if call.outcome() == 'returned' and model.is_shared(path):
                model.remove(path, handle_kept=keep, alias=info.get('alias'))
                share_op_happened()
                state['removed_seen'] = True
                sig_steps.append(('remove', relation, keep, bool(scans)))
            else:
                sig_steps.append(('remove', 'refused'))
        elif op == 'update':
            path = P(step['dir'])
            mode = DirectoryShareMode(step.get('mode', 'everyone'))

            def fn():
                arg = path
                if step.get('by') == 'object':
                    arg = find_object(path) or path
                shares.update_shared_directory(arg, share_mode=mode, users=list(step.get('users', [])))
            call = await sync_call(label, fn)
            if call.outcome() == 'returned' and model.is_shared(path):
                model.update(path, step.get('mode'), step.get('users', []))
            sig_steps.append(('update', call.outcome() == 'returned'))
        elif op in ('scan_all', 'scan_one'):
            if op == 'scan_all':
                rec = start_scan('all')
            else:
                rec = start_scan('one', P(step['dir']), bool(step.get('attrs')))
            if step.get('wait', True):
                await rec['call'].task
            else:
                await asyncio.sleep(float(step.get('gap_ms', 0)) / 1000.0)
            sig_steps.append((op, bool(step.get('wait', True)), len(scans) > 1))
        elif op == 'touch':
            path = P(step['file'])
            if os.path.isfile(path):
                os.utime(path, (step['mtime'], step['mtime']))
                state['dirty'] = True
            sig_steps.append(('touch', bool(scans)))
        elif op == 'create':
            path = P(step['file'])
            if not os.path.exists(path) and write_file(step['file'], step.get('mtime', BASE_MTIME + 5000 + i)):
                note_disk_change(path)
                state['dirty'] = True
            sig_steps.append(('create', bool(scans)))
        elif op == 'delete':
            path = P(step['file'])
            if os.path.isfile(path):
                os.unlink(path)
                note_disk_change(path)
                state['dirty'] = True
            sig_steps.append(('delete', bool(scans)))
        elif op == 'rmtree':
            # a directory (possibly the root of a shared directory, possibly a nested one) disappears from disk, or is
            # replaced by a plain file of that name
            import shutil
            path = P(step['dir'])
            if os.path.isdir(path):
                for base, _dirs, names in os.walk(path):
                    for name in names:
                        note_disk_change(os.path.join(base, name))
                shutil.rmtree(path, ignore_errors=True)
                configured = {P(e['dir']) for e in plan.get('initial', [])}      # (a reload shares these again)
                if step.get('as_file') and not model.is_shared(path) and path not in configured:
                    # (a plain file at the path of a configured shared directory is neither "a file under a shared
                    # directory" nor a directory: not generated)
                    with open(path, 'wb') as fh:
                        fh.write(b'not a directory')
                    file_roots.add(path)
                world.disk.fired['directory_vanished'] += 1
                state['dirty'] = True
            sig_steps.append(('rmtree', model.is_shared(path), bool(step.get('as_file')), bool(scans)))
        elif op == 'rename':
            src, dst = P(step['file']), P(step['to'])
            if os.path.isfile(src) and not os.path.exists(dst):
                try:
                    os.makedirs(os.path.dirname(dst), exist_ok=True)
                    os.rename(src, dst)
                except OSError:
                    pass
                else:
                    note_disk_change(src)
                    note_disk_change(dst)
                    state['dirty'] = True
            sig_steps.append(('rename', bool(scans)))
        elif op == 'reload':
            # what start() does, once more on the same manager: cache (empty here) and settings are read again
            for rec in list(scans):
                await rec['call'].task
            reap()
            call = world.call(alice, label, shares.load_data)
            await call.task
            if call.outcome() == 'returned':
                model.reload([(P(e['dir']), e.get('mode', 'everyone'), list(e.get('users', [])))
                              for e in plan.get('initial', [])])
                state['dirty'] = True
                state['removed_seen'] = True
                world.probe('reloaded_from_settings')
            else:
                world.violate('C07.index', what='load_data_raised', exc=type(call.exception).__name__)
            sig_steps.append(('reload', call.outcome() == 'returned'))
        elif op == 'gc_now':
            alice.recorder.events.clear()
            gc.collect()
            model.collected()
            world.trace('gc')
            sig_steps.append(('gc',))
        elif op == 'query':
            run_queries(label)
            sig_steps.append(('query', point()))
        elif op == 'sleep':
            await asyncio.sleep(float(step.get('ms', 0)) / 1000.0)
            sig_steps.append(('sleep', len(scans) > 0))
        else:
            raise ValueError(op)
        world.trace('step', i, op)

    async def main():
        call = world.call(alice, 'load', shares.load_data)
        await call.task
        if call.outcome() != 'returned':
            raise RuntimeError(f"load_data failed: {call.exception!r}")
        for entry in plan.get('initial', []):
            path = P(entry['dir'])
            if model.is_shared(path):
                model.update(path, entry.get('mode', 'everyone'), entry.get('users', []))
            else:
                if model.relation(path) != 'top':
                    state['nested_seen'] = True
                model.add(path, entry.get('mode', 'everyone'), entry.get('users', []))
        alice.recorder.events.clear()
        inspect('start')
        for i, step in enumerate(plan.get('steps', [])):
            reap()
            await do_step(i, step)
            reap()
            alice.recorder.events.clear()
            inspect(f"s{i}")
        # drain, then the closing full scan with nothing else going on
        for rec in list(scans):
            await rec['call'].task
        reap()
        rec = start_scan('all')
        await rec['call'].task
        reap()
        alice.recorder.events.clear()
        inspect('final')
        run_queries('final')

    world.run(main())

    if state['overlap']:
        world.probe('overlap')
    if fault_state['fired']:
        world.probe('file_vanish_' + fault['at'])
    for rec in common.error_logs(world, 'exception scanning directory'):
        world.probe('scan_job_raised')
        break
    nontrivial = state['ref_nonempty'] and (state['nested_seen'] or state['removed_seen'] or state['overlap']
                                            or fault_state['fired'])
    kept.clear()
    return common.finish(world, nontrivial, [sig_steps, sorted(sig_queries), fault_state['fired'],
                                             fault.get('at') if fault else None])

INFO['rule'] += ' Round-5 additions: step reload = load_data() once more on the same manager (model: exactly the configured directories, nothing indexed).'

INFO['rule'] += ' Round-6 additions: words with sharp s / final sigma / micro sign / ligature used exactly as spelt; step rmtree (a shared or nested directory vanishes or becomes a plain file).'
