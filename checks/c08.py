"""C08 - files are only offered and uploaded to users entitled to them.

World: one real client ('alice') logged in to the scripted server with 1..3 shared
directories (everyone / friends / users[...], optionally nested), a few scanned files each,
three scripted users u0..u2 (sim/xfer.py XferPeer: askers and downloaders) drawn from
{friend, stranger, named, blocked with a subset of SEARCHES / SHARES / UPLOADS}, a scripted
parent 'p0' for the distributed search carrier, and a server-sent ExcludedSearchPhrases list
in arbitrary letter case.  A plan holds <= 12 steps: requests of the scripted users
(searches over the server / FileSearch / distributed / legacy carriers, PeerSharesRequest,
PeerDirectoryContentsRequest, PeerTransferQueue, PeerTransferRequest(direction 0) for exact,
locked, unknown, case-variant and separator-variant paths) interleaved with configuration
changes (friends, block flags, share mode / users, add / remove shared directory, rescan,
a new excluded-phrase list) and user aborts / pauses of uploads.

Oracle (models/entitlement.py): everything alice *writes* is read from a sender-side wire
tap.  Every observation is judged against the union of the configurations in force between
the instant the request was sent and the observation; settle clauses are evaluated 8 virtual
seconds after a configuration change that was followed by no other one, and at the end.
"""
from __future__ import annotations

import asyncio
import copy
import os
import struct

from aioslsk.events import MessageReceivedEvent, TransferAddedEvent
from aioslsk.protocol import messages as M
from aioslsk.protocol.primitives import PotentialParent
from aioslsk.transfer.model import TransferDirection

from models import entitlement as E
from models.shares import ShareIndexModel
from sim.world import World
from sim.xfer import WireTap, XferPeer, pattern_bytes
from . import common

PROPERTY = 'C08'
INFO = {
    'level': 'exploration',
    'rule': ('plans = 1..3 shared directories out of {pub, priv, grp, pub/inner, priv/rare, grp/club} with mode '
             'everyone / friends / users[..] x 2..4 files per top directory x three users drawn from {friend, stranger, '
             'named, blocked (non-empty subset of searches / shares / uploads), friend+blocked} x excluded phrases '
             '(0..3, lower / upper / mixed case) x upload slots 0/1/2 x upload speed limit x downloader behaviour '
             '(allow / silent / delayed) x <= 12 steps from {search (server, FileSearch, distributed, legacy carrier), '
             'shares request, directory request (exact / through the parent alias / case variant), queue or transfer '
             'request (exact, case, doubled / mixed / trailing separator, parent alias, other alias, "..", unknown), '
             'friend add/remove, block flags (by assignment or in place), update mode/users, add (+scan) / remove directory, rescan (optionally after deleting a file), new phrase '
             'list, user abort, user pause} with gaps {0, 50 ms, 0.3, 1.2, 3, 9 s}; non-trivial = some judged '
             'observation or settle evaluation involved a (user, file) pair that is not entitled under at least one '
             'configuration of the run; distinct = signature over (modes, user classes, per step: kind, asker class, '
             'outcome class) and settle outcomes'),
    'real': common.REAL,
    'stub': common.STUB,
    'assumptions': [
        'scripted server/peers encode and decode frames with aioslsk message classes (codec is trusted base); the wire '
        'tap decodes one frame per write of the client',
        'a configuration change made through the settings object or the public shares API is in force from the instant '
        'of the call; an excluded-phrase list from its delivery to the client (MessageReceivedEvent)',
        'observation window = [instant the scripted party sent the request, instant the client wrote the frame / emitted '
        'TransferAddedEvent]; boundaries inclusive; for TransferAddedEvent the request is the earliest one of that user '
        'for that exact path string sent during the preceding 3 s',
        'file bytes on an F connection are judged against the configurations of the preceding 8 s (a change is picked '
        'up by the 1 s settings poll and the management cycle; the settle clause judges the rest)',
        'a requested path denotes the file it was derived from (case and separator variants, parent alias): serving an '
        'entitled user through such a path is accepted, so is refusing; "..", other-alias and unknown paths denote nothing',
        'settle bound 8 virtual s = settings poll 1 s + management cycle <= 5 s + slack; evaluated only when no other '
        'configuration change fell into it; an upload whose reported path is no longer the file\'s current reported path '
        '(nested directory added/removed) may be aborted or kept',
        'shared for the settle clauses = indexed by a completed scan (models/shares.py); for the safety clauses = inside '
        'a shared directory (superset)',
        'an excluded phrase is looked for in the reported path without the leading @@alias component',
        'refusal frames (PeerTransferQueueFailed / PeerTransferReply allowed=false) and replies to users blocked for '
        'SHARES are counted as probes: the statement does not constrain them',
        'file, directory names, queries and phrases use ASCII letters, digits, space and "." only',
    ],
}
INFO['rule'] += " Later additions: repeated requests for the same file (also after the upload finished), a sibling directory whose name has another directory's name as prefix, a rescan left running while the configuration changes."

USERS = ('u0', 'u1', 'u2')
PARENT = 'p0'
SIMPLE_NET = {'base_ms': 5, 'jitter_ms': 0, 'segmentation': 'whole', 'coalesce': True}
GAPS = (0.0, 0.0, 0.05, 0.3, 0.3, 1.2, 3.0, 9.0)
SETTLE = 8.0
REQ_WINDOW = 3.0
BASE_MTIME = 1_600_000_000

TOP_DIRS = ('pub', 'priv', 'grp', 'pub2')          # 'pub2': a sibling whose name has another directory's name as prefix
NESTED = {'pub': 'inner', 'priv': 'rare', 'grp': 'club', 'pub2': 'more'}
FILES = {
    'pub': ('song one.mp3', 'mix tape.ogg', 'live/concert song.flac', 'inner/deep song.mp3', 'inner/secret demo.mp3',
            'inner/core/hidden song.mp3'),
    'priv': ('secret song.mp3', 'demo tape.mp3', 'rare/live bootleg.flac', 'rare/rare mix.ogg'),
    'grp': ('group song.mp3', 'club/secret mix.ogg', 'club/club tape.mp3'),
    'pub2': ('second song.mp3', 'more/other mix.ogg'),
}
QUERIES = ('song', 'song', 'secret', 'tape', 'live', 'mix', 'demo', '*ong', 'song -secret', 'mp3', 'flac', 'bootleg',
           'deep', 'club', 'nomatch')
PHRASES = ('secret', 'SECRET', 'Secret', 'live', 'LIVE', 'demo tape', 'Demo Tape', 'DEMO', 'ong', 'BOOT', 'Mix',
           'club', 'TAPE', 'zzz')
MODES = ('everyone', 'friends', 'users')
FLAGS = ('searches', 'shares', 'uploads')
CARRIERS = ('server', 'file', 'dist', 'legacy')
VARIANTS = ('exact', 'exact', 'exact', 'exact', 'case', 'sep_double', 'sep_mixed', 'sep_trail', 'parent_alias',
            'other_alias', 'dotdot', 'unknown')
DIR_FORMS = ('exact', 'exact', 'exact', 'parent_alias', 'case', 'sep_trail', 'sep_double', 'sep_mixed')
CHANGE_OPS = ('friend', 'block', 'update', 'add', 'remove', 'rescan')


# ----------------------------------------------------------------------------- generator

def _all_files(tops):
    return [{'path': [top] + rel.split('/'), 'size': 0} for top in tops for rel in FILES[top]]


def _dir_candidates():
    # (three levels under 'pub': a directory inside a nested shared directory)
    return [[t] for t in TOP_DIRS] + [[t, NESTED[t]] for t in TOP_DIRS] + [['pub', 'inner', 'core']]


def _draw_users(rng, named):
    return rng.choice([[], list(named), list(named), [rng.choice(USERS)], list(USERS[:2])])


def generate(rng, index, tier):
    net = dict(SIMPLE_NET, base_ms=rng.choice([1, 5, 20])) if rng.random() < 0.6 else common.draw_net(rng)
    classes = {}
    friends, blocked, named = [], {}, []
    for u in USERS:
        cls = rng.choice(('friend', 'stranger', 'named', 'blocked', 'blocked', 'friend_blocked'))
        classes[u] = cls
        if cls in ('friend', 'friend_blocked'):
            friends.append(u)
        if cls == 'named':
            named.append(u)
        if cls in ('blocked', 'friend_blocked'):
            flags = [f for f in FLAGS if rng.random() < 0.5] or [rng.choice(FLAGS)]
            blocked[u] = flags
    if not named and rng.random() < 0.5:
        named.append(rng.choice(USERS))
    tops = list(TOP_DIRS)
    files = []
    size = rng.choice([2000, 2000, 30000, 120000])
    for top in tops:
        rels = list(FILES[top])
        keep = rng.sample(rels, rng.randint(2, min(4, len(rels))))
        for rel in rels:
            if rel in keep:
                files.append({'path': [top] + rel.split('/'), 'size': size})
    cands = _dir_candidates()
    shared = []
    for d in rng.sample(cands, rng.choice([1, 2, 2, 3, 3])):
        shared.append({'dir': d, 'mode': rng.choice(MODES), 'users': _draw_users(rng, named)})
    if not any(e['mode'] != 'everyone' for e in shared) and rng.random() < 0.8:
        rng.choice(shared)['mode'] = rng.choice(('friends', 'users'))
    excluded = rng.sample(PHRASES, rng.choice([0, 1, 1, 2, 3]))
    # approximate bookkeeping, only used to bias the draw towards requests that are granted first and hit by a
    # change later (run() keeps the authoritative state)
    g_dirs = {tuple(e['dir']): [e['mode'], list(e['users'])] for e in shared}
    g_friends = set(friends)
    g_blocked = {u: list(f) for u, f in blocked.items()}
    holders = []          # users that were (probably) granted an upload
    steps = []
    nsteps = rng.randint(4, 12)
    ticket = [100 + rng.randrange(1000)]
    force_gap = [None]

    def g_owner(comps):
        best = None
        for d in g_dirs:
            if tuple(comps[:len(d)]) == d and len(comps) > len(d) and (best is None or len(d) > len(best)):
                best = d
        return best

    def g_entitled(user, comps):
        d = g_owner(comps)
        if d is None or 'uploads' in g_blocked.get(user, []):
            return False
        mode, users = g_dirs[d]
        return mode == 'everyone' or (mode == 'friends' and user in g_friends) or (mode == 'users' and user in users)

    def file_in_play():
        inside = [f for f in files if g_owner(f['path']) is not None]
        pool = inside if inside and rng.random() < 0.85 else files
        return list(rng.choice(pool)['path'])

    def pick_user():
        return rng.choice(holders) if holders and rng.random() < 0.6 else rng.choice(USERS)

    while len(steps) < nsteps:
        r = rng.random()
        gap = rng.choice(GAPS) if force_gap[0] is None else force_gap[0]
        force_gap[0] = None
        user = rng.choice(USERS)
        if r < 0.26 or (len(steps) < 2 and r < 0.6):
            granted = [(u, f['path']) for u in USERS for f in files if g_entitled(u, f['path'])]
            earlier = [st for st in steps if st['op'] == 'queue']
            if earlier and rng.random() < 0.25:
                # the same user asks for the same file again (retry of a failed / finished / aborted download)
                step = dict(rng.choice(earlier))
                step['via'] = rng.choice(('queue', 'queue', 'request'))
            elif granted and rng.random() < 0.6:
                user, comps = rng.choice(granted)
                step = {'op': 'queue', 'user': user, 'file': list(comps),
                        'variant': 'exact' if rng.random() < 0.85 else rng.choice(VARIANTS),
                        'via': rng.choice(('queue', 'queue', 'request'))}
                if step['variant'] == 'exact':
                    holders.append(user)
            else:
                step = {'op': 'queue', 'user': user, 'file': file_in_play(), 'variant': rng.choice(VARIANTS),
                        'via': rng.choice(('queue', 'queue', 'request'))}
        elif r < 0.40:
            ticket[0] += 1 + rng.randrange(5)
            step = {'op': 'search', 'user': user, 'carrier': rng.choice(CARRIERS), 'query': rng.choice(QUERIES),
                    'ticket': ticket[0]}
        elif r < 0.46:
            step = {'op': 'shares', 'user': user}
        elif r < 0.54:
            d = list(rng.choice(cands)) if rng.random() < 0.7 else file_in_play()[:-1]
            step = {'op': 'dir', 'user': user, 'dir': d, 'form': rng.choice(DIR_FORMS)}
        elif r < 0.62:
            user = pick_user()
            value = user not in g_friends if rng.random() < 0.8 else rng.random() < 0.5
            (g_friends.add if value else g_friends.discard)(user)
            step = {'op': 'friend', 'user': user, 'value': value}
        elif r < 0.73:
            user = pick_user()
            if g_blocked.get(user) and rng.random() < 0.6:
                flags = []
            else:
                flags = [f for f in FLAGS if rng.random() < (0.75 if f == 'uploads' else 0.4)] or ['uploads']
            g_blocked[user] = flags
            step = {'op': 'block', 'user': user, 'flags': flags}
        elif r < 0.80:
            if not g_dirs:
                continue
            d = rng.choice(sorted(g_dirs))
            step = {'op': 'update', 'dir': list(d), 'mode': rng.choice(MODES), 'users': _draw_users(rng, named)}
            g_dirs[d] = [step['mode'], list(step['users'])]
        elif r < 0.84:
            free = [d for d in cands if tuple(d) not in g_dirs]
            if not free:
                continue
            d = rng.choice(free)
            step = {'op': 'add', 'dir': list(d), 'mode': rng.choice(MODES), 'users': _draw_users(rng, named),
                    'scan': rng.random() < 0.7}
            g_dirs[tuple(d)] = [step['mode'], list(step['users'])]
        elif r < 0.88:
            if not g_dirs:
                continue
            d = rng.choice(sorted(g_dirs))
            del g_dirs[d]
            step = {'op': 'remove', 'dir': list(d)}
        elif r < 0.895:
            step = {'op': 'rescan'}
            if rng.random() < 0.5:
                step['delete'] = file_in_play()
            elif rng.random() < 0.5:
                step['overlap'] = True
                force_gap[0] = rng.choice([0.0, 0.001, 0.05])
        elif r < 0.92:
            step = {'op': 'phrases', 'list': rng.sample(PHRASES, rng.choice([0, 1, 2]))}
        elif r < 0.97:
            step = {'op': 'abort', 'user': pick_user()}
        else:
            step = {'op': 'pause', 'user': pick_user()}
        step['gap'] = gap
        steps.append(step)
        if step['op'] in CHANGE_OPS and rng.random() < 0.3:
            force_gap[0] = 9.0
    dl = {}
    for u in USERS:
        r = rng.random()
        dl[u] = {'reply': 'allow'} if r < 0.7 else {'reply': 'silent'} if r < 0.85 else {'reply': 'allow', 'reply_delay': 2.0}
    return {
        'seed': rng.getrandbits(32), 'net': net, 'exec': {'delay_ms': rng.choice([[0, 0], [0, 2], [0, 2], [1, 20]])},
        'classes': classes, 'friends': friends, 'blocked': blocked, 'files': files, 'shared': shared,
        'excluded': excluded, 'slots': rng.choice([0, 0, 1, 2]), 'speed_kbps': rng.choice([0, 8, 8, 30]),
        'busy': rng.choice([0.5, 2.0, 4.0]) if rng.random() < 0.25 else None,
        'hold_items': rng.random() < 0.3,
        'dl': dl, 'parent': rng.random() < 0.8, 'inplace': rng.random() < 0.3, 'steps': steps,
    }


def _plan(shared, steps, friends=('u0',), blocked=None, excluded=(), slots=0, classes=None, **kw):
    plan = {
        'seed': 5, 'net': dict(SIMPLE_NET), 'exec': {'delay_ms': [0, 1]},
        'classes': classes or {'u0': 'friend', 'u1': 'stranger', 'u2': 'named'},
        'friends': list(friends), 'blocked': dict(blocked or {}),
        'files': [dict(f, size=2000) for f in _all_files(TOP_DIRS)],
        'shared': [dict(e) for e in shared], 'excluded': list(excluded), 'slots': slots, 'speed_kbps': 0,
        'dl': {u: {'reply': 'allow'} for u in USERS}, 'parent': True,
        'steps': [dict(s) for s in steps],
    }
    plan.update(kw)
    for s in plan['steps']:
        s.setdefault('gap', 0.3)
    return plan


def corpus(tier):
    out = []
    n = [5000]

    def search(user, carrier='server', query='song', **kw):
        n[0] += 1
        return dict({'op': 'search', 'user': user, 'carrier': carrier, 'query': query, 'ticket': n[0]}, **kw)

    def q(user, path, variant='exact', via='queue', **kw):
        return dict({'op': 'queue', 'user': user, 'file': path.split('/'), 'variant': variant, 'via': via}, **kw)

    three = [{'dir': ['pub'], 'mode': 'everyone', 'users': []}, {'dir': ['priv'], 'mode': 'friends', 'users': []},
             {'dir': ['grp'], 'mode': 'users', 'users': ['u2']}]
    # 1. every request kind x every user class x every mode (complete enumeration of that small axis)
    trios = (({'u0': 'friend', 'u1': 'stranger', 'u2': 'named'}, {}),
             ({'u0': 'blocked', 'u1': 'blocked', 'u2': 'blocked'},
              {'u0': ['searches'], 'u1': ['shares'], 'u2': ['uploads']}),
             ({'u0': 'friend_blocked', 'u1': 'blocked', 'u2': 'named'},
              {'u0': ['searches', 'shares', 'uploads'], 'u1': ['searches', 'uploads']}))
    for classes, blocked in trios:
        friends = [u for u, c in classes.items() if c.startswith('friend')]
        for u in USERS:
            steps = [search(u, c, qq) for c in CARRIERS for qq in ('song', 'secret')]
            steps += [{'op': 'shares', 'user': u}]
            steps += [{'op': 'dir', 'user': u, 'dir': d, 'form': 'exact'} for d in (['pub'], ['priv'], ['grp'], ['priv', 'rare'],
                                                                                 ['grp', 'club'])]
            for path in ('pub/song one.mp3', 'priv/secret song.mp3', 'grp/group song.mp3'):
                steps += [q(u, path, 'exact', 'queue'), q(u, path, 'exact', 'request')]
            out.append(_plan(three, steps, friends=friends, blocked=blocked, classes=classes))
    # 2. path variants for a visible and a locked file, both request forms
    for via in ('queue', 'request'):
        steps = []
        for path in ('pub/live/concert song.flac', 'priv/rare/live bootleg.flac', 'pub/inner/deep song.mp3'):
            for variant in ('case', 'sep_double', 'sep_mixed', 'sep_trail', 'parent_alias', 'other_alias', 'dotdot', 'unknown'):
                steps.append(q('u1', path, variant, via, gap=0.05))
        out.append(_plan(three + [{'dir': ['pub', 'inner'], 'mode': 'friends', 'users': []}], steps))
    # 3. excluded phrases in every case class, hit through every carrier; a new list later
    for phrases in (['secret'], ['SECRET'], ['Secret'], ['demo tape'], ['Demo Tape'], ['LIVE', 'zzz']):
        steps = [search('u0', c, qq) for c in CARRIERS for qq in ('secret', 'song', 'tape', 'live')]
        steps += [{'op': 'phrases', 'list': ['SONG']}, search('u0', 'server', 'song', gap=1.2), search('u1', 'file', 'song'),
                  {'op': 'phrases', 'list': []}, search('u0', 'server', 'song', gap=1.2)]
        out.append(_plan(three, steps, excluded=phrases))
    # 4. settle clauses: uploads kept QUEUED (no slots), one change, quiet period, the reverse change, quiet period
    reqs = [q('u0', 'priv/secret song.mp3'), q('u1', 'pub/song one.mp3'), q('u2', 'grp/group song.mp3'),
            q('u0', 'pub/mix tape.ogg', via='request')]
    pairs = (
        ({'op': 'block', 'user': 'u1', 'flags': ['uploads']}, {'op': 'block', 'user': 'u1', 'flags': []}),
        ({'op': 'block', 'user': 'u0', 'flags': ['searches', 'shares', 'uploads']}, {'op': 'block', 'user': 'u0', 'flags': ['shares']}),
        ({'op': 'friend', 'user': 'u0', 'value': False}, {'op': 'friend', 'user': 'u0', 'value': True}),
        ({'op': 'update', 'dir': ['grp'], 'mode': 'users', 'users': ['u1']}, {'op': 'update', 'dir': ['grp'], 'mode': 'users', 'users': ['u2']}),
        ({'op': 'update', 'dir': ['pub'], 'mode': 'friends', 'users': []}, {'op': 'update', 'dir': ['pub'], 'mode': 'everyone', 'users': []}),
        ({'op': 'remove', 'dir': ['pub']}, {'op': 'add', 'dir': ['pub'], 'mode': 'everyone', 'users': [], 'scan': True}),
        ({'op': 'remove', 'dir': ['priv']}, {'op': 'add', 'dir': ['priv'], 'mode': 'friends', 'users': [], 'scan': False}),
        ({'op': 'rescan', 'delete': ['pub', 'song one.mp3']}, {'op': 'rescan', 'delete': ['grp', 'group song.mp3']}),
    )
    for slots, speed, size in ((0, 0, 2000), (1, 8, 60000), (2, 8, 120000)):
        for first, second in pairs:
            steps = reqs + [dict(first, gap=1.2), dict(second, gap=9.0), q('u1', 'pub/song one.mp3', gap=9.0)]
            plan = _plan(three, steps, slots=slots, speed_kbps=speed, inplace=slots == 1)
            for f in plan['files']:
                f['size'] = size
            out.append(plan)
    # 5. user aborts / pauses, then changes that trigger shares cycles
    for op in ('abort', 'pause'):
        for change in ({'op': 'friend', 'user': 'u1', 'value': True}, {'op': 'block', 'user': 'u1', 'flags': ['uploads']},
                       {'op': 'rescan'}, {'op': 'update', 'dir': ['pub'], 'mode': 'everyone', 'users': ['u1']}):
            steps = [q('u1', 'pub/song one.mp3'), q('u0', 'pub/song one.mp3'), {'op': op, 'user': 'u1', 'gap': 1.2},
                     dict(change, gap=1.2), {'op': 'block', 'user': 'u1', 'flags': [], 'gap': 9.0},
                     q('u1', 'pub/song one.mp3', gap=9.0)]
            out.append(_plan(three, steps, slots=0))
    # 6. nested directory added / removed around requests and queued uploads
    for mode in MODES:
        steps = [q('u1', 'pub/inner/deep song.mp3'), search('u1', 'server', 'deep'),
                 {'op': 'add', 'dir': ['pub', 'inner'], 'mode': mode, 'users': ['u2'], 'scan': False, 'gap': 1.2},
                 search('u1', 'server', 'deep'), search('u1', 'file', 'secret'), {'op': 'shares', 'user': 'u1'},
                 {'op': 'dir', 'user': 'u1', 'dir': ['pub', 'inner'], 'form': 'exact'},
                 {'op': 'dir', 'user': 'u1', 'dir': ['pub', 'inner'], 'form': 'parent_alias'},
                 q('u1', 'pub/inner/deep song.mp3', 'exact'), q('u1', 'pub/inner/secret demo.mp3', 'parent_alias'),
                 {'op': 'remove', 'dir': ['pub', 'inner'], 'gap': 9.0}, search('u1', 'server', 'deep', gap=0.05),
                 q('u1', 'pub/inner/secret demo.mp3', gap=9.0)]
        out.append(_plan(three, steps, slots=0))
        out.append(_plan(three, steps, slots=0, hold_items=True))
    # 7. a change reverted before / after the settings poll, with a request in between
    for gap in (0.05, 0.3, 1.2):
        out.append(_plan(three, [{'op': 'friend', 'user': 'u1', 'value': True, 'gap': 3.0}, q('u1', 'priv/secret song.mp3', gap=gap),
                                 {'op': 'friend', 'user': 'u1', 'value': False, 'gap': gap}], slots=0))
        out.append(_plan(three, [{'op': 'block', 'user': 'u1', 'flags': [], 'gap': 3.0}, q('u1', 'pub/song one.mp3', gap=gap),
                                 {'op': 'block', 'user': 'u1', 'flags': ['uploads'], 'gap': gap}], slots=0,
                         blocked={'u1': ['uploads']}, classes={'u0': 'friend', 'u1': 'blocked', 'u2': 'named'}))
    for plan in list(out[-6:]):
        slow = copy.deepcopy(plan)
        slow.update(slots=1, speed_kbps=8)
        for f in slow['files']:
            f['size'] = 120000
        out.append(slow)
    # 9. an upload that is already over (COMPLETE, or FAILED at a silent downloader) when the user is blocked / the
    #    directory is locked / unshared; the peer then asks for the same file again
    for change in ({'op': 'block', 'user': 'u1', 'flags': ['uploads']},
                   {'op': 'update', 'dir': ['pub'], 'mode': 'friends', 'users': []},
                   {'op': 'remove', 'dir': ['pub']}):
        for dl in ({'reply': 'allow'}, {'reply': 'silent'}):
            for via in ('queue', 'request'):
                steps = [q('u1', 'pub/song one.mp3'), dict(change, gap=9.0), q('u1', 'pub/song one.mp3', via=via, gap=9.0),
                         search('u1', 'server', 'song', gap=9.0)]
                plan = _plan(three, steps, slots=1)
                plan['dl'] = {u: dict(dl) for u in USERS}
                out.append(plan)
    # 10. sibling directories one of whose names is a prefix of the other's, with different modes; one is removed / re-added
    for m_pub, m_pub2 in (('everyone', 'friends'), ('friends', 'everyone'), ('everyone', 'users')):
        sib = [{'dir': ['pub'], 'mode': m_pub, 'users': ['u2']}, {'dir': ['pub2'], 'mode': m_pub2, 'users': ['u2']}]
        for gone in ('pub2', 'pub'):
            steps = [search('u1', 'server', 'song'), {'op': 'shares', 'user': 'u1'},
                     {'op': 'remove', 'dir': [gone], 'gap': 1.2},
                     search('u1', 'server', 'song', gap=0.05), search('u1', 'file', 'mix'), {'op': 'shares', 'user': 'u1'},
                     {'op': 'dir', 'user': 'u1', 'dir': ['pub2', 'more'], 'form': 'exact'},
                     q('u1', 'pub2/second song.mp3'), q('u1', 'pub/song one.mp3'), q('u1', 'pub2/second song.mp3', 'dotdot'),
                     {'op': 'add', 'dir': [gone], 'mode': 'friends', 'users': [], 'scan': True, 'gap': 9.0},
                     search('u1', 'server', 'song', gap=3.0), {'op': 'shares', 'user': 'u1'}]
            out.append(_plan(sib, steps, slots=1))
    # 11. a nested directory with a stricter mode is added while the scan of its parent is still running on the executor;
    #     requests follow before the next scan
    for mode in ('friends', 'users'):
        for gap in (0.001, 0.05):
            steps = [{'op': 'rescan', 'overlap': True, 'gap': 1.2},
                     {'op': 'add', 'dir': ['pub', 'inner'], 'mode': mode, 'users': ['u2'], 'scan': False, 'gap': gap},
                     search('u1', 'server', 'deep', gap=3.0), search('u1', 'file', 'secret'), {'op': 'shares', 'user': 'u1'},
                     {'op': 'dir', 'user': 'u1', 'dir': ['pub', 'inner'], 'form': 'exact'},
                     q('u1', 'pub/inner/deep song.mp3', 'exact'), q('u1', 'pub/inner/secret demo.mp3', 'parent_alias'),
                     {'op': 'rescan', 'gap': 3.0}, search('u1', 'server', 'deep', gap=1.2)]
            out.append(_plan(three, steps, slots=1, exec={'delay_ms': [100, 400]}))
    # 12. directory requests in every spelling, for an open and for locked directories (root and nested)
    steps = []
    for d in (['pub'], ['pub', 'live'], ['priv'], ['priv', 'rare'], ['grp', 'club']):
        for form in ('exact', 'case', 'sep_trail', 'sep_double', 'sep_mixed', 'parent_alias'):
            steps.append({'op': 'dir', 'user': 'u1', 'dir': d, 'form': form, 'gap': 0.05})
    out.append(_plan(three, steps))
    # 13. three nesting levels: the innermost directory (stricter mode) is added after the middle one took over its files
    for m_mid, m_in in (('everyone', 'friends'), ('everyone', 'users'), ('friends', 'everyone')):
        for scan in (False, True):
            steps = [{'op': 'add', 'dir': ['pub', 'inner'], 'mode': m_mid, 'users': ['u2'], 'scan': scan, 'gap': 1.2},
                     {'op': 'add', 'dir': ['pub', 'inner', 'core'], 'mode': m_in, 'users': ['u2'], 'scan': False, 'gap': 1.2},
                     search('u1', 'server', 'hidden', gap=1.2), search('u1', 'file', 'song'), {'op': 'shares', 'user': 'u1'},
                     {'op': 'dir', 'user': 'u1', 'dir': ['pub', 'inner', 'core'], 'form': 'exact'},
                     {'op': 'dir', 'user': 'u1', 'dir': ['pub', 'inner', 'core'], 'form': 'parent_alias'},
                     q('u1', 'pub/inner/core/hidden song.mp3'), q('u1', 'pub/inner/core/hidden song.mp3', 'parent_alias'),
                     {'op': 'rescan', 'gap': 3.0}, search('u1', 'server', 'hidden', gap=1.2)]
            out.append(_plan([{'dir': ['pub'], 'mode': 'everyone', 'users': []}], steps, slots=1))
    # 8. requests racing a change (same instant, 50 ms)
    for gap in (0.0, 0.05):
        out.append(_plan(three, [search('u1', 'server', 'secret'), {'op': 'friend', 'user': 'u1', 'value': True, 'gap': gap},
                                 q('u1', 'priv/secret song.mp3', gap=gap), {'op': 'friend', 'user': 'u1', 'value': False, 'gap': gap},
                                 {'op': 'shares', 'user': 'u1', 'gap': gap}, search('u1', 'dist', 'secret', gap=gap)]))
    # 9. a change of the block list / friends that is taken back before the settings are looked at again, a request in
    #    between - on a quiet client and on one that is kept busy by status announcements
    for busy in (None, 0.5, 2.0, 4.0):
        for slots in (0, 1):
            out.append(_plan(three, [{'op': 'block', 'user': 'u1', 'flags': [], 'gap': 0.3},
                                     q('u1', 'pub/song one.mp3', gap=0.3),
                                     {'op': 'block', 'user': 'u1', 'flags': ['uploads'], 'gap': 0.3}],
                             blocked={'u1': ['uploads']}, classes={'u0': 'friend', 'u1': 'blocked', 'u2': 'named'},
                             friends=[], slots=slots, inplace=True, busy=busy))
            out.append(_plan(three, [{'op': 'friend', 'user': 'u1', 'value': True, 'gap': 0.3},
                                     q('u1', 'priv/secret song.mp3', gap=0.3),
                                     {'op': 'friend', 'user': 'u1', 'value': False, 'gap': 0.3}],
                             slots=slots, inplace=True, busy=busy))
    return out


def enumerated_axes(tier):
    return {'request kind x user class x share mode': {
        'size': 3 * 3 * (len(CARRIERS) * 2 + 1 + 5 + 6), 'exhaustive': True,
        'note': 'corpus block 1: every request kind by every user of three user-class trios against an everyone, a '
                'friends and a users directory'}}


SHRINK_LISTS = ('steps', 'shared', 'excluded', 'files')
SHRINK_PROTECT = ('path', 'dir', 'file', 'users', 'flags', 'list', 'delay_ms', 'friends')


def simplify(plan):
    if plan.get('net') != SIMPLE_NET:
        yield dict(plan, net=dict(SIMPLE_NET))
    if plan.get('exec', {}).get('delay_ms') != [0, 0]:
        yield dict(plan, exec={'delay_ms': [0, 0]})
    if plan.get('speed_kbps'):
        yield dict(plan, speed_kbps=0)
    if plan.get('inplace'):
        yield dict(plan, inplace=False)
    if plan.get('slots'):
        yield dict(plan, slots=0)
    if plan.get('parent') and not any(s.get('carrier') in ('dist', 'legacy') for s in plan.get('steps', [])):
        yield dict(plan, parent=False)
    if any(v != {'reply': 'allow'} for v in plan.get('dl', {}).values()):
        yield dict(plan, dl={u: {'reply': 'allow'} for u in USERS})
    for u in list(plan.get('blocked', {})):
        cand = copy.deepcopy(plan)
        del cand['blocked'][u]
        yield cand
    for u in plan.get('friends', []):
        yield dict(plan, friends=[x for x in plan['friends'] if x != u])
    if any(f.get('size', 0) != 2000 for f in plan.get('files', [])):
        yield dict(plan, files=[dict(f, size=2000) for f in plan['files']])
    for i, step in enumerate(plan.get('steps', [])):
        def variant(**kw):
            cand = copy.deepcopy(plan)
            cand['steps'][i].update(kw)
            return cand
        if step.get('gap') not in (0.3, 9.0):
            yield variant(gap=0.3)
            yield variant(gap=9.0)
        if step.get('carrier') not in (None, 'server'):
            yield variant(carrier='server')
        if step.get('variant') not in (None, 'exact'):
            yield variant(variant='exact')
        if step.get('via') == 'request':
            yield variant(via='queue')
        if step.get('form') not in (None, 'exact'):
            yield variant(form='exact')
        if step.get('delete'):
            cand = copy.deepcopy(plan)
            del cand['steps'][i]['delete']
            yield cand


# ----------------------------------------------------------------------------- run
def run(plan):
    world = World(plan, PROPERTY)
    try:
        return _run(world, plan)
    finally:
        world.close()


def _bs(path):
    return path.replace(os.sep, '\\')


def _below_alias(remote):
    return remote.split('\\', 1)[1] if '\\' in remote else ''


def _run(world: World, plan):
    from aioslsk.shares.model import DirectoryShareMode
    from aioslsk.user.model import BlockingFlag

    loop = world.loop
    server = world.add_server({'excluded_phrases': list(plan.get('excluded', [])),
                               'parent_min_speed': 1, 'parent_speed_ratio': 50})
    server.users['alice'] = {'stats': (40960, 10, 5, 2)}
    root = world.sandbox.sub('alice', 'shares')

    def P(comps):
        return os.path.join(root, *comps) if comps else root

    # ------------------------------------------------------------------ disk
    for d in _dir_candidates():
        os.makedirs(P(d), exist_ok=True)
    for e in plan.get('shared', []):
        os.makedirs(P(e['dir']), exist_ok=True)
    for s in plan.get('steps', []):
        if s.get('op') in ('add', 'dir', 'update', 'remove') and s.get('dir') is not None:
            os.makedirs(P(s['dir']), exist_ok=True)
    files = {}          # absolute path -> components
    for i, f in enumerate(plan.get('files', [])):
        path = P(f['path'])
        if os.path.isdir(path):
            continue
        os.makedirs(os.path.dirname(path), exist_ok=True)
        with open(path, 'wb') as fh:
            fh.write(pattern_bytes(int(f.get('size') or 2000), i))
        os.utime(path, (BASE_MTIME + i, BASE_MTIME + i))
        files[path] = list(f['path'])

    initial = []
    for e in plan.get('shared', []):
        if not any(x['dir'] == e['dir'] for x in initial):
            initial.append(e)
    blocked0 = {u: E.flags_value(fl) for u, fl in plan.get('blocked', {}).items() if fl}
    overrides = {
        'shares': {'scan_on_start': False, 'directories': [
            {'path': P(e['dir']), 'share_mode': e.get('mode', 'everyone'), 'users': list(e.get('users', []))}
            for e in initial]},
        'users': {'friends': list(plan.get('friends', [])),
                  'blocked': {u: BlockingFlag(v) for u, v in blocked0.items()}},
        'transfers': {'limits': {'upload_slots': int(plan.get('slots', 0))}},
        'network': {'limits': {'upload_speed_kbps': int(plan.get('speed_kbps', 0))}},
    }
    alice = world.add_client('alice', overrides=overrides)
    client = alice.client
    shares = client.shares
    tm = client.transfers
    settings = alice.settings
    wire = WireTap(world, 'alice')
    classes = plan.get('classes', {})

    # ------------------------------------------------------------------ reference state
    index = ShareIndexModel()
    for e in initial:
        index.add(P(e['dir']), e.get('mode', 'everyone'), e.get('users', []))
    state = {'friends': set(plan.get('friends', [])), 'blocked': dict(blocked0), 'excluded': ()}
    timeline = E.Timeline()

    def push():
        timeline.push(loop.time(), {
            'friends': frozenset(state['friends']), 'blocked': dict(state['blocked']),
            'dirs': {d: (c['mode'], tuple(c['users'])) for d, c in index.shared.items()},
            'known': frozenset(index.known | index.optional), 'excluded': tuple(state['excluded'])})
    push()

    alias_of = {}
    by_alias = {}

    def alias(d):
        a = alias_of.get(d)
        if a is None:
            a = alias_of[d] = shares.generate_alias(d)
            by_alias.setdefault(a, []).append(d)
        return a
    for d in _dir_candidates():
        alias(P(d))
    for d in list(index.shared):
        alias(d)

    def resolve(remote):
        """Absolute file a path reported by the client stands for (None: none of the plan's files)."""
        if not remote.startswith('@@'):
            return None
        parts = remote[2:].split('\\')
        if '..' in parts or '' in parts:
            return None
        for d in by_alias.get(parts[0], []):
            cand = os.path.join(d, *parts[1:])
            if cand in files:
                return cand
        return None

    last_owner = {}

    def canonical(f_abs, owner=None):
        owner = owner or index.owner_of(f_abs) or last_owner.get(f_abs) or P(files.get(f_abs, ['pub'])[:1])
        return '@@' + alias(owner) + '\\' + _bs(os.path.relpath(f_abs, owner))

    def outer_of(owner):
        outer = [s for s in index.shared if s != owner and owner.startswith(s + os.sep)]
        return max(outer, key=len) if outer else None

    path_targets = {}
    requests = []        # queue / transfer requests: {'user','path','target','variant','via','t'}
    searches = {}        # ticket -> record
    reqs_by_conn = {}    # connection id -> shares / directory request record
    uploads = []         # {'transfer','user','path','t','abort_call'}
    keep = []
    sig_steps = []
    nt = {'locked': False, 'withheld': False, 'refused': False, 'aborted': False, 'excluded': False}
    chg = {'n': 0, 't': None, 'kind': None}
    settle_log = []

    # ------------------------------------------------------------------ scripted parties
    xpeers = {}
    for u in USERS:
        xp = XferPeer(world, u)
        xp.attach(alice)
        xpeers[u] = xp
    parent = world.add_peer(PARENT)
    parent_links = []

    async def parent_accept(link):
        init = await link.recv_init()
        if not isinstance(init, M.PeerInit.Request):
            return
        if init.typ == 'D':
            parent_links.append(link)
            link.send(M.DistributedBranchLevel.Request(1))
            link.send(M.DistributedBranchRoot.Request('r1'))
            while await link.recv('D') is not None:
                pass
        else:
            while await link.recv('P') is not None:
                pass
    parent.accept_handler = parent_accept

    def parent_link():
        for link in reversed(parent_links):
            if link.is_open() and not link.eof and not link.writer.is_closing():
                return link
        return None

    # ------------------------------------------------------------------ observation on alice
    def on_event(event):
        if isinstance(event, MessageReceivedEvent):
            if isinstance(event.message, M.ExcludedSearchPhrases.Response):
                state['excluded'] = tuple(event.message.phrases)
                push()
                world.trace('phrases', len(state['excluded']))
        elif isinstance(event, TransferAddedEvent) and event.transfer.direction == TransferDirection.UPLOAD:
            tr = event.transfer
            uploads.append({'transfer': tr, 'user': tr.username, 'path': tr.remote_path, 't': loop.time(),
                            'abort_call': None})
            tr.state_listeners.append(listener)
            world.trace('upload_added', tr.username, tr.remote_path)
        alice.recorder.events.clear()
    alice.recorder.hooks.append(on_event)

    class Listener:
        async def on_transfer_state_changed(self, transfer, old, new):
            world.trace('state', transfer.username, old.name, new.name, transfer.abort_reason)
            if old.name == 'ABORTED':
                world.probe('left_ABORTED_for_' + new.name)
            elif new.name == 'ABORTED':
                world.probe('aborted_from_' + old.name + '_' + str(transfer.abort_reason).replace(' ', '_'))
    listener = Listener()
    world.keep_alive.append(listener)

    def requested(rec):
        call = rec['abort_call']
        if call is None:
            return False
        if not call.done:
            return None
        return call.outcome() == 'returned'

    # ------------------------------------------------------------------ settle clauses
    def span_class(user, target, permitted, now=None):
        """Length class of the last interval of constant (friends, blocked) lists that held a configuration
        under which the upload was permitted (or, ``permitted=False``, not permitted): the settings are polled
        once a second, so a shorter interval may never be noticed; directory changes are announced by events."""
        now = loop.time() if now is None else now
        spans = []          # [start, end, any permitted, any not permitted, key]
        for (t, cfg) in timeline.entries:
            if t > now:
                break
            key = (cfg['friends'], tuple(sorted(cfg['blocked'].items())))
            ok = E.may_upload(cfg, user, target)
            if not spans or spans[-1][4] != key:
                if spans:
                    spans[-1][1] = t
                spans.append([t, now, False, False, key])
            spans[-1][2 if ok else 3] = True
        for start, end, any_ok, any_not, _ in reversed(spans):
            if (any_ok if permitted else any_not):
                return 'under_1s' if end - start < 1.0 else 'longer'
        return 'never'

    def permitted_for(user, target, now=None):
        return span_class(user, target, True, now)

    def evaluate(kind):
        if kind == 'final' and chg['kind'] is not None:
            kind = chg['kind']
        cfg = timeline.current
        for rec in uploads:
            tr = rec['transfer']
            if tr not in tm.transfers:
                continue
            st = tr.state.VALUE.name
            if st in ('COMPLETE', 'FAILED'):
                continue
            req = requested(rec)
            if req is None:
                continue
            user = rec['user']
            target = path_targets[rec['path']] if rec['path'] in path_targets else resolve(rec['path'])
            required = E.abort_reasons(cfg, user, target, req)
            if pending_scans and E.NOT_SHARED in required:
                # a scan was left running while the configuration changed: the reference index is only brought up to date
                # by the next awaited scan, until then "not shared (any more)" cannot be told from "indexed by that scan"
                world.probe('settle_not_shared_not_judged_scan_pending')
                required = [r for r in required if r != E.NOT_SHARED]
            allowed = set(required)
            if pending_scans:
                allowed.add(E.NOT_SHARED)
            current = target is not None and index.owner_of(target) is not None and canonical(target) == rec['path']
            if not current:
                allowed.add(E.NOT_SHARED)      # the reported path changed: may be kept or aborted
                if E.NOT_SHARED not in required:
                    world.probe('settle_path_not_current')
            reason = tr.abort_reason
            world.trace('settle', kind, user, st, reason, tuple(sorted(required)))
            settle_log.append((kind, st, reason if st == 'ABORTED' else None, tuple(sorted(required))))
            if required or st == 'ABORTED':
                nt['aborted'] = True
            if required:
                if st != 'ABORTED':
                    if E.REQUESTED in required:
                        world.violate('C08.requested_kept', state=st, change=kind)
                    else:
                        world.violate('C08.settle_abort', what='not_aborted', state=st, expected=sorted(required),
                                      change=kind, permitted_for=permitted_for(user, target))
                elif reason not in allowed:
                    if E.REQUESTED in required:
                        world.violate('C08.requested_kept', state=st, reason=reason, change=kind)
                    else:
                        world.violate('C08.settle_abort', what='reason', got=reason, expected=sorted(required),
                                      change=kind)
                else:
                    world.probe('settled_aborted_' + str(reason).replace(' ', '_'))
            elif st == 'ABORTED':
                if reason in allowed:
                    world.probe('settled_aborted_path_not_current')
                elif span_class(user, target, False) == 'under_1s' and kind != 'final' and not rec.get('requeue_deferred'):
                    # a prohibition that came and went between two looks at the settings emits no event: it is the periodic
                    # evaluation that puts the upload back, at the latest one evaluation period (5 s) plus one idle wait of
                    # the management (5 s) after the last evaluation - looked at again 4 s from now
                    rec['requeue_deferred'] = True
                    n_now = chg['n']

                    def again(tr=tr, reason=reason, kind=kind, user=user, target=target, n_now=n_now):
                        if chg['n'] == n_now and tr in tm.transfers and tr.state.VALUE.name == 'ABORTED' \
                                and tr.abort_reason == reason:
                            world.violate('C08.settle_requeue', reason=reason, change=kind, forbidden_for='under_1s')
                    loop.call_later(4.0, again)
                    world.probe('settle_requeue_looked_at_again_later')
                else:
                    world.violate('C08.settle_requeue', reason=reason, change=kind,
                                  forbidden_for=span_class(user, target, False))
            else:
                world.probe('settled_unfinished_' + st)

    def mark_change(kind):
        chg['n'] += 1
        chg['t'] = loop.time()
        chg['kind'] = kind
        n = chg['n']
        world.net.fired['config_' + kind] += 1

        def due():
            if chg['n'] == n:
                world.probe('settle_evaluated')
                evaluate(kind)
        loop.call_at(loop.time() + SETTLE, due)

    # ------------------------------------------------------------------ steps
    async def sync_call(label, fn):
        async def wrapper():
            return fn()
        call = world.call(alice, label, wrapper)
        await call.task
        return call

    pending_scans = []

    async def join_scans():
        while pending_scans:
            c = pending_scans.pop()
            await c.task

    async def do_scan(label, overlap=False):
        if overlap:
            # the scan is left running on the (slow) executor while the next steps change the configuration; the
            # reference index is only brought up to date by the next awaited scan
            world.net.fired['change_during_scan'] += 1
            pending_scans.append(world.call(alice, label, shares.scan))
            return
        await join_scans()
        call = world.call(alice, label, shares.scan)
        await call.task
        if call.outcome() != 'returned':
            raise RuntimeError(f'scan failed: {call.exception!r}')
        index.scanned_all()
        push()

    def cls(user):
        return classes.get(user, '?')

    def fire_search(step):
        user, carrier, query = step['user'], step.get('carrier', 'server'), step.get('query', 'song')
        ticket = int(step.get('ticket', 1)) & 0xFFFFFFFF
        while ticket in searches:
            ticket = (ticket + 7919) & 0xFFFFFFFF
        rec = {'user': user, 'carrier': carrier, 'query': query, 't': loop.time(), 'ticket': ticket}
        if carrier == 'server':
            ok = server.send_to('alice', M.ServerSearchRequest.Response(
                distributed_code=3, unknown=0x31, username=user, ticket=ticket, query=query))
        elif carrier == 'file':
            ok = server.send_to('alice', M.FileSearch.Response(user, ticket, query))
        else:
            link = parent_link()
            ok = link is not None
            if link is None:
                world.probe('distributed_search_without_parent')
            elif carrier == 'dist':
                link.send(M.DistributedSearchRequest.Request(unknown=0x31, username=user, ticket=ticket, query=query))
            else:
                link.send(M.DistributedServerSearchRequest.Request(
                    distributed_code=3, unknown=0x31, username=user, ticket=ticket, query=query))
        if not ok:
            return
        searches[ticket] = rec
        cur = timeline.current
        if E.is_blocked(cur, user, E.SEARCHES):
            nt['withheld'] = True
        sig_steps.append(('search', cls(user), carrier))
        world.trace('search', user, carrier, ticket, query)

    def dir_owner(d_abs):
        best = None
        for s in index.shared:
            if (d_abs == s or d_abs.startswith(s + os.sep)) and (best is None or len(s) > len(best)):
                best = s
        return best

    def fire_listing(step):
        user = step['user']
        xp = xpeers[user]
        kind = step['op']
        rec = {'kind': kind, 'user': user, 't': None}
        if kind == 'dir':
            d_abs = P(step.get('dir') or [])
            form = step.get('form', 'exact')
            owner = dir_owner(d_abs)
            if form == 'parent_alias' and owner is not None and outer_of(owner) is not None:
                owner = outer_of(owner)
            if owner is None:
                comps = step.get('dir') or ['pub']
                owner = P(comps[:1])
                if not (d_abs == owner or d_abs.startswith(owner + os.sep)):
                    owner = d_abs
            rel = os.path.relpath(d_abs, owner)
            name = '@@' + alias(owner) + ('' if rel == '.' else '\\' + _bs(rel))
            if form == 'case' and '\\' in name:
                head, tail = name.split('\\', 1)
                name = head + '\\' + tail.swapcase()
            if form == 'sep_trail':
                name = name + '\\'
            elif form == 'sep_double':
                name = name.replace('\\', '\\\\', 1) if '\\' in name else name + '\\\\'
            elif form == 'sep_mixed':
                name = name.replace('\\', '/') if '\\' in name else name + '/'
            rec['name'] = name
            if any(E.locked(timeline.current, user, f) for f in files if os.path.dirname(f) == d_abs):
                nt['locked'] = True
            message = M.PeerDirectoryContentsRequest.Request(xp._next_ticket(), name)
            sig_steps.append(('dir', cls(user), form, index.shared.get(dir_owner(d_abs), {}).get('mode')))
        else:
            message = M.PeerSharesRequest.Request()
            sig_steps.append(('shares', cls(user)))

        async def script():
            try:
                link = await xp.peer.connect_direct(alice.host.ip, 60000, 'P', ticket=xp._next_ticket())
            except OSError:
                world.probe('listing_connect_failed')
                return
            keep.append(link)
            rec['t'] = loop.time()
            reqs_by_conn[link.writer.transport.conn.id] = rec
            xp.send(link, message)
            world.trace('listing', kind, user, rec.get('name'))
            await xp._p_loop(link)
        xp.peer.spawn(script())

    def fire_queue(step):
        user = step['user']
        xp = xpeers[user]
        f_abs = P(step.get('file') or [])
        variant = step.get('variant', 'exact')
        via = step.get('via', 'queue')
        if f_abs not in files:
            variant = 'unknown'
        owner = index.owner_of(f_abs) or last_owner.get(f_abs) or P((step.get('file') or ['pub'])[:1])
        if not (f_abs.startswith(owner + os.sep)):
            owner = os.path.dirname(f_abs)
        canon = '@@' + alias(owner) + '\\' + _bs(os.path.relpath(f_abs, owner))
        target = f_abs if f_abs in files else None
        others = sorted(d for d in index.shared if d != owner)
        path = canon
        if variant == 'case':
            head, tail = canon.split('\\', 1)
            path = head + '\\' + tail.swapcase()
        elif variant == 'sep_double':
            path = canon.replace('\\', '\\\\', 1)
        elif variant == 'sep_mixed':
            path = canon.replace('\\', '/')
        elif variant == 'sep_trail':
            path = canon + '\\'
        elif variant == 'parent_alias':
            outer = outer_of(owner) if owner in index.shared else None
            if outer is not None:
                path = '@@' + alias(outer) + '\\' + _bs(os.path.relpath(f_abs, outer))
            else:
                variant = 'exact'
        elif variant == 'other_alias':
            base = others[0] if others else owner
            path = '@@' + alias(base) + '\\' + _bs(os.path.relpath(f_abs, owner)) + ('' if others else '.x')
            target = resolve(path)
        elif variant == 'dotdot':
            base = others[0] if others else owner
            path = '@@' + alias(base) + '\\..\\' + _bs(os.path.relpath(f_abs, os.path.dirname(base)))
            target = None
        elif variant == 'unknown':
            path = '@@' + alias(owner) + '\\no such file.mp3'
            target = None
        path_targets.setdefault(path, target)
        target = path_targets[path]
        if path not in xp.downloads:
            xp.want(path, **dict(plan.get('dl', {}).get(user, {})))
        requests.append({'user': user, 'path': path, 'target': target, 'variant': variant, 'via': via, 't': loop.time()})
        xp.peer.spawn(xp.request_file(path, via=via))
        cur = timeline.current
        ok = E.may_upload(cur, user, target)
        if not ok:
            nt['refused'] = True
        sig_steps.append(('queue', cls(user), variant, via, E.mode_of(cur, target), ok))
        world.trace('queue', user, via, variant, path)

    def pick_upload(user, states):
        for rec in uploads:
            tr = rec['transfer']
            if rec['user'] == user and rec['abort_call'] is None and tr in tm.transfers \
                    and tr.state.VALUE.name in states:
                return rec
        return None

    async def fire(step):
        op = step.get('op')
        user = step.get('user')
        if user is not None and user not in xpeers:
            return
        if op == 'search':
            fire_search(step)
        elif op in ('shares', 'dir'):
            fire_listing(step)
        elif op == 'queue':
            fire_queue(step)
        elif op == 'friend':
            fr = set(settings.users.friends)
            before = set(fr)
            (fr.add if step.get('value') else fr.discard)(user)
            if fr != before:
                if plan.get('inplace'):
                    (settings.users.friends.add if step.get('value') else settings.users.friends.discard)(user)
                else:
                    settings.users.friends = fr
                state['friends'] = set(fr)
                push()
                mark_change('friend')
            sig_steps.append(('friend', cls(user), bool(step.get('value')), fr != before))
        elif op == 'block':
            value = E.flags_value(step.get('flags') or [])
            bl = dict(settings.users.blocked)
            before = int(bl.get(user, 0))
            if value:
                bl[user] = BlockingFlag(value)
            else:
                bl.pop(user, None)
            if value != before:
                if not plan.get('inplace'):
                    settings.users.blocked = bl
                elif value:
                    settings.users.blocked[user] = BlockingFlag(value)
                else:
                    del settings.users.blocked[user]
                if value:
                    state['blocked'][user] = value
                else:
                    state['blocked'].pop(user, None)
                push()
                mark_change('block')
            sig_steps.append(('block', cls(user), before, value))
        elif op == 'update':
            path = P(step.get('dir') or [])
            if index.is_shared(path):
                mode = step.get('mode', 'everyone')
                users = list(step.get('users', []))
                call = await sync_call('update', lambda: shares.update_shared_directory(
                    path, share_mode=DirectoryShareMode(mode), users=users))
                if call.outcome() != 'returned':
                    raise RuntimeError(f'update_shared_directory failed: {call.exception!r}')
                old = index.shared[path]['mode']
                index.update(path, mode, users)
                push()
                mark_change('update')
                sig_steps.append(('update', old, mode, bool(users)))
        elif op == 'add':
            path = P(step.get('dir') or [])
            if not index.is_shared(path) and path != root:
                mode = step.get('mode', 'everyone')
                users = list(step.get('users', []))
                relation = index.relation(path)
                call = await sync_call('add', lambda: shares.add_shared_directory(
                    path, share_mode=DirectoryShareMode(mode), users=users))
                if call.outcome() != 'returned':
                    raise RuntimeError(f'add_shared_directory failed: {call.exception!r}')
                alias(path)
                index.add(path, mode, users)
                push()
                mark_change('add')
                if step.get('scan'):
                    await do_scan('scan-after-add')
                    mark_change('rescan')
                sig_steps.append(('add', relation, mode, bool(step.get('scan'))))
        elif op == 'remove':
            path = P(step.get('dir') or [])
            if index.is_shared(path):
                relation = index.relation(path)
                for f in files:
                    if index.owner_of(f) == path:
                        last_owner[f] = path
                call = await sync_call('remove', lambda: shares.remove_shared_directory(path) and None)
                if call.outcome() != 'returned':
                    raise RuntimeError(f'remove_shared_directory failed: {call.exception!r}')
                index.remove(path)
                push()
                mark_change('remove')
                sig_steps.append(('remove', relation))
        elif op == 'rescan':
            gone = P(step['delete']) if step.get('delete') else None
            deleted = False
            if gone is not None and gone in files and os.path.isfile(gone):
                os.unlink(gone)
                deleted = True
                world.disk.fired['file_deleted'] += 1
            await do_scan('rescan', overlap=bool(step.get('overlap')))
            mark_change('rescan')
            sig_steps.append(('rescan', deleted, bool(step.get('overlap'))))
        elif op == 'phrases':
            server.send_to('alice', M.ExcludedSearchPhrases.Response(list(step.get('list', []))))
            sig_steps.append(('phrases', tuple(sorted(E.case_class(p) for p in step.get('list', [])))))
        elif op == 'abort':
            rec = pick_upload(user, ('QUEUED', 'INITIALIZING', 'UPLOADING', 'PAUSED'))
            if rec is not None:
                world.net.fired['user_abort'] += 1
                sig_steps.append(('abort', rec['transfer'].state.VALUE.name))
                rec['abort_call'] = world.call(alice, 'abort', tm.abort, rec['transfer'])
        elif op == 'pause':
            rec = pick_upload(user, ('QUEUED', 'INITIALIZING', 'UPLOADING'))
            if rec is not None:
                world.net.fired['user_pause'] += 1
                sig_steps.append(('pause', rec['transfer'].state.VALUE.name))
                world.call(alice, 'pause', tm.pause, rec['transfer'])
        world.trace('step', op)

    held_items = []

    async def main():
        await world.start_client(alice)
        await do_scan('scan')
        if plan.get('hold_items'):
            # the application keeps the item objects it has seen (results of earlier queries, the items of the shared
            # directories): items that the library only holds weakly stay alive
            for d in alice.client.shares.shared_directories:
                held_items.extend(list(d.items))
            world.disk.fired['application_keeps_shared_items'] += 1
        if plan.get('parent'):
            server.send_to('alice', M.PotentialParents.Response(
                [PotentialParent(PARENT, parent.host.ip, parent.port)]))
        await asyncio.sleep(1.0)
        if plan.get('busy'):
            # a busy client: the server announces the status of some user every so often, which keeps the transfer
            # manager from ever being idle
            async def chatter():
                k = 0
                while True:
                    await asyncio.sleep(float(plan['busy']))
                    k += 1
                    world.net.fired['status_chatter'] += 1
                    server.send_to('alice', M.GetUserStatus.Response('zz-somebody', 1 + k % 2, False))
            chatter_task = asyncio.ensure_future(chatter())
            world.keep_alive.append(chatter_task)
        for step in plan.get('steps', []):
            gap = float(step.get('gap', 0.0))
            if gap > 0:
                await asyncio.sleep(gap)
            await fire(step)
        if pending_scans:
            await do_scan('rescan-at-end')
            mark_change('rescan')
        await asyncio.sleep(SETTLE + 5.0)
        world.probe('final_evaluation')
        evaluate('final')
        if plan.get('busy'):
            chatter_task.cancel()

    world.run(main())

    # ------------------------------------------------------------------ oracle over what alice wrote
    def why(cfgs, user, target):
        if target is None:
            return 'unshared_path'
        if all(E.is_blocked(c, user, E.UPLOADS) for c in cfgs):
            return 'blocked'
        lk = [E.locked(c, user, target) for c in cfgs]
        if all(x is True for x in lk):
            return 'locked'
        if all(x is None for x in lk):
            return 'unshared_path'
        return 'mixed'

    def judge_listed(kind, named, user, remote, cfgs):
        f = resolve(remote)
        if f is None:
            world.probe('listed_path_not_in_plan')
            return
        if any(E.may_list(c, user, f) for c in cfgs):
            return
        locked_in = [c for c in cfgs if E.locked(c, user, f) is True]
        if not locked_in:
            world.probe('stale_listing')        # not inside any shared directory: C07's clause
            return
        owner = E.owner_of(locked_in[-1], f)
        world.violate('C08.visible', kind=kind, mode=E.mode_of(locked_in[-1], f), named=named,
                      nested=any(owner != d and owner.startswith(d + os.sep) for d in locked_in[-1]['dirs']),
                      changed=len(cfgs) > 1)

    tickets = {}
    f_writes = {}
    sig_obs = []
    for rec in wire.out:
        msg = rec.get('msg')
        t = rec['t']
        peer = rec['peer']
        if isinstance(msg, M.PeerSearchReply.Request):
            s = searches.get(msg.ticket)
            if s is None:
                world.probe('search_reply_unknown_ticket')
                continue
            user = s['user']
            if peer != user:
                world.probe('search_reply_other_recipient')
            cfgs = timeline.in_force(s['t'], t)
            if all(E.is_blocked(c, user, E.SEARCHES) for c in cfgs):
                world.violate('C08.excluded', what='blocked_user', carrier=s['carrier'])
            locked_list = list(msg.locked_results or [])
            for where, lst in (('visible', msg.results), ('locked', locked_list)):
                for fd in lst:
                    hits = [E.excluded_by(c, _below_alias(fd.filename)) for c in cfgs]
                    if all(h is not None for h in hits):
                        world.violate('C08.excluded', what='phrase', case=E.case_class(hits[-1]), where=where)
            for fd in msg.results:
                judge_listed('search', False, user, fd.filename, cfgs)
            if locked_list:
                nt['locked'] = True
                world.probe('locked_results_sent')
            if any(c['excluded'] for c in cfgs):
                nt['excluded'] = True
            sig_obs.append(('search', cls(user), s['carrier'], bool(msg.results), bool(locked_list)))
            world.trace('obs_search', user, msg.ticket, len(msg.results), len(locked_list))
        elif isinstance(msg, (M.PeerSharesReply.Request, M.PeerDirectoryContentsReply.Request)):
            req = reqs_by_conn.get(rec['conn'])
            kind = 'shares' if isinstance(msg, M.PeerSharesReply.Request) else 'dircontents'
            if req is None or req['t'] is None or (req['kind'] == 'shares') != (kind == 'shares'):
                world.probe('listing_reply_unmatched')
                continue
            user = req['user']
            cfgs = timeline.in_force(req['t'], t)
            if all(E.is_blocked(c, user, E.SHARES) for c in cfgs):
                world.probe('listing_reply_to_shares_blocked_user')
            nfiles = 0
            for d in msg.directories:
                for fd in d.files:
                    nfiles += 1
                    judge_listed(kind, kind == 'dircontents', user, d.name + '\\' + fd.filename, cfgs)
            nlocked = 0
            if kind == 'shares':
                nlocked = sum(len(d.files) for d in (msg.locked_directories or []))
                if nlocked:
                    nt['locked'] = True
                    world.probe('locked_directories_sent')
            sig_obs.append((kind, cls(user), nfiles > 0, nlocked > 0))
            world.trace('obs_listing', kind, user, nfiles, nlocked)
        elif isinstance(msg, M.PeerTransferRequest.Request) and msg.direction == 1:
            tickets[(peer, msg.ticket)] = msg.filename
        elif isinstance(msg, M.PeerTransferQueueFailed.Request):
            world.probe('queue_failed_sent')
        elif isinstance(msg, M.PeerTransferReply.Request) and not msg.allowed:
            world.probe('transfer_reply_refused_' + str(msg.reason).replace(' ', '_').replace('.', ''))
        elif rec.get('typ') == 'F' and 'raw' in rec:
            f_writes.setdefault(rec['conn'], []).append(rec)

    for rec in uploads:
        user, path, t = rec['user'], rec['path'], rec['t']
        cands = [r for r in requests if r['user'] == user and r['path'] == path and t - REQ_WINDOW <= r['t'] <= t]
        start = min(r['t'] for r in cands) if cands else t - REQ_WINDOW
        first = min(cands, key=lambda r: r['t']) if cands else {}
        target = path_targets[path] if path in path_targets else resolve(path)
        cfgs = timeline.in_force(start, t)
        world.probe('upload_created')
        if not cands:
            world.probe('upload_created_without_request')
        if not any(E.may_upload(c, user, target) for c in cfgs):
            w = why(cfgs, user, target)
            world.violate('C08.upload_created', why=w, variant=first.get('variant'), via=first.get('via'),
                          mode=E.mode_of(cfgs[-1], target), changed=len(cfgs) > 1)
        elif first.get('variant') not in (None, 'exact'):
            world.probe('upload_created_for_variant_' + first['variant'])
        sig_obs.append(('upload', cls(user), first.get('variant'), first.get('via')))

    for conn_id, writes in sorted(f_writes.items()):
        head = writes[0]
        peer = head['peer']
        if len(head['raw']) != 4:
            world.probe('file_connection_without_ticket')
            continue
        (ticket,) = struct.unpack('<I', head['raw'])
        path = tickets.get((peer, ticket))
        if path is None:
            world.probe('file_connection_unknown_ticket')
            continue
        target = path_targets[path] if path in path_targets else resolve(path)
        served = 0
        for w in writes[1:]:
            served += len(w['raw'])
            cfgs = timeline.in_force(w['t'] - SETTLE, w['t'])
            if not any(E.may_upload(c, peer, target) for c in cfgs):
                world.violate('C08.bytes_served', why=why(cfgs, peer, target), mode=E.mode_of(cfgs[-1], target),
                              permitted_for=permitted_for(peer, target, w['t']))
                break
        if served:
            world.probe('file_bytes_served')
        world.trace('obs_bytes', peer, path, served)

    for xp in xpeers.values():
        for dl in xp.downloads.values():
            if dl.failed_msgs:
                world.probe('queue_failed_received')
    for rec in loop.exc_contexts:
        world.probe('loop_exception_handler:' + str(rec.get('exc_type')))
    for key, val in nt.items():
        if val:
            world.probe('nontrivial_' + key)
    nontrivial = any(nt.values())
    sig = [sorted(classes.values()), sorted((tuple(e['dir']), e.get('mode')) for e in initial), sig_steps,
           sorted(set(sig_obs)), sorted(set(settle_log)), plan.get('slots')]
    return common.finish(world, nontrivial, sig)

INFO['rule'] += ' Round-5 additions: a client kept busy by status announcements every 0.5..4 s (busy), combined with a block / friend change that is taken back between two polls of the settings.'

INFO['rule'] += ' Round-6 additions: the application keeps the item objects of the shared directories (hold_items).'
