"""C09 - peer-chosen names never escape the download directory or clobber a file; two active
downloads never share a local path.

World (W-xfer): one real client ('alice') logged in to the scripted server and 1..3 scripted
uploaders (sim/xfer.py), one download per uploader.  The plan holds, per download, the remote
path (benign and equally named for the schedule half, built from the quantifier's adversarial
components for the input half), its size and the instants of every start-up step (start offset,
the uploader's queue_delay / f_delay / chunk_delay); the executor delays (range + 'slow' rules for
the exists / makedirs / open jobs) that set the width of the check-then-create window; the
pre-existing contents of the download directory; and the strategy chain (the library default, or any
ordered subset of the three shipped strategies set through the public ``client.shares.naming_strategies``).
Facts carry ``dedupe`` (number-duplicates runs last, after the default strategy) and ``default`` (a
name-giving strategy is in the chain) so that verdicts about chains that cannot keep the promise by
construction are told apart from defects of the strategies and of the transfer manager.

Oracle (property text only):
 * after every loop iteration the local paths of alice's downloads in INITIALIZING / DOWNLOADING
   are pairwise distinct (C09.same_path); a COMPLETE file equals its own source (a mismatch is the
   same clause seen at the effect level: what='content mixed');
 * at the moment a download's ``local_path`` changes to a new value the path is strictly inside
   the configured download directory after realpath (C09.escape), its last component is none of
   '', '.', '..' (C09.bad_name) and it did not exist at the end of the previous loop iteration
   (C09.exists);
 * a before/after snapshot of the whole sandbox shows nothing created or modified outside the
   download directory (C09.outside_write).
The input-only half (the naming functions on a fixed directory) is *sampled* along these runs
(the downloads' own remote paths plus up to 8 extra remote paths per run that are passed to the
public ``shares.calculate_download_path`` once the downloads are over) - it is not decided.
"""
from __future__ import annotations

import asyncio
import os

from aioslsk.naming import DefaultNamingStrategy, KeepDirectoryStrategy, NumberDuplicateStrategy
from aioslsk.transfer.model import TransferDirection

from sim.world import World
from sim.xfer import XferPeer, pattern_bytes
from . import common

PROPERTY = 'C09'
INFO = {
    'level': 'exploration',
    'rule': ('plans = 1..3 downloads from different scripted uploaders x remote paths (schedule half: equally named files in '
             'benign directories; input half: paths built from "..", ".", "", "@@alias", drive letters, mixed / repeated \\ and / '
             'separators, leading / trailing separators, an absolute path into the sandbox, long, non-ASCII and regex-special '
             'names) x start-up timing (start offset, queue_delay, f_delay, chunk_delay per uploader, five latency regimes) x '
             'executor delays (range + slow rules on the exists / makedirs / open jobs, i.e. the width of the check-then-create '
             'window) x pre-existing download-directory contents (name, numbered names with gaps, look-alikes, a directory with '
             'the name, entries in the kept sub-directory; <= 12) x strategy chain (the library default left untouched, or one of '
             'the 15 ordered non-empty subsets of default / keep-directory / number-duplicates set through '
             'client.shares.naming_strategies; sound chains weighted). The product chain x input class x {empty, name taken} '
             'is enumerated in the corpus. non-trivial = a download chose its path while another chosen path was not created '
             'yet, or a duplicate number was applied, or an adversarial component was present; distinct = signature over (chain, '
             'per-download input class and outcome class, window overlap, pre-existing classes, violations). '
             'The input-only half of the property (naming functions on a fixed directory) is SAMPLED along these runs, not decided.'),
    'real': common.REAL,
    'stub': common.STUB,
    'assumptions': [
        'existence "when chosen" is judged on a listing of the sandbox as it was at the end of the previous loop iteration (the '
        'choice is observed after the iteration in which Transfer.local_path changed); the listing is refreshed after every '
        'iteration in which an executor job ran, a path was chosen or a transfer appeared, and every 8 iterations while a '
        'download still has to choose - a stale listing can only miss an existing entry, and then the effect-level clauses '
        '(content of COMPLETE files, pre-existing files unchanged, nothing outside) still see it; an entry created during the '
        'run counts only when it is the chosen path (or an ancestor of it) of ANOTHER download - an entry nobody else owns is '
        'taken to be the chooser\'s own reservation',
        'two local paths are "the same" when their realpath is equal (no symbolic links are planted in the sandbox)',
        '"active" = state INITIALIZING or DOWNLOADING',
        'a download that reached the offset step of its file connection and then hangs in a non-terminal state without a local '
        'path (the naming raised) is reported as C09.bad_name with name=None; a download that ends FAILED without a path was '
        'refused and satisfies the statement; an exception from a direct calculate_download_path call is a refusal as well',
        'remote paths never start with "/" (except the planted absolute path into the sandbox), never contain "\\\\/" and hold at '
        'most 3 ".." components: a naming defect must not be able to write outside the sandbox of the run; NUL characters and '
        'symbolic links in the download directory are not generated',
        'uploaders are honest (sim/xfer.py), no network faults: a content mismatch of a COMPLETE file is attributed to the path',
    ],
}

PEERS = ('bob', 'carol', 'dave')
LEVELS = ('l1', 'l2', 'l3')            # download directory = <sandbox>/alice/l1/l2/l3/downloads
ABS_LEVELS = ('abs', 'p1', 'p2', 'p3')   # '{ABS}' in a remote path = <sandbox>/abs/p1/p2/p3
ABS = '{ABS}'
MAX_DOTDOT = 3
HORIZON = 120.0
STRATEGIES = {'D': DefaultNamingStrategy, 'K': KeepDirectoryStrategy, 'N': NumberDuplicateStrategy}
CHAINS = [list(c) for c in ('D', 'K', 'N', 'DK', 'KD', 'DN', 'ND', 'KN', 'NK',
                             'DKN', 'DNK', 'KDN', 'KND', 'NDK', 'NKD')]
SOUND = [list(c) for c in ('DN', 'DKN', 'KDN')]
JOBS = {'exists': 'genericpath.exists', 'makedirs': 'makedirs', 'open': 'open'}
ACTIVE = ('INITIALIZING', 'DOWNLOADING')
TERMINAL = ('COMPLETE', 'FAILED', 'ABORTED')
SIZES = (0, 1, 3000, 3000, 20000)
FLAT = {'base_ms': 5, 'jitter_ms': 0, 'segmentation': 'whole', 'coalesce': True}

LONG_OK = 'L' * 180 + '.mp3'
LONG_BAD = 'X' * 300 + '.mp3'
# names around the longest file name the file system takes (255 bytes): they fit, their numbered duplicates may not
LONG_EDGE = tuple('E' * (n - 4) + '.mp3' for n in (250, 251, 252, 253, 254, 255)) + ('\u00f6' * 125 + '.mp3',)
NAMES = LONG_EDGE + ('song.mp3', 'song.mp3', 'song.mp3', 'track 01.flac', 'c++.mp3', 'song [live] (2).mp3', 'what? (x|y).mp3', 'noext',
         '.hidden', 'a.b.tar.gz', 's\u00f6ng \u2713 \u66f2.mp3', LONG_OK, LONG_BAD, 'song (1).mp3', ' (1)', 'name.', 'name ', '^$.mp3')
ODD = ('..', '..', '.', '.', '...', ' ', '. ', '.. ', '~', 'CON', '%2e%2e', '@@alias', '@@', 'C:', 'c:', 'Z:evil', '@@..', '')
DIRS = ('music', 'music', 'Music', 'album (2001)', 'a b', 's\u00f6ng dir', 'D' * 200, 'music.', 'stuff')
BENIGN_PREFIX = (['@@{peer}', 'music'], ['@@{peer}', 'music'], ['@@{peer}'], ['C:', 'stuff', 'music'], ['music'], [],
                 ['@@{peer}', 'a', 'b', 'music'], ['d:', 'Music'], ['@@{peer}', 'album (2001)'])
SEPS = ('\\', '\\', '\\', '/', '\\\\', '//', '/\\', '\\\\\\')
LEADS = ('', '', '', '\\', '\\\\', ABS + '/', '@@{peer}\\')
TRAILS = ('', '', '', '\\', '/', '\\\\', '//')


# ----------------------------------------------------------------------------- specification helpers

def spec_components(remote: str) -> list:
    """Components of a remote path as the property's quantifier builds them: separated by runs of
    backslashes and slashes, empty ones do not count."""
    out, cur = [], []
    for ch in remote:
        if ch in '\\/':
            if cur:
                out.append(''.join(cur))
                cur = []
        else:
            cur.append(ch)
    if cur:
        out.append(''.join(cur))
    return out


def comp_class(comp, last=False):
    if comp is None:
        return 'none'
    if comp in ('.', '..'):
        return comp
    if last:
        return 'normal'
    if comp.startswith('@@'):
        return 'alias'
    if len(comp) >= 2 and comp[1] == ':' and comp[0].isascii() and comp[0].isalpha():
        return 'drive'
    return 'normal'


def input_class(remote: str) -> dict:
    comps = spec_components(remote)
    return {'last': comp_class(comps[-1] if comps else None, last=True),
            'parent': comp_class(comps[-2] if len(comps) > 1 else None)}


def chain_facts(chain) -> dict:
    """default: a name-giving strategy is present; dedupe: number-duplicates runs last, after it."""
    default = 'D' in chain
    return {'default': default, 'dedupe': bool(default and chain and chain[-1] == 'N')}


def adversarial(remote: str) -> bool:
    comps = spec_components(remote)
    raw = remote.replace(ABS, '')
    return (any(c in ('.', '..', '...') or c.startswith('@@') and i > 0 or (len(c) > 1 and c[1] == ':' and i > 0)
                for i, c in enumerate(comps))
            or not comps or remote.startswith(ABS) or raw[:1] in ('\\', '/') or raw[-1:] in ('\\', '/')
            or '\\\\' in raw or '//' in raw or ('/' in raw and '\\' in raw) or len(comps[-1]) > 150 or not comps[-1].isascii())


def safe_remote(remote: str) -> bool:
    """A naming defect handed this path must not be able to leave the sandbox of the run."""
    if not isinstance(remote, str) or len(remote) > 4000 or '\x00' in remote:
        return False
    body = remote[len(ABS):] if remote.startswith(ABS) else remote
    if ABS in body:
        return False
    if not remote.startswith(ABS) and remote.startswith('/'):
        return False
    if '\\/' in remote:
        return False
    return sum(1 for c in spec_components(remote) if c.strip() == '..') <= MAX_DOTDOT


def make_safe(remote: str) -> str:
    """Generator side of safe_remote: no leading '/', no '/' right after a backslash (either would be an absolute path for
    a splitter that only knows one separator), at most MAX_DOTDOT '..' components (the last ones are kept)."""
    if remote.startswith('/'):
        remote = '\\' + remote[1:]
    while '\\/' in remote:
        remote = remote.replace('\\/', '\\\\')
    pieces, cur = [], ''
    for ch in remote:
        if ch in '\\/':
            if cur:
                pieces.append(cur)
                cur = ''
            pieces.append(ch)
        else:
            cur += ch
    if cur:
        pieces.append(cur)
    seen = 0
    for i in range(len(pieces) - 1, -1, -1):
        if pieces[i].strip() == '..':
            seen += 1
            if seen > MAX_DOTDOT:
                pieces[i] = 'dd'
    return ''.join(pieces)


def safe_rel(rel: str) -> bool:
    """Pre-existing entries: plain relative paths below the download directory."""
    if not isinstance(rel, str) or not rel or rel.startswith('/') or '\x00' in rel:
        return False
    return all(p not in ('', '.', '..') for p in rel.split('/'))


# ----------------------------------------------------------------------------- generator

def build_remote(rng, comps, lead='', trail='', seps=SEPS, peer='bob'):
    s = lead
    for i, c in enumerate(comps):
        if i:
            s += rng.choice(seps)
        s += c
    s += trail
    return make_safe(s.replace('{peer}', peer))


def adversarial_remote(rng, peer, last=None):
    n = rng.choice([0, 1, 1, 2, 2, 3, 4])
    comps = []
    for _ in range(n):
        r = rng.random()
        comps.append(rng.choice(ODD) if r < 0.55 else rng.choice(DIRS))
    if last is None:
        r = rng.random()
        last = rng.choice(ODD) if r < 0.4 else rng.choice(NAMES)
    if last != '' or rng.random() < 0.5:
        comps.append(last)
    if rng.random() < 0.06:
        comps = []
    lead = rng.choice(LEADS)
    trail = rng.choice(TRAILS)
    return build_remote(rng, comps, lead, trail, SEPS, peer)


def split_ext(name):
    i = name.rfind('.')
    if i <= 0:
        return name, ''
    return name[:i], name[i:]


def pre_candidates(last, parent):
    base = last if last not in (None, '', '.', '..') else 'x'
    stem, ext = split_ext(base)
    out = [(base, 'file'), (base, 'file'), (base, 'dir'),
           (f'{stem} (1){ext}', 'file'), (f'{stem} (1){ext}', 'file'), (f'{stem} (2){ext}', 'file'),
           (f'{stem} (3){ext}', 'file'), (f'{stem} (5){ext}', 'file'), (f'{stem} (1){ext}', 'dir'),
           (f'{stem} (1){ext}.bak', 'file'), (base.swapcase(), 'file'), (f'{stem.upper()} (1){ext.upper()}', 'file'),
           (f'{stem} (01){ext}', 'file'), (f'{stem} (1)', 'file'), (f'{stem}(1){ext}', 'file'),
           (f'x{stem} (1){ext}', 'file'), (f'{stem} (x){ext}', 'file'), (f'{stem} (\u0663){ext}', 'file'),
           (f'{stem} (0){ext}', 'file'), (f'{stem} (10){ext}', 'file'), ('.. (1)', 'file'), ('. (1)', 'file'), (' (1)', 'file')]
    if parent not in (None, '', '.', '..') and '/' not in parent:
        out += [(f'{parent}/{base}', 'file'), (f'{parent}/{base}', 'file'), (f'{parent}/{stem} (1){ext}', 'file'),
                (parent, 'file'), (parent, 'dir')]
    return out


def draw_pre(rng, downloads):
    pre = []
    seen = set()
    r = rng.random()
    count = 0 if r < 0.2 else rng.randint(1, 4) if r < 0.7 else rng.randint(5, 12)
    pools = []
    for d in downloads:
        comps = spec_components(d['remote'])
        pools.append(pre_candidates(comps[-1] if comps else None, comps[-2] if len(comps) > 1 else None))
    dense = rng.random() < 0.1
    if dense and pools:
        comps = spec_components(downloads[0]['remote'])
        base = comps[-1] if comps and comps[-1] not in ('.', '..') else 'x'
        stem, ext = split_ext(base)
        cands = [(base, 'file')] + [(f'{stem} ({i}){ext}', 'file') for i in range(1, 12)]
        for path, kind in cands[:12]:
            pre.append({'path': path, 'kind': kind, 'size': 3})
        return pre
    for _ in range(count * 3):
        if len(pre) >= count:
            break
        path, kind = rng.choice(rng.choice(pools))
        if not safe_rel(path) or path in seen or any(p['path'].startswith(path + '/') or path.startswith(p['path'] + '/')
                                                     and p['kind'] == 'file' for p in pre):
            continue
        seen.add(path)
        pre.append({'path': path, 'kind': kind, 'size': rng.choice([0, 3, 700])})
    return pre


def draw_chain(rng):
    r = rng.random()
    if r < 0.2:
        return None         # the library's default chain, untouched
    return list(rng.choice(SOUND)) if r < 0.65 else list(rng.choice(CHAINS))


def draw_timing(rng, n):
    """[(at, queue_delay, f_delay, chunk_delay)] per download."""
    tight = rng.random() < 0.55
    base_q = rng.choice([0.0, 0.05, 0.05, 1.0])
    base_f = rng.choice([0.0, 0.0, 0.02, 0.5])
    chunk_delay = rng.choice([0.0, 0.005, 0.05])
    out = []
    for i in range(n):
        if tight:
            at = 0.0 if rng.random() < 0.6 else rng.choice([0.0005, 0.001, 0.002, 0.005, 0.01, 0.02, 0.05])
            out.append((at, base_q, base_f, chunk_delay))
        else:
            out.append((round(rng.choice([0.0, 0.01, 0.1, 0.5, 2.0]) + rng.random() * 0.02, 4),
                        rng.choice([0.0, 0.05, 0.3, 1.0]), rng.choice([0.0, 0.02, 0.2, 0.5]),
                        rng.choice([0.0, 0.005, 0.05])))
    return out


def draw_exec(rng):
    delay = rng.choice([[0, 0], [0, 1], [0, 1], [0, 5], [0, 50], [20, 200]])
    slow = []
    for _ in range(rng.choice([0, 0, 1, 1, 2])):
        slow.append({'job': rng.choice(('exists', 'exists', 'open', 'open', 'makedirs')),
                     'nth': rng.choice([None, None, 1, 2, 3]), 'delay': rng.choice([0.01, 0.05, 0.5, 2.0])})
    return {'delay_ms': list(delay)}, slow


def generate(rng, index, tier):
    r = rng.random()
    focus = 'schedule' if r < 0.5 else 'input' if r < 0.8 else 'both'
    chain = draw_chain(rng)
    n = rng.choice([2, 2, 3]) if focus != 'input' else rng.choice([1, 2, 2, 3])
    peers = list(PEERS)
    rng.shuffle(peers)
    timing = draw_timing(rng, n)
    name = rng.choice(NAMES)
    odd_last = rng.choice(ODD)
    same_dir = rng.random() < 0.5
    prefix = rng.choice(BENIGN_PREFIX)
    downloads = []
    for i in range(n):
        peer = peers[i]
        if focus == 'schedule':
            pre = prefix if same_dir else rng.choice(BENIGN_PREFIX)
            remote = build_remote(rng, list(pre) + [name], seps=('\\', '\\', '\\', '/'), peer=peer)
        elif focus == 'input':
            remote = adversarial_remote(rng, peer)
        else:
            remote = adversarial_remote(rng, peer, last=name if rng.random() < 0.6 else odd_last)
        at, qd, fd, cd = timing[i]
        downloads.append({'id': i, 'peer': peer, 'remote': remote, 'size': rng.choice(SIZES), 'at': at,
                          'queue_delay': qd, 'f_delay': fd, 'chunk_delay': cd})
    if focus == 'schedule' and n >= 2 and rng.random() < 0.25:
        # the first file connection of one download is reset early; it retries while the others start / run
        victim = rng.randrange(n)
        downloads[victim]['first_reset'] = rng.choice([0, 0, 1, 500])
        downloads[victim]['queue_delay'] = rng.choice([0.3, 1.0, 2.0])
    execcfg, slow = draw_exec(rng)
    extra = []
    for _ in range(rng.choice([0, 2, 4, 8])):
        extra.append(adversarial_remote(rng, rng.choice(PEERS),
                                        last=rng.choice([None, None, name, odd_last])))
    plan = {
        'seed': rng.getrandbits(32),
        'net': dict(FLAT, base_ms=rng.choice([1, 5, 20])) if rng.random() < 0.5 else common.draw_net(rng),
        'exec': execcfg, 'slow': slow, 'chain': chain, 'downloads': downloads,
        'pre': draw_pre(rng, downloads), 'extra': extra,
    }
    if rng.random() < 0.08:
        plan['listdir_fault'] = True
    return plan


def base_plan(seed=1, **kw):
    plan = {'seed': seed, 'net': dict(FLAT), 'exec': {'delay_ms': [0, 1]}, 'slow': [], 'chain': ['D', 'N'],
            'downloads': [], 'pre': [], 'extra': []}
    plan.update(kw)
    return plan


def dl(i, remote, at=0.0, size=3000, qd=0.05, fd=0.0, cd=0.0):
    return {'id': i, 'peer': PEERS[i], 'remote': remote, 'size': size, 'at': at, 'queue_delay': qd, 'f_delay': fd,
            'chunk_delay': cd}


# input classes of the enumerated axis: (label, remote path for download i of user {peer})
INPUT_FORMS = (
    ('benign', '@@{peer}\\music\\song.mp3'),
    ('slashes', '@@{peer}/music/song.mp3'),
    ('mixed_repeated', '@@{peer}\\\\music//sub/\\song.mp3'),
    ('name_only', 'song.mp3'),
    ('alias_parent', '@@{peer}\\song.mp3'),
    ('drive_parent', 'C:\\song.mp3'),
    ('trailing_sep', '@@{peer}\\music\\song.mp3\\'),
    ('leading_sep', '\\\\music\\song.mp3'),
    ('absolute', ABS + '/music/song.mp3'),
    ('last_dotdot', '@@{peer}\\music\\..'),
    ('last_dot', '@@{peer}\\music\\.'),
    ('parent_dotdot', '@@{peer}\\..\\song.mp3'),
    ('parent_dot', '@@{peer}\\.\\song.mp3'),
    ('dotdot_chain', '..\\..\\..\\song.mp3'),
    ('slash_tail_dotdot', '@@{peer}\\music/../../song.mp3'),
    ('only_dotdot', '..'),
    ('only_seps', '\\\\//'),
    ('empty', ''),
    ('long', '@@{peer}\\music\\' + LONG_OK),
    ('too_long', '@@{peer}\\music\\' + LONG_BAD),
    ('non_ascii', '@@{peer}\\m\u00fcsic\\s\u00f6ng \u2713 \u66f2.mp3'),
    ('regex_special', '@@{peer}\\music\\c++ [x] (2).mp3'),
)


def _taken(remote):
    """Pre-existing entries that take the natural name (in the directory and in the kept sub-directory)."""
    comps = spec_components(remote.replace(ABS, 'abs'))
    last = comps[-1] if comps else None
    parent = comps[-2] if len(comps) > 1 else None
    if last in (None, '.', '..') or len(last) > 200:
        return [{'path': 'x', 'kind': 'file', 'size': 3}]
    out = [{'path': last, 'kind': 'file', 'size': 3}]
    if parent not in (None, '.', '..') and safe_rel(parent) and parent != last:
        out.append({'path': f'{parent}/{last}', 'kind': 'file', 'size': 3})
    return out


def corpus(tier):
    out = []
    song = '@@{peer}\\music\\song.mp3'
    # 1. the check-then-create window: second download placed at offsets around the first one's choice, for every
    #    sound chain, with the window widened by slow exists / open jobs
    for chain in [None] + SOUND:
        for slow in ([], [{'job': 'exists', 'nth': None, 'delay': 0.5}], [{'job': 'open', 'nth': None, 'delay': 0.5}]):
            for off in (0.0, 0.001, 0.01, 0.1, 0.3, 0.7, 2.0):
                out.append(base_plan(chain=chain and list(chain), slow=list(slow), downloads=[
                    dl(0, song.replace('{peer}', 'bob')), dl(1, song.replace('{peer}', 'carol'), at=off)]))
        for delay in ([0, 0], [0, 5], [0, 50], [20, 200]):
            out.append(base_plan(chain=chain and list(chain), exec={'delay_ms': delay}, downloads=[
                dl(0, song.replace('{peer}', 'bob')), dl(1, song.replace('{peer}', 'carol')), dl(2, 'C:\\other\\song.mp3')]))
            out.append(base_plan(chain=chain and list(chain), exec={'delay_ms': delay}, pre=[{'path': 'song.mp3', 'kind': 'file', 'size': 3}],
                                 downloads=[dl(0, song.replace('{peer}', 'bob'), cd=0.05, size=20000),
                                            dl(1, song.replace('{peer}', 'carol'), at=0.02, cd=0.05, size=20000),
                                            dl(2, song.replace('{peer}', 'dave'), at=0.04)]))
    # 1b. the first file connection of a download is reset (before the first byte / after some bytes); a second download of
    #     an equally named file starts before the first one's retry
    for chain in [None] + SOUND[:2]:
        for cut in (0, 1, 300):
            for off in (1.6, 2.0):
                out.append(base_plan(chain=chain and list(chain), downloads=[
                    dict(dl(0, song.replace('{peer}', 'bob'), qd=1.0), first_reset=cut),
                    dl(1, song.replace('{peer}', 'carol'), at=off, cd=0.05, size=300000)]))
    # 1d. names at the file-name length limit, three equally named downloads (at once / one after the other)
    for chain in [None] + SOUND[:2]:
        for name in LONG_EDGE:
            for gap in (0.02, 3.0):
                out.append(base_plan(chain=chain and list(chain), downloads=[
                    dl(0, f'@@bob\\music\\{name}', cd=0.05, size=20000),
                    dl(1, f'@@carol\\music\\{name}', at=gap, cd=0.05, size=20000),
                    dl(2, f'@@dave\\music\\{name}', at=2 * gap, cd=0.05, size=20000)]))
    # 1e. the download directory cannot be listed; natural name and first numbered name taken, three equally named downloads
    for chain in [None] + SOUND[:2]:
        for pre in ([{'path': 'song.mp3', 'kind': 'file', 'size': 3}],
                    [{'path': 'song.mp3', 'kind': 'file', 'size': 3}, {'path': 'song (1).mp3', 'kind': 'file', 'size': 4}]):
            out.append(base_plan(chain=chain and list(chain), pre=pre, listdir_fault=True, downloads=[
                dl(0, song.replace('{peer}', 'bob'), cd=0.05, size=20000),
                dl(1, song.replace('{peer}', 'carol'), at=0.02, cd=0.05, size=20000),
                dl(2, song.replace('{peer}', 'dave'), at=3.0)]))
    # 1c. the download directory setting is changed while the client runs: later choices lie inside the new directory
    for chain in [None] + SOUND[:2]:
        for at in (0.5, 1.5):
            out.append(base_plan(chain=chain and list(chain), move_dir={'at': at}, downloads=[
                dl(0, song.replace('{peer}', 'bob')), dl(1, song.replace('{peer}', 'carol'), at=2.5),
                dl(2, 'other\\album\\track.mp3', at=3.0)]))
    # 2. enumerated axis: chain x input class x {empty directory, natural name taken}; two downloads, the second one
    #    after the first has finished (sequential) so that every verdict is about the input, not the schedule
    for chain in [None] + CHAINS:
        for label, form in INPUT_FORMS:
            for taken in (False, True):
                r0 = form.replace('{peer}', 'bob')
                r1 = form.replace('{peer}', 'carol')
                out.append(base_plan(chain=chain and list(chain), pre=_taken(r0) if taken else [],
                                     downloads=[dl(0, r0, size=700), dl(1, r1, at=3.0, size=700)], extra=[r0]))
    # 3. numbering: dense 1..10, gaps, look-alikes, a directory with the name
    for chain in [None] + SOUND:
        dense = [{'path': 'song.mp3', 'kind': 'file', 'size': 3}] + \
                [{'path': f'song ({i}).mp3', 'kind': 'file', 'size': 3} for i in range(1, 11)]
        out.append(base_plan(chain=chain and list(chain), pre=dense, downloads=[dl(0, 'x\\song.mp3'), dl(1, 'y\\song.mp3', at=3.0)]))
        gaps = [{'path': p, 'kind': k, 'size': 3} for p, k in (
            ('song.mp3', 'file'), ('song (1).mp3', 'dir'), ('song (3).mp3', 'file'), ('song (2).mp3.bak', 'file'),
            ('Song (2).mp3', 'file'), ('song (02).mp3', 'file'), ('song (4)', 'file'), ('song (\u0664).mp3', 'file'))]
        out.append(base_plan(chain=chain and list(chain), pre=gaps, downloads=[dl(0, 'x\\song.mp3'), dl(1, 'y\\song.mp3', at=0.001),
                                                                      dl(2, 'z\\song.mp3', at=3.0)]))
        out.append(base_plan(chain=chain and list(chain), pre=[{'path': 'song.mp3', 'kind': 'dir', 'size': 0}],
                             downloads=[dl(0, 'x\\song.mp3'), dl(1, 'y\\song.mp3', at=3.0)]))
        out.append(base_plan(chain=chain and list(chain), pre=[{'path': 'c++.mp3', 'kind': 'file', 'size': 3},
                                                     {'path': 'c++ (1).mp3', 'kind': 'file', 'size': 3}],
                             downloads=[dl(0, 'x\\c++.mp3'), dl(1, 'y\\c++.mp3', at=3.0)]))
    return out


def enumerated_axes(tier):
    return {'chain_x_input_class_x_taken': {
        'size': (len(CHAINS) + 1) * len(INPUT_FORMS) * 2, 'exhaustive': True,
        'axes': ('the library default chain and the 15 ordered subsets of the shipped strategies x %d remote-path classes (%s) x {empty download directory, natural '
                 'name taken}; exhaustive over these classes only - the remote-path space itself is sampled'
                 % (len(INPUT_FORMS), ', '.join(l for l, _ in INPUT_FORMS)))}}


SHRINK_LISTS = ('downloads', 'pre', 'slow', 'extra')


def simplify(plan):
    if plan.get('exec', {}).get('delay_ms') not in ([0, 0], [0, 1]):
        yield dict(plan, exec=dict(plan.get('exec') or {}, delay_ms=[0, 1]))
    if plan.get('net') != FLAT:
        yield dict(plan, net=dict(FLAT))
    dls = plan.get('downloads', [])
    for i, d in enumerate(dls):
        for key, val in (('size', 700), ('chunk_delay', 0.0), ('f_delay', 0.0), ('queue_delay', 0.05), ('at', 0.0)):
            if d.get(key) != val and not (key == 'size' and d.get('size', 0) <= 700):
                yield dict(plan, downloads=[dict(x, **{key: val}) if j == i else x for j, x in enumerate(dls)])
        comps = spec_components(d['remote'].replace(ABS, ''))
        if len(comps) > 2:
            simple = '\\'.join(comps[-2:])
            if safe_remote(simple) and simple != d['remote']:
                yield dict(plan, downloads=[dict(x, remote=simple) if j == i else x for j, x in enumerate(dls)])
    for i, p in enumerate(plan.get('pre', [])):
        if p.get('size'):
            yield dict(plan, pre=[dict(x, size=0) if j == i else x for j, x in enumerate(plan['pre'])])


# ----------------------------------------------------------------------------- run

def listing(root):
    """{path relative to root: 'd' | 'f'} of everything below root (no symlinks are followed)."""
    out = {}
    stack = [root]
    cut = len(root) + 1
    while stack:
        d = stack.pop()
        try:
            it = os.scandir(d)
        except OSError:
            continue
        with it:
            for e in it:
                try:
                    isdir = e.is_dir(follow_symlinks=False)
                except OSError:
                    isdir = False
                out[e.path[cut:]] = 'd' if isdir else 'f'
                if isdir:
                    stack.append(e.path)
    return out


def snapshot(root):
    snap = {}
    for rel, kind in listing(root).items():
        if kind == 'd':
            snap[rel] = ('d', None)
        else:
            try:
                with open(os.path.join(root, rel), 'rb') as fh:
                    snap[rel] = ('f', fh.read())
            except OSError:
                snap[rel] = ('f', None)
    return snap


def real(path):
    try:
        return os.path.realpath(path)
    except (OSError, ValueError):
        return os.path.normpath(path)


def valid_plan(plan):
    chain = plan.get('chain')
    if chain is not None and (not isinstance(chain, list) or not chain or len(set(chain)) != len(chain)
                              or any(c not in STRATEGIES for c in chain)):
        return False
    dls = plan.get('downloads')
    if not isinstance(dls, list) or not (1 <= len(dls) <= 3):
        return False
    peers = [d.get('peer') for d in dls]
    if len(set(peers)) != len(peers) or any(p not in PEERS for p in peers):
        return False
    if any(not safe_remote(d.get('remote')) for d in dls) or any(not safe_remote(r) for r in plan.get('extra', [])):
        return False
    if len(plan.get('pre', [])) > 12 or any(not safe_rel(p.get('path')) for p in plan.get('pre', [])):
        return False
    if len(plan.get('extra', [])) > 8:
        return False
    d = plan.get('exec', {}).get('delay_ms', [0, 1])
    if not isinstance(d, (list, tuple)) or len(d) != 2:
        return False
    return True


def run(plan):
    if not valid_plan(plan):
        return {'violations': [], 'signature': 'invalid-plan', 'nontrivial': False}
    world = World(plan, PROPERTY)
    try:
        return _run(world, plan)
    finally:
        world.close()


def _run(world: World, plan):
    loop = world.loop
    world.add_server()
    sb_root = real(world.sandbox.path)
    dl_dir = world.sandbox.sub('alice', *LEVELS, 'downloads')
    abs_dir = world.sandbox.sub(*ABS_LEVELS)
    dl_real = real(dl_dir)
    dl_rel = dl_real[len(sb_root) + 1:]
    # the application may point the setting to another directory while the client runs (plan['move_dir'])
    dl_dir2 = world.sandbox.sub('alice', *LEVELS, 'downloads2')
    dl_now = {'real': dl_real}
    # chain None = the library's own default chain; documented (USAGE.rst, "File naming") as: original file name, a number
    # is added when the file already exists - i.e. default + number-duplicates
    chain = list(plan['chain']) if plan.get('chain') is not None else ['D', 'N']
    cf = chain_facts(chain)
    downloads = [dict(d) for d in plan['downloads']]
    for d in downloads:
        d['remote_x'] = d['remote'].replace(ABS, abs_dir)
        d['source'] = pattern_bytes(d.get('size', 0), 11 + 7 * d['id'])

    alice = world.add_client('alice', overrides={'shares': {'download': dl_dir}})
    client = alice.client
    tm = client.transfers
    if plan.get('chain') is not None:
        client.shares.naming_strategies = [STRATEGIES[c]() for c in chain]

    for rule in plan.get('slow', []):
        world.disk.rules.append({'match': JOBS.get(rule.get('job'), 'open'), 'nth': rule.get('nth'),
                                 'action': 'slow', 'delay': rule.get('delay', 0.5)})

    # pre-existing contents of the download directory (plan data)
    for i, p in enumerate(plan.get('pre', [])):
        target = os.path.join(dl_dir, p['path'])
        try:
            if p.get('kind') == 'dir':
                os.makedirs(target, exist_ok=True)
            else:
                os.makedirs(os.path.dirname(target), exist_ok=True)
                if not os.path.lexists(target):
                    with open(target, 'wb') as fh:
                        fh.write(pattern_bytes(p.get('size', 0), 100 + i))
        except OSError:
            pass        # a name the file system does not take (too long, parent is a file): not part of the world

    xpeers = {}
    uploads = {}
    for d in downloads:
        xp = XferPeer(world, d['peer'])
        xp.attach(alice)
        xpeers[d['peer']] = xp
        extra = {}
        if d.get('first_reset') is not None:
            # the first file connection is reset after this many bytes (0: before the first byte); later attempts are honest
            extra['per_attempt'] = [{'send_bytes': int(d['first_reset']), 'after_send': 'abort'}]
            world.net.fired['file_connection_reset_first_attempt'] += 1
        uploads[d['id']] = xp.share(d['remote_x'], d['source'], queue_delay=d.get('queue_delay', 0.05),
                                    f_delay=d.get('f_delay', 0.0), chunk_delay=d.get('chunk_delay', 0.0), chunk=4096,
                                    **extra)

    # ------------------------------------------------------------------ observation
    state = {'armed': False, 'prev': None, 'base': None, 'dirty': True, 'listed_at': 0, 'ntr': 0}
    entries = []        # one per download transfer seen: {'tr', 'd' (plan download or None), 'last', 'key', 'rel', ...}
    flags = {'window': 0, 'numbered': 0, 'subdir': 0, 'same_reported': set()}

    # the listing of the sandbox is refreshed after every iteration in which an executor job ran (aiofiles, makedirs),
    # a path was chosen or a transfer appeared, and every 8 iterations while a download still has to choose
    def mark_dirty():
        state['dirty'] = True
    world.disk.hooks.append(lambda name, func, args: ('pre', mark_dirty))

    def entry_of(tr):
        for e in entries:
            if e['tr'] is tr:
                return e
        spec = None
        for d in downloads:
            if d['peer'] == tr.username and d['remote_x'] == tr.remote_path:
                spec = d
        e = {'tr': tr, 'd': spec, 'last': None, 'key': None, 'rel': None, 'choices': 0, 'existed': None,
             'existed_by': None, 'bad': False, 'n': len(entries), 'choice_iter': -1, 'raw': False}
        entries.append(e)
        return e

    def rel_of(realpath):
        if realpath == sb_root:
            return ''
        if realpath.startswith(sb_root + os.sep):
            return realpath[len(sb_root) + 1:]
        return None

    def owner_of(rel, chooser):
        """Another download whose chosen path is ``rel`` or lies below it."""
        for e in entries:
            if e is chooser or e['rel'] is None:
                continue
            if e['rel'] == rel or e['rel'].startswith(rel + os.sep):
                return e
        return None

    def judge(remote, local_path, prev, chooser, flow):
        """The three choice-time clauses of the statement for one chosen path."""
        ic = input_class(remote)
        name = os.path.basename(local_path)
        rp = real(local_path)
        rel = rel_of(rp)
        res = {'real': rp, 'rel': rel, 'bad': False, 'existed': False, 'by': None, 'inside': True, 'raw': False}
        world.trace('choice', flow, chooser['n'] if chooser else -1, rel if rel is not None else rp, name[:40])
        if name in ('', '.', '..'):
            res['bad'] = True
            world.violate('C09.bad_name', name=name, last=ic['last'], **cf)
            return res
        if not rp.startswith(dl_now['real'] + os.sep):
            res['inside'] = False
            world.violate('C09.escape', parent=ic['parent'], last=ic['last'], keepdir='K' in chain)
        if rel is not None:
            kind = prev.get(rel) if rel != '' else 'd'
        else:
            kind = ('d' if os.path.isdir(rp) else 'f') if os.path.lexists(rp) else None
        if kind is not None:
            res['raw'] = True
            by = None
            if rel is None or rel in state['base'] or rel == '':
                by = 'preexisting'
            elif owner_of(rel, chooser) is not None:
                by = 'download'
            else:
                world.probe('chosen_path_reserved_before_visible')
            if by is not None:
                res['existed'] = True
                res['by'] = by
                world.violate('C09.exists', kind='dir' if kind == 'd' else 'file', by=by, dedupe=cf['dedupe'])
        return res

    def monitor():
        if not state['armed']:
            return
        prev = state['prev']
        live = {}
        ntr = 0
        to_choose = len(entries) < len(downloads)
        for tr in tm.transfers:
            if tr.direction != TransferDirection.DOWNLOAD:
                continue
            ntr += 1
            e = entry_of(tr)
            lp = tr.local_path
            st = tr.state.VALUE.name
            if lp != e['last']:
                state['dirty'] = True
                if lp is not None:
                    e['choices'] += 1
                    res = judge(tr.remote_path, lp, prev, e, 'live')
                    e['key'], e['rel'], e['bad'] = res['real'], res['rel'], res['bad']
                    e['existed'], e['existed_by'] = res['existed'], res['by']
                    e['raw'], e['choice_iter'] = res['raw'], loop.iterations
                    # was another download's chosen path still to be created at this instant?
                    for o in entries:
                        if o is e or o['key'] is None or o['rel'] is None or o['bad']:
                            continue
                        if o['tr'].state.VALUE.name in ACTIVE and o['rel'] not in prev:
                            flags['window'] += 1
                            world.probe('choice_while_another_chosen_path_not_created')
                            break
                    base_name = os.path.basename(lp)
                    comps = spec_components(tr.remote_path)
                    if comps and base_name != comps[-1] and not res['bad']:
                        flags['numbered'] += 1
                        world.probe('duplicate_number_applied')
                    if res['inside'] and not res['bad'] and os.path.dirname(res['real']) != dl_real:
                        flags['subdir'] += 1
                        world.probe('kept_directory')
                e['last'] = lp
            if lp is None and st not in TERMINAL:
                to_choose = True
            if lp is not None and st in ACTIVE and e['key'] is not None and not e['bad']:
                other = live.get(e['key'])
                if other is None:
                    live[e['key']] = e
                else:
                    pair = (min(other['n'], e['n']), max(other['n'], e['n']))
                    if pair not in flags['same_reported']:
                        flags['same_reported'].add(pair)
                        # the one that chose second: the path either existed already or was still to be created
                        second = e if e['choice_iter'] >= other['choice_iter'] else other
                        world.violate('C09.same_path', what='same local path', dedupe=cf['dedupe'],
                                      second_choice='after_creation' if second['raw'] else 'before_creation')
        if state['dirty'] or ntr != state['ntr'] or (to_choose and loop.iterations - state['listed_at'] >= 8):
            state['prev'] = listing(sb_root)
            state['dirty'] = False
            state['ntr'] = ntr
            state['listed_at'] = loop.iterations
    loop.monitors.append(monitor)

    calls = {}

    async def start(d):
        if d.get('at'):
            await asyncio.sleep(d['at'])
        calls[d['id']] = world.call(alice, f"download-{d['id']}", tm.download, d['peer'], d['remote_x'])
        await calls[d['id']].task

    results = {}

    async def main():
        await world.start_client(alice)
        await asyncio.sleep(0.3)
        state['base'] = snapshot(sb_root)
        state['prev'] = {rel: kind for rel, (kind, _) in state['base'].items()}
        state['armed'] = True
        async def move_dir():
            mv = plan.get('move_dir')
            if not mv:
                return
            await asyncio.sleep(float(mv['at']))
            world.net.fired['download_directory_setting_changed'] += 1
            alice.settings.shares.download = dl_dir2
            dl_now['real'] = real(dl_dir2)
        await asyncio.gather(move_dir(), *[asyncio.ensure_future(start(d)) for d in downloads])
        t_end = loop.time() + HORIZON
        while loop.time() < t_end:
            await asyncio.sleep(0.5)
            trs = [t for t in tm.transfers if t.direction == TransferDirection.DOWNLOAD]
            if len(trs) >= len(downloads) and all(t.state.VALUE.name in TERMINAL for t in trs):
                break
        await asyncio.sleep(1.0)
        state['armed'] = False
        # input half, extra samples: the public naming entry point on the directory as the downloads left it
        for remote in plan.get('extra', []):
            remote_x = remote.replace(ABS, abs_dir)
            now = listing(sb_root)
            try:
                ddir, fname = client.shares.calculate_download_path(remote_x)
            except Exception as exc:  # noqa
                # no path was chosen: the statement speaks about chosen paths (the live flow below tells a refusal from a crash)
                world.trace('direct-raise', type(exc).__name__)
                world.probe('naming_raised_in_direct_call')
                continue
            judge(remote_x, os.path.join(ddir, fname), now, None, 'direct')
        results['final'] = snapshot(sb_root)

    real_listdir = os.listdir
    if plan.get('listdir_fault'):
        # the download directory can be written to but not listed (a drop folder, mode 0300): listing it fails for the
        # library's naming code - a rare but legal answer of the file system
        import sys as _sys

        def listdir(path='.'):
            caller = _sys._getframe(1).f_code.co_filename.replace('\\', '/')
            if caller.endswith('/aioslsk/naming.py') and real(str(path)).startswith(dl_now['real']):
                world.disk.fired['listdir_permission_denied'] += 1
                raise PermissionError(13, 'Permission denied', str(path))
            return real_listdir(path)
        os.listdir = listdir
    try:
        world.run(main())
    finally:
        os.listdir = real_listdir

    # ------------------------------------------------------------------ effect-level clauses
    base, final = state['base'], results.get('final', {})
    by_rel = {}
    for e in entries:
        if e['rel'] is not None:
            by_rel.setdefault(e['rel'], []).append(e)
    # COMPLETE file = its own source
    for e in entries:
        d, tr = e['d'], e['tr']
        if d is None or tr.state.VALUE.name != 'COMPLETE':
            continue
        try:
            with open(tr.local_path, 'rb') as fh:
                data = fh.read()
        except (OSError, TypeError, ValueError):
            data = None
        if data != d['source']:
            if e['existed']:
                continue        # reported as C09.exists when it was chosen
            shared = e['rel'] is not None and len(by_rel.get(e['rel'], [])) > 1
            world.violate('C09.same_path', what='content mixed', dedupe=cf['dedupe'], shared=shared)
    # a download that got as far as the offset of its file connection has a path or was refused (terminal state); one
    # that hangs without a path had no valid name to be given and no error path to take
    for d in downloads:
        ul = uploads[d['id']]
        e = next((x for x in entries if x['d'] is d), None)
        if ul.offsets and e is not None and e['choices'] == 0:
            if e['tr'].state.VALUE.name in TERMINAL:
                world.probe('download_refused_without_path')
                continue
            errs = sorted({str(rec.get('exc_type')) for rec in world.loop.exc_contexts})
            world.violate('C09.bad_name', name=None, last=input_class(d['remote_x'])['last'],
                          error=errs[0] if errs else None, **cf)
    # nothing created or modified outside the download directory
    inside_prefix = dl_rel + os.sep
    for rel in sorted(set(base) | set(final)):
        if plan.get('move_dir') and (rel == dl_rel + '2' or rel.startswith(dl_rel + '2' + os.sep)):
            continue        # the second configured directory
        if rel == dl_rel or rel.startswith(inside_prefix):
            if rel in base and base[rel][0] == 'f' and final.get(rel) != base[rel]:
                # a pre-existing file inside the directory changed: effect of a choice that existed
                if not any(v['invariant'] == 'C09.exists' for v in world.violations):
                    world.violate('C09.exists', kind='file', by='preexisting', dedupe=cf['dedupe'], seen='modified afterwards')
            continue
        if rel not in final:
            continue        # removal is not this property's business (nothing removes here)
        if rel in base and base[rel] == final[rel]:
            continue
        owner = None
        for e in entries:
            if e['rel'] is not None and (e['rel'] == rel or e['rel'].startswith(rel + os.sep)):
                owner = e
        ic = input_class(owner['tr'].remote_path) if owner is not None else {'parent': None, 'last': None}
        world.violate('C09.outside_write', what='created' if rel not in base else 'modified',
                      kind='dir' if final[rel][0] == 'd' else 'file', parent=ic['parent'], last=ic['last'])

    # ------------------------------------------------------------------ signature
    adv = any(adversarial(d['remote']) for d in downloads)
    if adv:
        world.probe('adversarial_component_in_live_flow')
    if len({spec_components(d['remote'])[-1] for d in downloads if spec_components(d['remote'])}) < \
            len([d for d in downloads if spec_components(d['remote'])]):
        world.probe('equally_named_downloads')
    nontrivial = bool(flags['window'] or flags['numbered'] or adv)
    per = []
    for e in entries:
        d = e['d']
        if d is None:
            continue
        ic = input_class(d['remote'])
        outcome = ('none' if e['choices'] == 0 else 'bad' if e['bad'] else
                   ('sub' if e['rel'] and os.path.dirname(e['rel']) != dl_rel else 'top'))
        per.append((ic['last'], ic['parent'], outcome, e['tr'].state.VALUE.name, bool(e['existed'])))
    per.sort()
    pre_classes = sorted({(p.get('kind'), '/' in p['path'], '(' in p['path']) for p in plan.get('pre', [])})
    sig = ['default' if plan.get('chain') is None else ''.join(chain), per, min(flags['window'], 2), min(flags['numbered'], 3), pre_classes,
           sorted({v['invariant'] for v in world.violations})]
    return common.finish(world, nontrivial, sig)

INFO['rule'] += ' Round-5 additions: file names of 250..255 bytes (their numbered duplicates do not fit), three equally named downloads.'

INFO['rule'] += ' Round-6 additions: the download directory cannot be listed (listdir_fault, PermissionError for the naming code).'
