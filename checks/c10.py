"""C10 - connection life cycle is monotone and the connection registry is exact.

World (W-wire): one real client logged in to the scripted server and up to six scripted
peers, one connection episode per peer: outgoing direct / outgoing indirect / connect-back /
incoming, clear or obfuscated, type P/D/F, ended in one of the ways of the quantifier.
A monitor follows every ConnectionStateChangedEvent; the registry is compared with the live
set at quiescent moments.
"""
from __future__ import annotations

import asyncio

from aioslsk.protocol import messages as M
from aioslsk.events import ConnectionStateChangedEvent, MessageReceivedEvent, PeerInitializedEvent
from aioslsk.network.connection import (
    CloseReason, ConnectionState, PeerConnection, ServerConnection, ListeningConnection)

from sim.net import Tap
from sim.world import World
from . import common

PROPERTY = 'C10'
INFO = {
    'level': 'exploration',
    'rule': ('plans = 1..6 connection episodes (kind x obfuscation x type x way of ending, with traffic and '
             'timing drawn per episode) running concurrently against one client; non-trivial = at least one '
             'episode ended by a fault/abnormal path (anything but a single local disconnect of an idle '
             'connection) ; distinct = signature over per-connection reported state sequences and close reasons'),
    'real': common.REAL, 'stub': common.STUB,
    'assumptions': [
        'state order UNINITIALIZED < CONNECTING < CONNECTED < CLOSING < CLOSED, read from ConnectionStateChangedEvent',
        'quiescent moment = no driver call pending and 8 s (> DISCONNECT_TIMEOUT) without any connection event',
        'the link between an aioslsk connection and its simulated socket uses the private _writer attribute for the '
        'send-after-closed clause only; the registry clauses compare public hostname/port with socket peer names',
    ],
}
INFO['rule'] += ' Later additions: a local disconnect while the TCP connect is still in progress; an address with a port no socket accepts (OverflowError instead of OSError); an application listener that is slow inside a message delivery.'

ORDER = {ConnectionState.UNINITIALIZED: 0, ConnectionState.CONNECTING: 1, ConnectionState.CONNECTED: 2,
         ConnectionState.CLOSING: 3, ConnectionState.CLOSED: 4}

KINDS = ('incoming', 'out_direct', 'out_indirect', 'connect_back')
PRE_INIT_ENDS = ('fin_before_init', 'rst_before_init', 'silent_before_init', 'garbage_init', 'unknown_code_init',
                 'unknown_pierce', 'truncated_init_fin', 'truncated_init_silent')
OUT_FAIL_ENDS = ('refused', 'blackhole', 'reset_on_connect', 'cancel_connect', 'disconnect_connecting', 'bad_port')
LIVE_ENDS = ('local_disconnect', 'local_disconnect_x2', 'local_disconnect_x3', 'remote_fin', 'remote_rst',
             'rst_mid_frame', 'read_timeout', 'write_timeout', 'disconnect_during_burst', 'never', 'twin_second_closes',
             'disconnect_unsent')


# an idle file connection has no reader: nothing in the library looks at it until a transfer task
# does, so remote ends after the init message are exercised by C04 (in a transfer), not here
F_SKIP = ('remote_fin', 'remote_rst', 'rst_mid_frame', 'read_timeout', 'write_timeout', 'disconnect_during_burst',
          'disconnect_unsent')


def make_episode(rng, i):
    kind = rng.choice(KINDS)
    ep = {'peer': f'p{i}', 'kind': kind, 'obf': rng.random() < 0.4, 'typ': rng.choice(('P', 'P', 'D', 'F')),
          'at': round(rng.choice([0.0, 0.0, 0.05, 1.0]) + rng.random() * rng.choice([0, 0.01, 2.0]), 4),
          'frames': rng.randint(0, 4), 'frame_gap': rng.choice([0.0, 0.0, 0.01, 0.5]),
          'live_for': rng.choice([0.0, 0.01, 0.3, 2.0, 5.0]), 'plus_iter': rng.randint(0, 4)}
    r = rng.random()
    if kind == 'incoming' and r < 0.4:
        ep['end'] = rng.choice(PRE_INIT_ENDS)
    elif kind in ('out_direct', 'connect_back') and r < 0.3:
        ep['end'] = rng.choice(OUT_FAIL_ENDS if kind == 'out_direct' else OUT_FAIL_ENDS[:3] + OUT_FAIL_ENDS[4:])
    else:
        ep['end'] = rng.choice(LIVE_ENDS)
    if ep['typ'] == 'F' and ep['end'] in F_SKIP:
        ep['end'] = rng.choice(('local_disconnect', 'local_disconnect_x2', 'never'))
    if ep['end'] == 'twin_second_closes' and kind != 'out_direct':
        ep['end'] = 'never'
    ep['cut'] = rng.randint(0, 40)
    if kind == 'out_indirect' and rng.random() < 0.25:
        ep['twin_pierce'] = True       # the peer answers the relayed request with two connections carrying the same ticket
    return ep


def generate(rng, index, tier):
    n = rng.randint(1, 6)
    return {
        'seed': rng.getrandbits(32), 'net': common.draw_net(rng),
        'mode': rng.choice(('race', 'fallback')),
        'episodes': [make_episode(rng, i) for i in range(n)],
        # an application listener that takes its time inside a state notification (listeners may be coroutines)
        'slow_listener': ({'state': rng.choice(('CONNECTING', 'CONNECTED', 'CLOSING', 'CLOSED')),
                           'delay': rng.choice([0.0, 0.001, 0.05, 1.0])} if rng.random() < 0.3 else None),
        'slow_message': rng.choice([0.001, 0.02, 0.3]) if rng.random() < 0.25 else None,
        'final_disconnect': ({'hops': rng.randint(0, 12), 'at': rng.choice(('delivery', 'arrival'))}
                             if rng.random() < 0.15 else None),
    }


def corpus(tier):
    out = []
    net = {'base_ms': 5, 'jitter_ms': 0, 'segmentation': 'whole', 'coalesce': True}
    base = {'frames': 2, 'frame_gap': 0.01, 'live_for': 0.5, 'plus_iter': 0, 'cut': 5, 'at': 0.0, 'peer': 'p0'}
    # the peer answers a relayed request with two connections that carry the same ticket
    for mode in ('race', 'fallback'):
        for typ in ('P', 'D', 'F'):
            for end in ('never', 'local_disconnect', 'local_disconnect_x2'):
                out.append({'seed': 1, 'net': net, 'mode': mode,
                            'episodes': [dict(base, kind='out_indirect', obf=False, typ=typ, end=end, twin_pierce=True)]})
    for obf in (False, True):
        for end in PRE_INIT_ENDS:
            out.append({'seed': 1, 'net': net, 'mode': 'race',
                        'episodes': [dict(base, kind='incoming', obf=obf, typ='P', end=end)]})
        for kind in KINDS:
            for typ in ('P', 'D', 'F'):
                for end in LIVE_ENDS:
                    if typ == 'F' and end in F_SKIP:
                        continue
                    if end == 'twin_second_closes' and kind != 'out_direct':
                        continue
                    out.append({'seed': 1, 'net': net, 'mode': 'race',
                                'episodes': [dict(base, kind=kind, obf=obf, typ=typ, end=end)]})
    # Network.disconnect() k loop iterations after a relayed connect request was delivered
    for k in range(0, 16):
        out.append({'seed': 1, 'net': net, 'mode': 'race', 'final_disconnect': {'hops': k},
                    'episodes': [dict(base, kind='incoming', obf=False, typ='P', end='never')]})
    for k in range(0, 8):
        out.append({'seed': 1, 'net': net, 'mode': 'race', 'final_disconnect': {'hops': k, 'at': 'arrival'},
                    'episodes': [dict(base, kind='incoming', obf=False, typ='P', end='never')]})
    # frames buffered behind a slow delivery when the connection is closed locally / by the peer
    for typ in ('P', 'D'):
        for end in ('disconnect_during_burst', 'local_disconnect', 'local_disconnect_x2'):
            for slow in (0.02, 0.3):
                out.append({'seed': 1, 'net': net, 'mode': 'race', 'slow_message': slow,
                            'episodes': [dict(base, kind='incoming', obf=False, typ=typ, end=end, frames=6, frame_gap=0.0,
                                              live_for=0.05)]})
    for mode in ('race', 'fallback'):
        for end in OUT_FAIL_ENDS:
            for k in range(0, 5):
                out.append({'seed': 1, 'net': net, 'mode': mode,
                            'episodes': [dict(base, kind='out_direct', obf=False, typ='P', end=end, plus_iter=k)]})
        for end in OUT_FAIL_ENDS[:3] + OUT_FAIL_ENDS[4:]:
            out.append({'seed': 1, 'net': net, 'mode': mode,
                        'episodes': [dict(base, kind='connect_back', obf=False, typ='P', end=end)]})
    return out


SHRINK_LISTS = ('episodes',)


def simplify(plan):
    if plan.get('slow_listener'):
        yield dict(plan, slow_listener=None)
    if plan.get('slow_message'):
        yield dict(plan, slow_message=None)
    if plan.get('final_disconnect'):
        yield dict(plan, final_disconnect=None)
    for i, ep in enumerate(plan['episodes']):
        for key, val in (('frames', 0), ('obf', False), ('typ', 'P'), ('plus_iter', 0), ('at', 0.0), ('live_for', 0.5)):
            if ep.get(key) != val:
                cand = dict(plan, episodes=[dict(e) for e in plan['episodes']])
                cand['episodes'][i][key] = val
                yield cand


class WriteTap(Tap):
    def __init__(self, world):
        self.world = world
        self.writes = {}     # conn id -> [(t, side_dir, n)]

    def on_write(self, conn, direction, data):
        self.writes.setdefault(conn.id, []).append((self.world.loop.time(), direction, len(data)))


def run(plan):
    world = World(plan, PROPERTY)
    try:
        return _run(world, plan)
    finally:
        world.close()


def _run(world: World, plan):
    loop = world.loop
    server = world.add_server()
    alice = world.add_client('alice', overrides={'network': {'peer': {'connect_mode': plan['mode']}}})
    client = alice.client
    network = client.network
    tap = WriteTap(world)
    world.net.taps.append(tap)
    episodes = plan['episodes']
    peers = {}
    ep_by_peer = {}
    for ep in episodes:
        peers[ep['peer']] = world.add_peer(ep['peer'])
        ep_by_peer[ep['peer']] = ep

    # ---- monitor -----------------------------------------------------------------
    mon = {}          # id(conn) -> record
    keep = []
    last_event_at = [loop.time()]

    def rec_of(conn):
        r = mon.get(id(conn))
        if r is None:
            keep.append(conn)
            r = mon[id(conn)] = {'conn': conn, 'states': [], 'closed_at': None, 'closed_iter': None,
                                 'sim_conn': None, 'is_peer': isinstance(conn, PeerConnection),
                                 'is_server': isinstance(conn, ServerConnection), 'msgs_after_closed': 0}
        return r

    def facts_of(r):
        c = r['conn']
        ep = ep_by_peer.get(getattr(c, 'username', None))
        f = {'incoming': getattr(c, 'incoming', None)}
        if ep is not None:
            f.update(kind=ep['kind'], end=ep['end'])
        else:
            # not yet initialised: attribute through the simulated socket's remote host
            sc = r.get('sim_conn')
            if sc is not None:
                other = sc.src.name if sc.dst.name == 'alice' else sc.dst.name
                ep = ep_by_peer.get(other)
                if ep is not None:
                    f.update(kind=ep['kind'], end=ep['end'])
        return f

    def on_event(event):
        if isinstance(event, ConnectionStateChangedEvent):
            conn = event.connection
            if isinstance(conn, ListeningConnection):
                return
            last_event_at[0] = loop.time()
            r = rec_of(conn)
            if r['sim_conn'] is None:
                w = getattr(conn, '_writer', None)
                r['sim_conn'] = getattr(getattr(w, 'transport', None), 'conn', None)
            st = event.state
            prev = r['states'][-1][0] if r['states'] else None
            r['states'].append((st, event.close_reason, loop.time()))
            world.trace('conn', type(conn).__name__, getattr(conn, 'username', None), st.name, event.close_reason.name)
            if r['is_server']:
                if prev is not None and ORDER[st] < ORDER[prev] and not (
                        prev == ConnectionState.CLOSED and st == ConnectionState.CONNECTING):
                    world.violate('C10.monotone', conn='server', frm=prev.name, to=st.name)
                return
            if r['closed_at'] is not None:
                world.violate('C10.after_closed', **facts_of(r), reported=st.name)
                if st == ConnectionState.CLOSED:
                    world.violate('C10.closed_once', **facts_of(r), times='>1')
            elif prev is not None and ORDER[st] < ORDER[prev]:
                world.violate('C10.monotone', **facts_of(r), frm=prev.name, to=st.name)
            if st == ConnectionState.CLOSED and r['closed_at'] is None:
                r['closed_at'] = loop.time()
                r['closed_iter'] = loop.iterations
        elif isinstance(event, PeerInitializedEvent):
            conn = event.connection
            ep = ep_by_peer.get(conn.username)
            if ep is not None:
                initialised.setdefault(conn.username, []).append(conn)
                ev = init_events.get(conn.username)
                if ev is not None:
                    ev.set()

    final = {'armed': False}

    def hop_then_disconnect(n):
        if n > 0:
            loop.call_soon(hop_then_disconnect, n - 1)
        else:
            fired['network_disconnect_during_connect_back'] += 1
            world.call(alice, 'net-disconnect', network.disconnect)

    def on_message_first(event):
        # first listener of the delivery (priority 0): a handler further down the chain may itself
        # close the connection while the same event is still being handed round
        conn = event.connection
        if final['armed'] and isinstance(event.message, M.ConnectToPeer.Response) and event.message.username == 'pz' \
                and plan['final_disconnect'].get('at') != 'arrival':
            # Network.disconnect() is called this many loop iterations after the relayed request was delivered
            final['armed'] = False
            hop_then_disconnect(int(plan['final_disconnect'].get('hops', 0)))
        r = mon.get(id(conn))
        if r is not None and r['closed_at'] is not None and not r['is_server']:
            world.violate('C10.msg_after_closed', **facts_of(r), message=type(event.message).__qualname__)

    slow = plan.get('slow_listener')
    if slow:
        async def slow_listener(event):
            if isinstance(event.connection, PeerConnection) and event.state.name == slow['state']:
                world.probe('slow_listener_held_notification')
                await asyncio.sleep(slow['delay'])
        world.keep_alive.append(slow_listener)
        client.events.register(ConnectionStateChangedEvent, slow_listener, priority=2000)
    slow_msg = plan.get('slow_message')
    if slow_msg:
        # an application listener that takes its time with every peer message: the reader task is suspended inside the
        # delivery while further frames pile up in the stream buffer - those are what a disconnect must not deliver
        async def slow_message_listener(event):
            if isinstance(event.connection, PeerConnection):
                world.probe('slow_message_listener_held_delivery')
                await asyncio.sleep(slow_msg)
        world.keep_alive.append(slow_message_listener)
        client.events.register(MessageReceivedEvent, slow_message_listener, priority=2000)
    world.keep_alive.append(on_message_first)
    client.events.register(MessageReceivedEvent, on_message_first, priority=0)
    initialised = {}
    init_events = {ep['peer']: asyncio.Event() for ep in episodes}
    # the monitor listens first (priority 0): it must see the order in which the library *emits*
    # notifications, not the order in which a slow application listener lets them through
    world.keep_alive.append(on_event)
    client.events.register(ConnectionStateChangedEvent, on_event, priority=0)
    client.events.register(PeerInitializedEvent, on_event, priority=0)

    # ---- per-peer behaviour ----------------------------------------------------------
    fired = world.net.fired

    def connect_hook(attempt):
        if attempt['src'] != 'alice':
            return None
        if attempt['dst'] == 'pz':
            return ('slow', 3.0)
        ep = ep_by_peer.get(attempt['dst'])
        if ep is None:
            return None
        end = ep['end']
        if ep['kind'] == 'out_indirect':
            return ('refuse', 0.01)
        if ep['kind'] in ('out_direct', 'connect_back'):
            if end == 'refused':
                return ('refuse', 0.02)
            if end == 'blackhole':
                return ('blackhole', None)
            if end == 'reset_on_connect':
                return ('accept_reset', 0.02)
            if end in ('cancel_connect', 'disconnect_connecting'):
                return ('slow', 3.0)
        return None
    world.net.connect_hook = connect_hook

    links = {}
    twin_links = {}

    async def serve_link(peer, ep, link, initialised_by_alice):
        """Peer side after the connection exists: read everything, send some frames, then end."""
        nth = twin_links.setdefault(ep['peer'], [])
        nth.append(link)
        links[ep['peer']] = link
        reader_task = peer.spawn(drain(link))
        end = ep['end']
        if end == 'twin_second_closes':
            # two connections of the same type to the same endpoint at once: the one made second is ended first
            if len(nth) == 2:
                await asyncio.sleep(ep['live_for'] + 0.5)
                fired['remote_fin'] += 1
                fired['second_of_two_equal_connections_closed'] += 1
                link.close()
            return
        for i in range(ep['frames']):
            if ep['frame_gap']:
                await asyncio.sleep(ep['frame_gap'])
            send_frame(link, ep, i)
        await asyncio.sleep(ep['live_for'])
        if end == 'remote_fin':
            fired['remote_fin'] += 1
            link.close()
        elif end == 'remote_rst':
            fired['remote_rst'] += 1
            link.abort()
        elif end == 'rst_mid_frame':
            # a burst, cut by a reset after a few bytes of it reached alice
            tr = link.writer.transport
            pipe = tr.tx_pipe
            tr.conn.cut_after(pipe.name, pipe.delivered + len(tr._outbuf and b''.join(tr._outbuf) or b'') + ep['cut'])
            for i in range(6):
                send_frame(link, ep, 100 + i)
        elif end in ('write_timeout', 'disconnect_unsent'):
            fired['stall_reader'] += 1
            link.writer.transport.pause_reading()
            reader_task.cancel()
        elif end == 'disconnect_during_burst':
            for i in range(30):
                send_frame(link, ep, 200 + i)

    def send_frame(link, ep, i):
        if link.typ == 'F':
            link.send_raw(bytes([i % 256]) * 16)
        elif link.typ == 'D':
            link.send(M.DistributedPing.Request())
        else:
            link.send(M.PeerUserInfoRequest.Request() if i % 2 == 0 else M.PeerSharesRequest.Request())

    async def drain(link):
        while True:
            data = await link.read_some()
            if data is None:
                return

    async def incoming_script(peer, ep):
        await asyncio.sleep(ep['at'])
        port = 60001 if ep['obf'] else 60000
        end = ep['end']
        link = await peer.connect(alice.host.ip, port, obfuscated=ep['obf'])
        link.typ = ep['typ']
        links[ep['peer']] = link
        if end in PRE_INIT_ENDS:
            await asyncio.sleep(ep['live_for'])
            if end == 'fin_before_init':
                fired['remote_fin'] += 1
                link.close()
            elif end == 'rst_before_init':
                fired['remote_rst'] += 1
                link.abort()
            elif end == 'silent_before_init':
                fired['peer_silent'] += 1
                peer.spawn(drain(link))
            elif end == 'garbage_init':
                fired['garbage_frame'] += 1
                link.send(b'\x05\x00\x00\x00\x01\xff\xff\xff\xff')   # PeerInit code, lying string length
                peer.spawn(drain(link))
            elif end == 'unknown_code_init':
                fired['garbage_frame'] += 1
                link.send(b'\x03\x00\x00\x00\x63\x01\x02')
                peer.spawn(drain(link))
            elif end == 'unknown_pierce':
                fired['unknown_ticket'] += 1
                link.send(M.PeerPierceFirewall.Request(987654))
                peer.spawn(drain(link))
            elif end == 'truncated_init_fin':
                fired['truncated_frame'] += 1
                frame = M.PeerInit.Request(peer.name, ep['typ'], 1).serialize()
                from sim.actors import encode_frame
                link.send_raw(encode_frame(frame, ep['obf'])[:-3])
                await asyncio.sleep(0.05)
                link.close()
            elif end == 'truncated_init_silent':
                fired['truncated_frame'] += 1
                frame = M.PeerInit.Request(peer.name, ep['typ'], 1).serialize()
                from sim.actors import encode_frame
                link.send_raw(encode_frame(frame, ep['obf'])[:-3])
                peer.spawn(drain(link))
            return
        link.send(M.PeerInit.Request(peer.name, ep['typ'], 1))
        if ep['typ'] != 'P':
            link.obfuscated = False
        await serve_link(peer, ep, link, False)

    async def accept_script(peer, ep, link):
        """alice connected to the peer (out_direct / connect_back)."""
        init = await link.recv_init()
        if init is None:
            return
        if isinstance(init, M.PeerPierceFirewall.Request):
            link.typ = ep['typ']
            if ep['typ'] != 'P':
                link.obfuscated = False
        await serve_link(peer, ep, link, True)

    def relay_handler(peer, ep):
        async def handler(relay):
            if ep['kind'] != 'out_indirect':
                return
            await asyncio.sleep(0.05)
            port, obf = (relay.obfuscated_port, True) if (ep['obf'] and relay.obfuscated_port) else (relay.port, False)
            if ep.get('twin_pierce') and ep['end'] in ('never', 'local_disconnect', 'local_disconnect_x2', 'local_disconnect_x3'):
                # (only with ends that are played on the client's side: which of the two the client adopts is its choice)
                # a second connection with the same ticket, under way at the same time (both arrive in one instant)
                fired['second_connection_with_the_same_ticket'] += 1

                async def twin():
                    link2 = await peer.connect_pierce(relay.ip, port, relay.ticket, relay.typ, obfuscated=obf)
                    await drain(link2)
                peer.spawn(twin())
            link = await peer.connect_pierce(relay.ip, port, relay.ticket, relay.typ, obfuscated=obf)
            await serve_link(peer, ep, link, True)
        return handler

    calls = {}
    after_closed_calls = []

    async def local_end(ep):
        """Alice-side part of an episode's end."""
        peer = ep['peer']
        end = ep['end']
        try:
            await asyncio.wait_for(init_events[peer].wait(), 15.0)
        except asyncio.TimeoutError:
            return
        conn = initialised[peer][0]
        await asyncio.sleep(ep['live_for'] + ep['frames'] * ep['frame_gap'])
        n = {'local_disconnect': 1, 'local_disconnect_x2': 2, 'local_disconnect_x3': 3,
             'disconnect_during_burst': 1}.get(end, 0)
        if end == 'disconnect_during_burst':
            # wait until part of the burst is in alice's buffers
            await asyncio.sleep(plan['net'].get('base_ms', 5) / 1000.0 + 0.0005 * ep['cut'])
        reasons = [CloseReason.REQUESTED, CloseReason.UNKNOWN, CloseReason.TIMEOUT]
        for i in range(n):
            world.call(alice, f'disc-{peer}-{i}', conn.disconnect, reasons[i])
            if i + 1 < n and ep['plus_iter']:
                for _ in range(ep['plus_iter']):
                    await asyncio.sleep(0)
        if n > 1:
            world.probe('concurrent_disconnect_calls')
        if end in ('write_timeout', 'disconnect_unsent'):
            # keep writing until the transport pushes back; the 10 s write timeout must close it
            await asyncio.sleep(1.0)
            blob = b'\x00' * 60000
            for i in range(8):
                world.call(alice, f'bigsend-{peer}-{i}', conn.send_message, blob)
        if end == 'disconnect_unsent':
            # ... or the application disconnects while the data still sits in the send path
            await asyncio.sleep(0.5 + 0.1 * (ep['cut'] % 5))
            fired['local_disconnect_with_unsent_data'] += 1
            world.call(alice, f'disc-{peer}-unsent', conn.disconnect, CloseReason.REQUESTED)

    async def episode_driver(ep):
        peer = peers[ep['peer']]
        kind = ep['kind']
        if kind == 'incoming':
            peer.spawn(incoming_script(peer, ep))
        else:
            peer.accept_handler = lambda link, peer=peer, ep=ep: accept_script(peer, ep, link)
            peer.connect_to_peer_handler = relay_handler(peer, ep)
            await asyncio.sleep(ep['at'])
            if kind in ('out_direct', 'out_indirect'):
                kwargs = {}
                if kind == 'out_direct' and ep['obf']:
                    kwargs = {'ip': peer.host.ip, 'port': peer.obfuscated_port, 'obfuscate': True}
                if ep['end'] == 'bad_port':
                    # the server hands out an address no socket accepts (ports are uint32 on the wire)
                    fired['address_with_bad_port'] += 1
                    server.addresses[ep['peer']] = (peer.host.ip, 70000, 0)
                    kwargs = {}
                call = world.call(alice, f"cpc-{ep['peer']}", network.create_peer_connection, ep['peer'], ep['typ'], **kwargs)
                calls[ep['peer']] = call
                if ep['end'] == 'twin_second_closes' and kind == 'out_direct':
                    await asyncio.sleep(0.3)
                    world.call(alice, f"cpc2-{ep['peer']}", network.create_peer_connection, ep['peer'], ep['typ'], **kwargs)
                if ep['end'] == 'disconnect_connecting':
                    await disconnect_connecting(ep, peer)
                if ep['end'] == 'cancel_connect':
                    await asyncio.sleep(0.1 + 0.3 * ep['plus_iter'])
                    for _ in range(ep['plus_iter']):
                        await asyncio.sleep(0)
                    if not call.task.done():
                        fired['cancel_caller'] += 1
                        call.task.cancel()
            else:
                ip, port, obf = server.address_of(ep['peer'])
                if ep['obf']:
                    port = 0
                else:
                    obf = 0
                if ep['end'] == 'bad_port':
                    fired['address_with_bad_port'] += 1
                    port, obf = 70000, 0
                server.send_to('alice', M.ConnectToPeer.Response(
                    username=ep['peer'], typ=ep['typ'], ip=ip, port=port, ticket=5000 + int(ep['peer'][1:]),
                    privileged=False, obfuscated_port_amount=1 if obf else 0, obfuscated_port=obf))
                if ep['end'] == 'disconnect_connecting':
                    await disconnect_connecting(ep, peer)
        if ep['end'] in LIVE_ENDS:
            await local_end(ep)

    async def disconnect_connecting(ep, peer):
        """A local disconnect request for a connection whose TCP connect is still in progress (the application holds the
        object from the CONNECTING notification)."""
        t_end = loop.time() + 20.0
        while loop.time() < t_end:
            target = [c for c in list(network.peer_connections)
                      if c.hostname == peer.host.ip and c.state == ConnectionState.CONNECTING]
            if target:
                break
            await asyncio.sleep(0.01)
        else:
            return
        await asyncio.sleep(0.3 * ep['plus_iter'])
        for _ in range(ep['plus_iter']):
            await asyncio.sleep(0)
        for c in target:
            if c.state == ConnectionState.CONNECTING:
                fired['disconnect_while_connecting'] += 1
                world.call(alice, f"disc-connecting-{ep['peer']}", c.disconnect, CloseReason.REQUESTED)

    quiescent_checks = []

    def registry_check(tag):
        """Registry vs live set, public attributes only."""
        reg = list(network.peer_connections)
        open_trs = [tr for tr in world.net.open_transports(alice.host) if tr.conn.dst.name != 'server']
        # every registered connection's last reported state must be CONNECTED and it must have a socket
        want = []
        for c in reg:
            r = mon.get(id(c))
            last = r['states'][-1][0] if r and r['states'] else None
            if tag == 'settled' and last in (None, ConnectionState.CONNECTING):
                # an attempt may still be running (connect timeout 10 s, init read timeout 60 s)
                if last is None:
                    want.append((c.hostname, c.port))   # accepted, awaiting its init message
                continue
            if last != ConnectionState.CONNECTED:
                world.violate('C10.registry_corpse', **(facts_of(r) if r else {}),
                              last_reported=last.name if last else None, state=c.state.name, at=tag)
            want.append((c.hostname, c.port))
        # every connection last reported CONNECTED must be registered
        for r in mon.values():
            if r['is_peer'] and r['states'] and r['states'][-1][0] == ConnectionState.CONNECTED and r['conn'] not in reg:
                world.violate('C10.registry_missing', **facts_of(r), at=tag)
            # ... and so must every connection that is being opened by a still-running attempt
            if r['is_peer'] and r['states'] and r['states'][-1][0] == ConnectionState.CONNECTING and r['conn'] not in reg \
                    and r['conn'].state == ConnectionState.CONNECTING:
                world.violate('C10.registry_missing', **facts_of(r), at=tag, what='being opened')
        have = [tr.get_extra_info('peername') for tr in open_trs]
        extra_sockets = list(have)
        for w in want:
            if w in extra_sockets:
                extra_sockets.remove(w)
        if extra_sockets:
            eps = sorted({(ep_by_peer.get(h.name, {}).get('kind'), ep_by_peer.get(h.name, {}).get('end'))
                          for tr in open_trs for h in (tr.conn.src, tr.conn.dst) if h.name in ep_by_peer
                          and tr.get_extra_info('peername') in extra_sockets}, key=repr)
            world.violate('C10.orphan_socket', n=len(extra_sockets), episodes=eps[:3], at=tag)
        missing = list(want)
        for h in have:
            if h in missing:
                missing.remove(h)
        if missing:
            world.violate('C10.registry_corpse', what='registered connection without open socket', n=len(missing), at=tag)

    async def main():
        await world.start_client(alice)
        await asyncio.sleep(0.5)
        drivers = [asyncio.ensure_future(episode_driver(ep)) for ep in episodes]
        await asyncio.gather(*drivers)
        # wait for the active part to settle: no pending driver call and 8 s without events
        t_limit = loop.time() + 120.0
        while loop.time() < t_limit:
            await asyncio.sleep(1.0)
            pending_calls = [c for c in world.calls if not c.done]
            if not pending_calls and loop.time() - last_event_at[0] >= 8.0:
                break
        registry_check('settled')
        # send after CLOSED: neither raises nor writes
        for r in list(mon.values()):
            if r['is_peer'] and r['closed_at'] is not None:
                c = world.call(alice, 'send-after-closed', r['conn'].send_message, M.PeerUserInfoRequest.Request())
                after_closed_calls.append((c, r, loop.time()))
        if plan.get('final_disconnect'):
            # the last thing that happens: a relayed connect request and Network.disconnect() around the same iteration
            pz = world.add_peer('pz')
            ip, port, obf = server.address_of('pz')
            final['armed'] = True
            if plan['final_disconnect'].get('at') == 'arrival':
                # counted from the arrival of the bytes instead (the call is then made before the request is handled)
                class ArrivalTap(Tap):
                    def on_data(self, conn, direction, data):
                        if final['armed'] and conn.dst.name == 'server' and conn.src.name == 'alice' and direction == 's2c' \
                                and b'pz' in data:
                            final['armed'] = False
                            hop_then_disconnect(int(plan['final_disconnect'].get('hops', 0)))
                world.net.taps.append(ArrivalTap())
            server.send_to('alice', M.ConnectToPeer.Response(
                username='pz', typ='P', ip=ip, port=port, ticket=5999, privileged=False,
                obfuscated_port_amount=0, obfuscated_port=0))
        await asyncio.sleep(200.0)
        registry_check('after_200s')

    world.run(main())

    # ---- history checks ------------------------------------------------------------------
    for (c, r, t) in after_closed_calls:
        if c.outcome() != 'returned':
            world.violate('C10.send_after_closed', **facts_of(r), outcome=c.outcome())
        sc = r['sim_conn']
        if sc is not None:
            side_dir = 'c2s' if sc.src.name == 'alice' else 's2c'
            late = [w for w in tap.writes.get(sc.id, []) if w[1] == side_dir and w[0] >= t]
            if late:
                world.violate('C10.send_after_closed', **facts_of(r), wrote=True)
    for r in mon.values():
        if not r['is_peer']:
            continue
        if r['closed_at'] is None:
            # ever reported, never closed: must still be alive (CONNECTED and registered) at the end
            last = r['states'][-1][0]
            if last != ConnectionState.CONNECTED or r['conn'] not in network.peer_connections:
                world.violate('C10.closed_once', **facts_of(r), times=0, last_reported=last.name)
    for rec in world.loop.exc_contexts:
        world.violate('C10.after_closed', what='loop exception handler', exc=rec.get('exc_type'), coro=rec.get('coro'),
                      message=(rec.get('message') or '')[:40])
        break
    # liveness of the close paths: every episode whose end must close the connection did close it
    for ep in episodes:
        must_close = ep['end'] not in ('never', 'twin_second_closes') and not (ep['end'] == 'read_timeout' and ep['typ'] == 'F')
        conns = [r for r in mon.values() if r['is_peer'] and facts_of(r).get('kind') == ep['kind']
                 and (getattr(r['conn'], 'username', None) in (ep['peer'], None))]
        for r in conns:
            if getattr(r['conn'], 'username', None) not in (ep['peer'],) and len(episodes) > 1:
                continue
            if must_close and r['closed_at'] is None and ep['end'] not in ('silent_before_init',) \
                    and r['conn'].username == ep['peer']:
                world.violate('C10.closed_once', kind=ep['kind'], end=ep['end'], times=0, what='never closed')

    nontrivial = any(ep['end'] not in ('local_disconnect', 'never') for ep in episodes)
    sig = sorted((ep['kind'], ep['obf'], ep['typ'], ep['end']) for ep in episodes)
    seqs = sorted(tuple((s.name, cr.name) for (s, cr, _) in r['states']) for r in mon.values() if r['is_peer'])
    return common.finish(world, nontrivial, [sig, seqs, plan['mode']])

INFO['rule'] += ' Round-5 additions: end disconnect_unsent (the application disconnects while > 64 KiB sit in the send path towards a peer that stopped reading); the simulated transport defers connection_lost while unsent data is in flight.'

INFO['rule'] += ' Round-6 additions: two connections answering one relayed request with the same ticket (twin_pierce).'
