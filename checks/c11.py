"""C11 - connecting to a peer succeeds iff a path works, and leaves nothing behind.

World (W-wire): one real client logged in to the scripted server, one scripted peer 'bob'.
A run issues one (sometimes two) ``network.create_peer_connection('bob', typ)`` while the plan
fixes what the direct attempt and the server-mediated attempt will meet; or, in the
connect-back shape, the server relays a ConnectToPeer from bob.  The outcome matrix of the
quantifier is enumerated completely in every batch (corpus), the seeded part varies the
relative timing of the two outcomes and cancels the caller at chosen points.
"""
from __future__ import annotations

import asyncio
import itertools
import math

from aioslsk.protocol import messages as M
from aioslsk.exceptions import PeerConnectionError
from aioslsk.events import ConnectionStateChangedEvent, PeerInitializedEvent
from aioslsk.network.connection import ConnectionState, PeerConnectionState

from sim.world import World
from . import common

PROPERTY = 'C11'
INFO = {
    'level': 'fault_enumeration',
    'rule': ('every cell of mode{fallback,race} x direct{fast,slow,refused,blackhole,reset_on_connect} x '
             'indirect{pierce_fast,pierce_slow,cannot,silence,server_dead,server_send_fails} x ports{clear,obf,both,none} x '
             'prefer{clear,obf} is run once per batch (exhaustive, 480 cells) plus connect-back cells; the seeded '
             'search re-draws cells with varied delays (direct-first, indirect-first, both completing within a few '
             'ms or the same instant), connection type P/D/F, a second concurrent request and cancellation of the '
             'caller at a drawn point; non-trivial = at least one attempt failed, was cancelled or both completed; '
             'distinct = signature over (cell, order of observable connection events, outcome)'),
    'real': common.REAL, 'stub': common.STUB,
    'assumptions': [
        'a direct attempt "can work" iff the peer accepts within 10 s (PEER_CONNECT_TIMEOUT) and is not reset at connect',
        'an indirect attempt "can work" iff the server link is up and the peer pierces within 60 s',
        'registry/residue are judged 8 s after the call ended (DISCONNECT_TIMEOUT is 5 s) and again after 100 s',
        'private tables _expected_connection_futures/_expected_response_futures are read for the table residue '
        'clause and skipped if renamed; the behavioural residue test (late pierce, late CannotConnect) does not need them',
    ],
}
INFO['rule'] += ' Later additions: the connect-back matrix also offers no usable port (64 cells).'

MODES = ('fallback', 'race')
DIRECT = ('fast', 'slow', 'refused', 'blackhole', 'reset_on_connect')
INDIRECT = ('pierce_fast', 'pierce_slow', 'cannot', 'silence', 'server_dead', 'server_send_fails')
PORTS = ('clear', 'obf', 'both', 'none')
PREFER = ('clear', 'obf')
DIRECT_TIMEOUT = 10.0
INDIRECT_TIMEOUT = 60.0
SLACK = 15.0


def cell_plan(mode, direct, indirect, ports, prefer, typ='P', seed=1, **kw):
    plan = {
        'seed': seed, 'shape': 'request',
        'net': {'base_ms': 5, 'jitter_ms': 0, 'segmentation': 'whole', 'coalesce': True},
        'mode': mode, 'direct': direct, 'indirect': indirect, 'ports': ports, 'prefer': prefer, 'typ': typ,
        'direct_delay': {'fast': 0.02, 'slow': 4.0, 'refused': 0.02, 'blackhole': None, 'reset_on_connect': 0.02}[direct],
        'indirect_delay': {'pierce_fast': 0.05, 'pierce_slow': 30.0, 'cannot': 0.05, 'silence': None, 'server_dead': None,
                           'server_send_fails': None, 'pierce_edge': None}[indirect],
        'explicit_addr': False, 'second_call': False, 'cancel': None,
    }
    plan.update(kw)
    return plan


def corpus(tier):
    out = []
    for mode, direct, indirect, ports, prefer in itertools.product(MODES, DIRECT, INDIRECT, PORTS, PREFER):
        out.append(cell_plan(mode, direct, indirect, ports, prefer))
    # server dead but address given by the caller: the direct path needs no server
    for mode, direct in itertools.product(MODES, DIRECT):
        out.append(cell_plan(mode, direct, 'server_dead', 'both', 'clear', explicit_addr=True))
        out.append(cell_plan(mode, direct, 'server_send_fails', 'both', 'clear', explicit_addr=True))
    # every connection type on the plain cells
    for mode, typ in itertools.product(MODES, ('P', 'D', 'F')):
        out.append(cell_plan(mode, 'fast', 'pierce_fast', 'both', 'clear', typ=typ))
        out.append(cell_plan(mode, 'refused', 'pierce_fast', 'both', 'clear', typ=typ))
        out.append(cell_plan(mode, 'fast', 'silence', 'both', 'clear', typ=typ))
    # both attempts complete in the same instant, pierce delivery swept over loop iterations
    for hops in range(-10, 11):
        for typ in ('P', 'F'):
            out.append(cell_plan('race', 'fast', 'pierce_fast', 'both', 'clear', typ=typ, direct_delay=0.02,
                                 indirect_delay=0.02 - 0.010, hops=hops))
    # the pierced connection is announced to a slow application listener; meanwhile the (slow) direct attempt wins the race,
    # or the caller gives up
    for typ in ('P', 'F'):
        for slow in (1.0, 6.0):
            out.append(cell_plan('race', 'slow', 'pierce_fast', 'both', 'clear', typ=typ, slow_init=slow))
            for mode in MODES:
                out.append(cell_plan(mode, 'blackhole', 'pierce_fast', 'both', 'clear', typ=typ, slow_init=slow,
                                     cancel={'after': 'pierce_accepted', 'plus_iter': 0, 'time': 0.0}))
                out.append(cell_plan(mode, 'refused', 'pierce_fast', 'both', 'clear', typ=typ, slow_init=slow,
                                     cancel={'after': 'time', 'plus_iter': 0, 'time': 0.5}))
    # a port that does not fit 16 bits in the address the server hands out, every indirect outcome
    for mode in MODES:
        for indirect in INDIRECT:
            for port in (70000, 2 ** 32 - 1):
                for typ in ('P', 'F'):
                    out.append(cell_plan(mode, 'fast', indirect, 'both', 'clear', typ=typ, bad_port=port))
    # the pierce arrives in the instant in which the wait for it expires, swept over loop iterations and 1 ns around it
    for mode in MODES:
        for hops in range(0, 7):
            for offset in (0.0, -1e-9, 1e-9):
                out.append(cell_plan(mode, 'refused', 'pierce_edge', 'both', 'clear', hops=hops, edge_offset=offset,
                                     indirect_delay=None))
            # ... and a few units in the last place around it: same loop iteration as the timer, before or after it
            for ulps in (-3, -1, 1, 3):
                out.append(cell_plan(mode, 'refused', 'pierce_edge', 'both', 'clear', hops=hops, edge_ulps=ulps,
                                     indirect_delay=None))
    # connect-back cells
    for accept, ports, prefer, typ in itertools.product(('fast', 'slow', 'refused', 'blackhole'), ('clear', 'obf', 'both', 'none'),
                                                        PREFER, ('P', 'F')):
        out.append({'seed': 1, 'shape': 'connect_back',
                    'net': {'base_ms': 5, 'jitter_ms': 0, 'segmentation': 'whole', 'coalesce': True},
                    'mode': 'race', 'accept': accept, 'ports': ports, 'prefer': prefer, 'typ': typ,
                    'accept_delay': {'fast': 0.02, 'slow': 5.0, 'refused': 0.02, 'blackhole': None}[accept]})
    return out


def enumerated_axes(tier):
    return {
        'outcome_matrix': {'size': len(MODES) * len(DIRECT) * len(INDIRECT) * len(PORTS) * len(PREFER),
                           'exhaustive': True,
                           'axes': 'mode x direct x indirect x ports offered x port preference'},
        'connect_back': {'size': 4 * 4 * 2 * 2, 'exhaustive': True,
                         'axes': 'peer listener behaviour x ports offered x preference x type'},
    }


def generate(rng, index, tier):
    if rng.random() < 0.15:
        accept = rng.choice(('fast', 'slow', 'refused', 'blackhole'))
        return {'seed': rng.getrandbits(32), 'shape': 'connect_back', 'net': common.draw_net(rng),
                'mode': rng.choice(MODES), 'accept': accept, 'ports': rng.choice(('clear', 'obf', 'both', 'both', 'none')),
                'prefer': rng.choice(PREFER), 'typ': rng.choice(('P', 'D', 'F')),
                'accept_delay': {'fast': rng.uniform(0.001, 0.3), 'slow': rng.uniform(1.0, 9.5),
                                 'refused': rng.uniform(0.001, 0.3), 'blackhole': None}[accept]}
    mode = rng.choice(MODES)
    direct = rng.choice(DIRECT)
    indirect = rng.choice(INDIRECT)
    ports = rng.choice(('clear', 'obf', 'both', 'both', 'none'))
    plan = cell_plan(mode, direct, indirect, ports, rng.choice(PREFER), typ=rng.choice(('P', 'P', 'D', 'F')),
                     seed=rng.getrandbits(32))
    precise = rng.random() < 0.5
    plan['net'] = ({'base_ms': rng.choice([1, 5, 20]), 'jitter_ms': 0, 'segmentation': 'whole', 'coalesce': True}
                   if precise else common.draw_net(rng))
    if direct == 'fast':
        plan['direct_delay'] = rng.choice([0.0, 0.001, 0.02, 0.2])
    elif direct == 'slow':
        plan['direct_delay'] = rng.uniform(1.0, 9.8)
    elif direct in ('refused', 'reset_on_connect'):
        plan['direct_delay'] = rng.choice([0.0, 0.02, 1.0, 5.0])
    if indirect == 'pierce_fast':
        plan['indirect_delay'] = rng.choice([0.0, 0.001, 0.05, 0.3])
    elif indirect == 'pierce_slow':
        plan['indirect_delay'] = rng.uniform(5.0, 58.0)
    elif indirect == 'cannot':
        plan['indirect_delay'] = rng.choice([0.0, 0.05, 2.0, 20.0])
    # both outcomes close together (same instant reachable with the zero-jitter nets)
    if rng.random() < 0.35 and plan['direct_delay'] is not None and plan['indirect_delay'] is not None:
        base = plan['net'].get('base_ms', 5) / 1000.0
        # direct completes ~ addr round trip (2*base) + 2*base (connect) + delay; indirect ~ relay (base) + delay + 2*base + base
        plan['indirect_delay'] = max(0.0, plan['direct_delay'] + rng.choice([-2, -1, 0, 0, 1, 2]) * base
                                     + rng.choice([0.0, 0.0, 1e-9, -1e-9, 0.0005]))
        plan['hops'] = rng.randint(-8, 8)
    if precise and indirect in ('pierce_fast', 'pierce_slow') and rng.random() < 0.12:
        # the pierce arrives in (or 1 ns around) the instant in which the wait for it expires
        plan['indirect'] = indirect = 'pierce_edge'
        plan['indirect_delay'] = None
        plan['edge_offset'] = rng.choice([0.0, 0.0, -1e-9, 1e-9])
        plan['edge_ulps'] = rng.choice([-3, -2, -1, 0, 1, 2, 3]) if plan['edge_offset'] == 0.0 else 0
        plan['hops'] = rng.randint(0, 6)
    plan['explicit_addr'] = rng.random() < (0.5 if indirect in ('server_dead', 'server_send_fails') else 0.1)
    if rng.random() < 0.1:
        plan['slow_init'] = rng.choice([0.3, 1.0, 6.0])
    if rng.random() < 0.06 and not plan['explicit_addr']:
        plan['bad_port'] = rng.choice([65536, 70000, 2 ** 32 - 1])
    plan['second_call'] = rng.random() < 0.15
    if rng.random() < 0.15:
        plan['cancel'] = {'after': rng.choice(('get_peer_address', 'connect_started', 'peer_init_written',
                                               'connect_to_peer_written', 'pierce_accepted', 'time')),
                          'plus_iter': rng.randint(0, 3), 'time': rng.choice([0.0, 0.01, 0.5, 5.0, 12.0, 30.0])}
    return plan


SHRINK_LISTS = ()


def simplify(plan):
    if plan.get('second_call'):
        yield dict(plan, second_call=False)
    if plan.get('cancel'):
        yield dict(plan, cancel=None)
    if plan.get('typ') != 'P':
        yield dict(plan, typ='P')
    if plan.get('explicit_addr'):
        yield dict(plan, explicit_addr=False)


# --------------------------------------------------------------------------- run

def run(plan):
    world = World(plan, PROPERTY)
    try:
        if plan.get('shape') == 'connect_back':
            return _run_connect_back(world, plan)
        return _run_request(world, plan)
    finally:
        world.close()


def _setup(world, plan):
    server = world.add_server()
    ports = plan['ports']
    bob = world.add_peer('bob', listening_clear=ports in ('clear', 'both'),
                         listening_obfuscated=ports in ('obf', 'both'))
    alice = world.add_client('alice', overrides={'network': {'peer': {
        'connect_mode': plan['mode'], 'obfuscate': plan['prefer'] == 'obf'}}})
    return server, bob, alice


def expected_port(ports, prefer, bob):
    if ports == 'both':
        return (bob.obfuscated_port, True) if prefer == 'obf' else (bob.port, False)
    if ports == 'clear':
        return (bob.port, False)
    if ports == 'obf':
        return (bob.obfuscated_port, True)
    return (None, None)


def _run_request(world: World, plan):
    loop = world.loop
    server, bob, alice = _setup(world, plan)
    client = alice.client
    network = client.network
    typ = plan['typ']
    direct, indirect = plan['direct'], plan['indirect']
    state = {'direct_attempts': [], 'pierce_links': [], 'relay': [], 'cancel_fired': False}
    if plan.get('bad_port'):
        # the server hands out a port that does not fit 16 bits (ports are uint32 on the wire): no socket takes it, the
        # direct path cannot work
        world.net.fired['address_with_bad_port'] += 1
        server.addresses['bob'] = (bob.host.ip, int(plan['bad_port']), 0)

    # --- direct behaviour -------------------------------------------------
    def reset_server_link():
        # both ends reset *now*: the client has not seen connection_lost yet, so its next send reaches the
        # transport and fails in drain() - "server send fails"
        for conn in world.net.conns:
            if conn.src.name == 'alice' and conn.dst.name == 'server' and not conn.reset_done:
                conn.reset('server_send_fails')

    def connect_hook(attempt):
        if attempt['src'] != 'alice' or attempt['dst'] != 'bob':
            return None
        state['direct_attempts'].append(attempt)
        if indirect == 'server_send_fails' and plan['mode'] == 'fallback':
            # fallback mode writes ConnectToPeer right after the direct attempt ended
            d0 = plan['direct_delay']
            if direct in ('fast', 'slow', 'refused', 'reset_on_connect') and d0 is not None:
                loop.call_later(max(d0, 0.0), reset_server_link)
            else:
                loop.call_later(DIRECT_TIMEOUT - 1e-6, reset_server_link)
        if plan.get('hops', 0) < 0:
            attempt['hops'] = -plan['hops']
        d = plan['direct_delay']
        if direct == 'fast':
            return ('accept', d)
        if direct == 'slow':
            return ('slow', d)
        if direct == 'refused':
            return ('refuse', d)
        if direct == 'blackhole':
            return ('blackhole', None)
        if direct == 'reset_on_connect':
            return ('accept_reset', d)
        return None
    world.net.connect_hook = connect_hook
    if plan.get('hops', 0) > 0:
        world.net.arrive_hops = lambda conn, direction: (
            plan['hops'] if conn.src.name == 'bob' and conn.dst.name == 'alice' and direction == 'c2s' else 0)

    # --- bob: read whatever arrives on accepted links -----------------------
    async def on_accept(link):
        init = await link.recv_init()
        world.trace('bob.accept', type(init).__name__, link.obfuscated)
        if init is None:
            return
        while True:
            if link.typ == 'F':
                data = await link.read_some()
                if data is None:
                    return
                link.raw.extend(data)
            else:
                msg = await link.recv(link.typ)
                if msg is None:
                    return
    bob.accept_handler = on_accept

    # --- indirect behaviour ---------------------------------------------------
    async def pierce(relay, delay, record=True):
        if delay:
            await asyncio.sleep(delay)
        port, obf = (relay.port, False) if relay.port else (relay.obfuscated_port, True)
        try:
            link = await bob.connect_pierce(relay.ip, port, relay.ticket, relay.typ, obfuscated=obf)
        except OSError:
            world.trace('bob.pierce_failed')
            return None
        link.pierce_ticket = relay.ticket
        if record:
            state['pierce_links'].append(link)
        world.trace('bob.pierced', relay.ticket)
        bob.spawn(drain_link(link))
        return link

    async def drain_link(link):
        while True:
            if link.typ == 'F':
                data = await link.read_some()
                if data is None:
                    return
                link.raw.extend(data)
            else:
                msg = await link.recv(link.typ)
                if msg is None:
                    return

    async def pierce_edge(relay):
        # the pierce arrives in the very instant in which the wait for it expires (shifted by plan['edge_offset']
        # seconds and plan['hops'] loop iterations): either outcome is fine, nothing may be left behind
        lat = plan['net'].get('base_ms', 5) / 1000.0
        t_est = loop.time() - 2 * lat + INDIRECT_TIMEOUT
        await asyncio.sleep(INDIRECT_TIMEOUT - 0.5)
        whens = [h.when() for h in loop._scheduled if not h.cancelled() and abs(h.when() - t_est) < 0.03
                 and getattr(h._callback, '__qualname__', '') in ('_release_waiter', 'Timeout._on_timeout')]
        deadline = min(whens, key=lambda w: abs(w - t_est)) if whens else t_est
        if whens:
            world.probe('indirect_deadline_timer_found')
        deadline += float(plan.get('edge_offset', 0.0)) + int(plan.get('edge_ulps', 0)) * math.ulp(deadline)
        port, obf = (relay.port, False) if relay.port else (relay.obfuscated_port, True)
        try:
            link = await bob.connect(relay.ip, port, obf)
        except OSError:
            world.trace('bob.pierce_failed')
            return None
        link.writer.transport.conn.c2s.hold_until = deadline
        await asyncio.sleep(max(deadline - 0.1 - loop.time(), 0.0))
        world.net.fired['pierce_in_the_instant_of_the_deadline'] += 1
        link.send(M.PeerPierceFirewall.Request(relay.ticket))
        link.typ = relay.typ
        if relay.typ != 'P':
            link.obfuscated = False
        link.pierce_ticket = relay.ticket
        state['pierce_links'].append(link)
        world.trace('bob.pierced', relay.ticket)
        bob.spawn(drain_link(link))
        return link

    def on_relay(relay):
        state['relay'].append(relay)
        if indirect in ('pierce_fast', 'pierce_slow'):
            return pierce(relay, plan['indirect_delay'])
        if indirect == 'pierce_edge':
            return pierce_edge(relay)
        return None
    bob.connect_to_peer_handler = on_relay

    if indirect == 'cannot':
        async def cannot_handler(session, message):
            if session.username != 'alice':
                return False
            state['relay'].append(message)
            await asyncio.sleep(plan['indirect_delay'] or 0)
            world.net.fired['cannot_connect'] += 1
            session.send(M.CannotConnect.Response(message.ticket))
        server.handlers[M.ConnectToPeer.Request] = cannot_handler

    calls = []
    obs = {'iters_init': [], 'init_conns': []}

    def on_event(event):
        if isinstance(event, PeerInitializedEvent) and event.connection.username == 'bob':
            obs['iters_init'].append((loop.time(), loop.iterations, event.connection.incoming))
            obs['init_conns'].append((loop.time(), loop.iterations, event.connection,
                                      getattr(getattr(getattr(event.connection, '_writer', None), 'transport', None), 'conn', None)))
    alice.recorder.hooks.append(on_event)

    if plan.get('slow_init'):
        # an application listener that takes its time when a connection the peer opened (the pierced one) is announced:
        # the request can stop waiting (the other attempt wins, the caller gives up) while it is suspended
        async def slow_init(event):
            if event.connection.incoming:
                world.net.fired['slow_listener_on_pierced_connection'] += 1
                await asyncio.sleep(float(plan['slow_init']))
        world.keep_alive.append(slow_init)
        client.events.register(PeerInitializedEvent, slow_init, priority=2000)

    # --- cancellation triggers --------------------------------------------------
    cancel = plan.get('cancel')

    def fire_cancel():
        if state['cancel_fired'] or not calls:
            return
        call = calls[0]
        if call.task is not None and not call.task.done():
            state['cancel_fired'] = True
            state['cancel_at'] = (loop.time(), loop.iterations)
            world.net.fired['cancel_caller'] += 1
            call.task.cancel()

    def hop_cancel(k):
        if k <= 0:
            fire_cancel()
        else:
            loop.call_soon(hop_cancel, k - 1)

    if cancel and cancel['after'] != 'time':
        want = cancel['after']

        def server_obs(session, message):
            if session.username != 'alice':
                return
            if want == 'get_peer_address' and isinstance(message, M.GetPeerAddress.Request):
                hop_cancel(cancel['plus_iter'])
            if want == 'connect_to_peer_written' and isinstance(message, M.ConnectToPeer.Request):
                hop_cancel(cancel['plus_iter'])
        server.observers.append(server_obs)
        from sim.net import Tap

        class CancelTap(Tap):
            def on_connect(self, conn):
                if want == 'connect_started' and conn.src.name == 'alice' and conn.dst.name == 'bob':
                    hop_cancel(cancel['plus_iter'])

            def on_write(self, conn, direction, data):
                if want == 'peer_init_written' and conn.src.name == 'alice' and conn.dst.name == 'bob' \
                        and direction == 'c2s':
                    hop_cancel(cancel['plus_iter'])

            def on_accept(self, conn):
                if want == 'pierce_accepted' and conn.src.name == 'bob' and conn.dst.name == 'alice':
                    hop_cancel(cancel['plus_iter'])
        world.net.taps.append(CancelTap())

    results = {}

    async def main():
        await world.start_client(alice)
        await asyncio.sleep(1.0)
        if indirect == 'server_dead':
            session = server.session_of('alice')
            if session is not None:
                world.net.fired['server_link_dead'] += 1
                session.abort()
            await asyncio.sleep(0.5)
        kwargs = {}
        if plan.get('explicit_addr'):
            port, obf = expected_port(plan['ports'] if plan['ports'] != 'none' else 'clear', plan['prefer'], bob)
            kwargs = {'ip': bob.host.ip, 'port': port, 'obfuscate': obf}
        t_call = loop.time()
        if indirect == 'server_send_fails' and (plan['mode'] == 'race' or not plan.get('explicit_addr')):
            # race mode (and the address lookup) write to the server link in the first step of the call
            reset_server_link()
        calls.append(world.call(alice, 'cpc0', network.create_peer_connection, 'bob', typ, **kwargs))
        if plan.get('second_call'):
            calls.append(world.call(alice, 'cpc1', network.create_peer_connection, 'bob', typ, **kwargs))
        if cancel and cancel['after'] == 'time':
            await asyncio.sleep(cancel['time'])
            hop_cancel(cancel['plus_iter'])
        bound = DIRECT_TIMEOUT + INDIRECT_TIMEOUT + SLACK
        while loop.time() < t_call + bound and any(not c.done for c in calls):
            await asyncio.sleep(0.25)
        results['hang'] = [c for c in calls if not c.done]
        for c in results['hang']:
            c.task.cancel()
        # usability probe right after the call ended
        results['probe'] = {}
        for i, c in enumerate(calls):
            if c.outcome() == 'returned' and c.result is not None:
                conn = c.result
                probe = {'P': M.PeerUserInfoRequest.Request(), 'D': M.DistributedPing.Request(),
                         'F': (0xABCD0000 + i).to_bytes(4, 'little')}[typ]
                results['probe'][i] = {
                    'state': conn.state, 'cstate': conn.connection_state, 'typ': conn.connection_type,
                    'user': conn.username, 'obfuscated': conn.obfuscated, 'port': conn.port,
                    'incoming': conn.incoming, 'sent_at': loop.time(), 'probe': probe,
                    'sim_conn': getattr(getattr(getattr(conn, '_writer', None), 'transport', None), 'conn', None)}
                alice.spawn(conn.send_message(probe))
        await asyncio.sleep(8.0)
        first_look = list(network.peer_connections)
        # (the peer's own late pierce can be in the middle of being turned away in this very instant: what counts is what
        # is still registered a moment later)
        await asyncio.sleep(0.5)
        results['registry_8'] = [c for c in network.peer_connections if any(c is f for f in first_look)]
        results['open_8'] = [tr for tr in world.net.open_transports(alice.host)
                             if tr.conn.dst.name != 'server']
        # residue, behavioural: a late pierce with each ticket and a late CannotConnect
        tickets = sorted({m.ticket for (_, m) in server.frames(M.ConnectToPeer.Request, user='alice')})
        results['tickets'] = tickets
        results['late'] = []
        for ticket in tickets:
            relay = M.ConnectToPeer.Response(username='alice', typ=typ, ip=alice.host.ip, port=60000,
                                             ticket=ticket, privileged=False, obfuscated_port_amount=0,
                                             obfuscated_port=0)
            before = set(id(c) for c in network.peer_connections)
            task = bob.spawn(pierce(relay, 0, record=False))
            await asyncio.sleep(3.0)
            link = task.result() if task.done() and not task.cancelled() else None
            adopted = [c for c in network.peer_connections if id(c) not in before
                       and c.state == ConnectionState.CONNECTED
                       and c.connection_state != PeerConnectionState.AWAITING_INIT]
            results['late'].append({'ticket': ticket, 'adopted': bool(adopted)})
            if indirect not in ('server_dead', 'server_send_fails'):
                server.send_to('alice', M.CannotConnect.Response(ticket))
        await asyncio.sleep(2.0)
        results['table_conn'] = dict(getattr(network, '_expected_connection_futures', {}) or {})
        results['table_resp'] = [f for f in (getattr(network, '_expected_response_futures', []) or [])
                                 if getattr(f, 'message_class', None) is M.CannotConnect.Response]
        await asyncio.sleep(100.0)
        results['registry_100'] = list(network.peer_connections)
        results['open_100'] = [tr for tr in world.net.open_transports(alice.host)
                               if tr.conn.dst.name != 'server']

    world.run(main())

    # ------------------------------------------------------------------ oracle
    server_up = indirect not in ('server_dead', 'server_send_fails')
    have_addr = plan['ports'] != 'none' and (plan.get('explicit_addr') or server_up)
    direct_works = have_addr and direct in ('fast', 'slow') and not (plan.get('bad_port') and not plan.get('explicit_addr'))
    indirect_works = server_up and indirect in ('pierce_fast', 'pierce_slow')
    facts = {'mode': plan['mode'], 'direct': direct, 'indirect': indirect}
    if plan['ports'] == 'none':
        facts['ports'] = 'none'
    if plan.get('explicit_addr'):
        facts['explicit_addr'] = True
    cancelled_run = state['cancel_fired']
    if cancelled_run:
        facts['caller_cancelled'] = True

    for c in results.get('hang', []):
        world.violate('C11.hang', **facts)
    for i, c in enumerate(calls):
        if c in results.get('hang', []):
            continue
        out = c.outcome()
        if i == 0 and cancelled_run:
            if out not in ('cancelled', 'returned', 'raised:PeerConnectionError'):
                world.violate('C11.wrong_exception', **facts, got=out)
            continue
        if out == 'returned':
            if not (direct_works or indirect_works or indirect == 'pierce_edge'):
                world.violate('C11.should_fail', **facts)
        elif out.startswith('raised:'):
            if not isinstance(c.exception, PeerConnectionError):
                world.violate('C11.wrong_exception', **facts, got=type(c.exception).__name__)
            elif indirect == 'pierce_edge' and not direct_works:
                world.probe('pierce_in_the_instant_of_the_deadline_lost')
            elif plan.get('slow_init') and indirect == 'pierce_slow' and not direct_works and \
                    float(plan.get('indirect_delay') or 0.0) + float(plan['slow_init']) > INDIRECT_TIMEOUT - 5.0:
                # the pierced connection was there in time but the application's listener held its announcement beyond
                # the deadline of the request: a timeout is a timeout
                world.probe('pierce_announced_after_the_deadline_by_slow_listener')
            elif direct_works or indirect_works:
                # fallback mode only reaches the indirect path after the direct one failed - still must succeed
                world.violate('C11.should_succeed', **facts)
        elif out == 'cancelled':
            world.violate('C11.wrong_exception', **facts, got='CancelledError without cancel')

    # usability of what was returned
    returned = []
    for i, info in results.get('probe', {}).items():
        conn = calls[i].result
        returned.append(conn)
        ok_state = info['state'] == ConnectionState.CONNECTED and (
            info['cstate'] == (PeerConnectionState.NEGOTIATING_TRANSFER if typ == 'F' else PeerConnectionState.ESTABLISHED))
        if not ok_state or info['typ'] != typ or info['user'] != 'bob':
            world.violate('C11.unusable', **facts, why='state/type/user',
                          state=info['state'].name, cstate=info['cstate'].name)
            continue
        # the probe must have reached bob on that very socket
        delivered = False
        for link in bob.links:
            if info.get('sim_conn') is not None and link.writer.transport.conn is not info['sim_conn']:
                continue
            if typ == 'F':
                if bytes(info['probe']) in bytes(link.raw):
                    delivered = True
            else:
                for (_, m) in link.frames:
                    if type(m) is type(info['probe']):
                        delivered = True
        if not delivered:
            world.violate('C11.unusable', **facts, why='probe not delivered')
        elif not info['incoming']:
            want_port, want_obf = expected_port(plan['ports'], plan['prefer'], bob)
            if not plan.get('explicit_addr') and want_port is not None and (
                    info['port'] != want_port):
                world.violate('C11.port_choice', ports=plan['ports'], prefer=plan['prefer'], got_port=info['port'] - bob.port)

    # port choice is also visible on every direct attempt
    want_port, want_obf = expected_port(plan['ports'], plan['prefer'], bob)
    if not plan.get('explicit_addr') and not plan.get('bad_port'):
        for att in state['direct_attempts']:
            if want_port is not None and att['port'] != want_port:
                world.violate('C11.port_choice', ports=plan['ports'], prefer=plan['prefer'],
                              got_port=att['port'] - bob.port)
    # obfuscation flag: bob must have been able to decode the init message on the port's own rule
    for link in bob.links:
        if link.incoming and link.init is not None and isinstance(link.init, tuple):
            world.violate('C11.port_choice', ports=plan['ports'], prefer=plan['prefer'], why='init undecodable on that port')

    # exactly the returned connections remain (8 s after the end).  When the caller itself was
    # cancelled nothing is returned; a connection whose attempt had completed before the
    # cancellation has been announced on the event bus (PeerInitializedEvent) and may remain.
    returned_conns = [info.get('sim_conn') for info in results.get('probe', {}).values()]
    if cancelled_run:
        # ... before the cancellation was *delivered*, i.e. before the call ended
        end_call = calls[0]
        ct = end_call.returned_at if end_call.returned_at is not None else float('inf')
        ci = end_call.returned_iter if end_call.returned_iter is not None else 0
        for (t, it, c, sim_conn) in obs['init_conns']:
            if t < ct or (t == ct and it <= ci):
                returned.append(c)
                returned_conns.append(sim_conn)
                world.probe('connection_completed_before_cancel')
    live_returned = [c for c in returned if c.state == ConnectionState.CONNECTED]
    reg8 = results.get('registry_8', [])
    for c in reg8:
        if c not in returned:
            world.violate('C11.loser_open', **facts, what='registered',
                          state=c.state.name, cstate=c.connection_state.name)
    for c in live_returned:
        if c not in reg8:
            world.violate('C11.loser_open', **facts, what='returned connection not registered')
    for tr in results.get('open_8', []):
        if not any(tr.conn is rc for rc in returned_conns):
            world.violate('C11.loser_open', **facts, what='socket open',
                          direction='outgoing' if tr.side == 'a' else 'incoming')
    # residue
    for late in results.get('late', []):
        if late['adopted']:
            world.violate('C11.residue_pierce', **facts)
    if results.get('table_conn'):
        world.violate('C11.residue_table', **facts, table='expected_connection_futures')
    if results.get('table_resp'):
        world.violate('C11.residue_table', **facts, table='cannot_connect_waiter')
    # after 100 s nothing but returned connections (P/D idle out at 60 s, that is fine)
    for tr in results.get('open_100', []):
        if not any(tr.conn is rc for rc in returned_conns):
            world.violate('C11.loser_open', **facts, what='socket open after 100 s',
                          direction='outgoing' if tr.side == 'a' else 'incoming')
    for rec in world.loop.exc_contexts:
        world.violate('C11.residue_table', **facts, what='loop exception handler', exc=rec.get('exc_type'),
                      coro=rec.get('coro'))
        break

    # probes / signature
    its = obs['iters_init']
    out_its = [x for x in its if not x[2]]
    in_its = [x for x in its if x[2]]
    if out_its and in_its:
        world.probe('both_attempts_initialised')
        if any(abs(a[0] - b[0]) < 1e-9 for a in out_its for b in in_its):
            world.probe('both_attempts_same_instant')
        if any(abs(a[1] - b[1]) <= 3 and abs(a[0] - b[0]) < 1e-9 for a in out_its for b in in_its):
            world.probe('both_attempts_within_3_iterations')
    nontrivial = (direct not in ('fast',) or indirect not in ('pierce_fast',) or cancelled_run
                  or len(its) >= 2 or plan.get('second_call'))
    order = tuple(e[1] for e in world.trace_events if e[1] in ('bob.accept', 'bob.pierced', 'net.connect', 'net.lost',
                                                               'return', 'raise', 'cancelled'))
    sig = [plan['mode'], direct, indirect, plan['ports'], plan['prefer'], typ, plan.get('explicit_addr'),
           plan.get('second_call'), bool(plan.get('cancel')), order, [c.outcome() for c in calls]]
    return common.finish(world, nontrivial, sig)


def _run_connect_back(world: World, plan):
    loop = world.loop
    server, bob, alice = _setup(world, plan)
    typ = plan['typ']
    accept = plan['accept']
    ticket = 4242

    def connect_hook(attempt):
        if attempt['src'] != 'alice' or attempt['dst'] != 'bob':
            return None
        d = plan['accept_delay']
        return {'fast': ('accept', d), 'slow': ('slow', d), 'refused': ('refuse', d), 'blackhole': ('blackhole', None)}[accept]
    world.net.connect_hook = connect_hook
    first_frames = []

    async def on_accept(link):
        msg = await link.recv_init()
        first_frames.append((loop.time(), msg, link.obfuscated, link.writer.get_extra_info('sockname')[1]))
        while True:
            data = await link.read_some()
            if data is None:
                return
    bob.accept_handler = on_accept

    async def main():
        await world.start_client(alice)
        await asyncio.sleep(1.0)
        ip, port, obf = server.address_of('bob')
        server.send_to('alice', M.ConnectToPeer.Response(
            username='bob', typ=typ, ip=ip, port=port, ticket=ticket, privileged=False,
            obfuscated_port_amount=1 if obf else 0, obfuscated_port=obf))
        await asyncio.sleep(DIRECT_TIMEOUT + 10.0)

    world.run(main())
    facts = {'accept': accept, 'typ': typ}
    pierces = [f for f in first_frames if isinstance(f[1], M.PeerPierceFirewall.Request) and f[1].ticket == ticket]
    cannots = [m for (_, m) in server.frames(M.CannotConnect.Request, user='alice') if m.ticket == ticket]
    if len(pierces) + len(cannots) != 1:
        world.violate('C11.connect_back', **facts, pierces=len(pierces), cannot_connect=len(cannots))
    if cannots and cannots[0].username != 'bob':
        world.violate('C11.connect_back', **facts, why='CannotConnect names the wrong user')
    for f in first_frames:
        if not isinstance(f[1], M.PeerPierceFirewall.Request):
            world.violate('C11.connect_back', **facts, why='first frame is not a pierce (or undecodable on that port)')
    want_port, want_obf = expected_port(plan['ports'], plan['prefer'], bob)
    for att in world.net.connect_attempts:
        if att['src'] == 'alice' and att['dst'] == 'bob' and att['port'] != want_port and want_port is not None:
            world.violate('C11.port_choice', ports=plan['ports'], prefer=plan['prefer'], got_port=att['port'] - bob.port,
                          shape='connect_back')
    # nothing left behind when it failed
    if accept in ('refused', 'blackhole'):
        left = [c for c in alice.client.network.peer_connections]
        if left:
            world.violate('C11.loser_open', shape='connect_back', accept=accept, what='registered',
                          state=left[0].state.name)
    for rec in world.loop.exc_contexts:
        world.violate('C11.connect_back', **facts, why='loop exception handler', exc=rec.get('exc_type'))
        break
    sig = ['cb', accept, plan['ports'], plan['prefer'], typ, len(pierces), len(cannots)]
    return common.finish(world, accept != 'fast', sig)

INFO['rule'] += " Round-5 additions: indirect outcome pierce_edge - the pierce is released in the exact instant of the library's own deadline timer (read from the loop's schedule), swept over 0..6 loop iterations, +-1 ns and +-3 ulps; either outcome passes, nothing may be left behind."

INFO['rule'] += ' Round-6 additions: address with a port that does not fit 16 bits (bad_port) x every indirect outcome; a slow PeerInitializedEvent listener on the pierced connection while the other attempt wins or the caller gives up (slow_init).'
