"""C12 - a reply completes exactly the requests it answers; a timeout is a timeout.

World: one real client logged in to the scripted server, two scripted peers with an
established P connection each.  The plan holds pending requests in the three public
forms and a scripted sequence of incoming messages; the oracle is the waiter model of
DESIGN.md B.2 evaluated over the delivered-message history.
"""
from __future__ import annotations

import asyncio

from aioslsk import commands as C
from aioslsk.protocol import messages as M
from aioslsk.protocol.primitives import DirectoryData, UserStats
from aioslsk.events import MessageReceivedEvent
from aioslsk.network.connection import PeerConnection, ServerConnection

from sim.world import World
from . import common

PROPERTY = 'C12'
INFO = {
    'level': 'exploration',
    'rule': ('plans = 1..4 pending requests (execute / wait_for_*_message / response future with external '
             'cancel) x scripted incoming messages (answers, near misses, duplicates) with arrivals placed '
             'before, at and after deadlines and cancels; non-trivial = two requests overlap in time, or a '
             'message is delivered in the same virtual instant as a deadline or cancellation, or a cancel '
             'fired; distinct = interleaving signature over (request forms, message kinds, match relation, '
             'relative order, outcomes)'),
    'real': common.REAL,
    'stub': common.STUB,
    'assumptions': [
        'scripted server/peers encode frames with aioslsk message classes (codec is trusted base)',
        'deadline of a request = invoke instant + timeout (sends complete in zero virtual time on an open link)',
        'events in the same virtual instant as a deadline/cancel/registration may go either way',
    ],
}
INFO['rule'] += " Later additions: directed plans in which the request's own send is suspended (server not reading, write buffer full) while the answer arrives."

SERVER_KINDS = ('status', 'stats', 'join', 'address')
PEER_KINDS = ('userinfo', 'shares', 'dircontents')
USERS = ('u1', 'u2')
PEERS = ('bob', 'carol')
EPS = 5e-10


# ----------------------------------------------------------------------------- messages

def build_message(kind, arg, val, ticket=None):
    if kind == 'status':
        return M.GetUserStatus.Response(arg, val % 3, bool((val // 3) % 2))
    if kind == 'stats':
        return M.GetUserStats.Response(arg, UserStats(val, 1, 2, 3))
    if kind == 'join':
        return M.JoinRoom.Response(arg, users=[f'w{val}'], users_status=[2],
                                   users_stats=[UserStats(1, 1, 1, 1)], users_slots_free=[1],
                                   users_countries=['BE'])
    if kind == 'address':
        return M.GetPeerAddress.Response(arg, '10.1.2.3', 1000 + val, obfuscated_port_amount=0, obfuscated_port=0)
    if kind == 'userinfo':
        return M.PeerUserInfoReply.Request(f'd{val}', False, None, 1, val, True, upload_permissions=1)
    if kind == 'shares':
        return M.PeerSharesReply.Request([DirectoryData(f'dir{val}', [])], unknown=0, locked_directories=[])
    if kind == 'dircontents':
        return M.PeerDirectoryContentsReply.Request(ticket or 0, arg, [DirectoryData(f'sub{val}', [])])
    raise ValueError(kind)


def message_class(kind):
    return {
        'status': M.GetUserStatus.Response, 'stats': M.GetUserStats.Response, 'join': M.JoinRoom.Response,
        'address': M.GetPeerAddress.Response, 'userinfo': M.PeerUserInfoReply.Request,
        'shares': M.PeerSharesReply.Request, 'dircontents': M.PeerDirectoryContentsReply.Request,
    }[kind]


def build_command(kind, src, arg):
    if kind == 'status':
        return C.GetUserStatusCommand(arg)
    if kind == 'stats':
        return C.GetUserStatsCommand(arg)
    if kind == 'join':
        return C.JoinRoomCommand(arg)
    if kind == 'address':
        return C.GetPeerAddressCommand(arg)
    if kind == 'userinfo':
        return C.PeerGetUserInfoCommand(src)
    if kind == 'shares':
        return C.PeerGetSharesCommand(src)
    if kind == 'dircontents':
        return C.PeerGetDirectoryContentCommand(src, arg)
    raise ValueError(kind)


def result_val(kind, form, result):
    """Extract the 'val' a request's result carries (None if it cannot be told)."""
    try:
        if form != 'execute':
            msg = result
            if kind == 'status':
                return ('status', msg.status, msg.privileged)
            if kind == 'stats':
                return msg.user_stats.avg_speed
            if kind == 'join':
                return msg.users[0]
            if kind == 'address':
                return msg.port
            if kind == 'userinfo':
                return msg.description
            if kind == 'shares':
                return msg.directories[0].name
            if kind == 'dircontents':
                return msg.directories[0].name
        else:
            if kind == 'status':
                return ('status', result.status.value, result.privileged)
            if kind == 'stats':
                return result.avg_speed
            if kind == 'join':
                return None
            if kind == 'address':
                return result[1]
            if kind == 'userinfo':
                return result.description
            if kind == 'shares':
                return result[0][0].name
            if kind == 'dircontents':
                return result[0].name
    except Exception:
        return ('unreadable', repr(result)[:60])
    return None


def message_val(kind, msg):
    if kind == 'status':
        return ('status', msg.status, msg.privileged)
    if kind == 'stats':
        return msg.user_stats.avg_speed
    if kind == 'join':
        return msg.users[0]
    if kind == 'address':
        return msg.port
    if kind == 'userinfo':
        return msg.description
    if kind == 'shares':
        return msg.directories[0].name
    if kind == 'dircontents':
        return msg.directories[0].name


# ----------------------------------------------------------------------------- generator

def generate(rng, index, tier):
    precise = rng.random() < 0.6
    if precise:
        net = {'base_ms': rng.choice([1, 5, 20]), 'jitter_ms': 0, 'segmentation': 'whole',
               'coalesce': rng.random() < 0.6}
    else:
        net = common.draw_net(rng)
    nreq = rng.randint(1, 4)
    share = rng.random() < 0.4
    reqs = []
    for i in range(nreq):
        if share and reqs and rng.random() < 0.7:
            proto = rng.choice(reqs)
            src, kind, arg = proto['src'], proto['kind'], proto['arg']
        else:
            if rng.random() < 0.6:
                src = 'server'
                kind = rng.choice(SERVER_KINDS)
                arg = rng.choice(USERS) if kind != 'join' else rng.choice(('r1', 'r2'))
            else:
                src = rng.choice(PEERS)
                kind = rng.choice(PEER_KINDS)
                arg = rng.choice(('dirA', 'dirB')) if kind == 'dircontents' else None
        form = rng.choice(('execute', 'execute', 'wait', 'future'))
        req = {
            'id': i, 'form': form, 'src': src, 'kind': kind, 'arg': arg,
            'timeout': rng.choice([0.05, 1.0, 1.0, 10.0]),
            'at': round(rng.choice([0.0, 0.0, 0.01, 0.3, 1.0]) + (0 if rng.random() < 0.5 else rng.random()), 4),
        }
        if form == 'future':
            req['timeout'] = None
            if kind == 'status' and rng.random() < 0.5:
                # callable matcher followed by a plain one
                req['matcher'] = 'callable_then_privileged'
        if form in ('wait', 'future') and kind == 'status' and 'matcher' not in req and rng.random() < 0.4:
            req['matcher'] = 'falsy_values'
        reqs.append(req)
    msgs = []
    val = 1
    cancels = []

    class _L(list):
        def append(self, m):
            m.setdefault('mid', len(self))
            super().append(m)
    msgs = _L()
    for req in reqs:
        deadline = req['at'] + req['timeout'] if req['timeout'] else None
        r = rng.random()
        shape = ('early' if r < 0.35 else 'before' if r < 0.45 else 'at' if r < 0.55 else 'after' if r < 0.65
                 else 'never' if r < 0.75 else 'nearmiss' if r < 0.85 else 'cancel')
        if req['form'] == 'future' and shape in ('before', 'at', 'after', 'never'):
            shape = 'cancel'
        if shape == 'early':
            arrive = req['at'] + rng.choice([0.002, 0.02, 0.2]) * (1 if deadline is None else min(1.0, req['timeout'] * 5))
            if deadline is not None and arrive >= deadline:
                arrive = req['at'] + req['timeout'] / 2
        elif shape == 'before':
            arrive = deadline - 1e-9
        elif shape == 'at':
            arrive = deadline
        elif shape == 'after':
            arrive = deadline + 1e-9
        elif shape == 'never':
            arrive = None
        elif shape == 'nearmiss':
            arrive = req['at'] + 0.01
        else:
            arrive = req['at'] + rng.choice([0.05, 0.3])
        if shape == 'nearmiss':
            miss = rng.choice(('user', 'type', 'peer'))
            m = {'arrive': arrive, 'src': req['src'], 'kind': req['kind'], 'arg': req['arg'], 'val': val}
            if miss == 'user' and req['src'] == 'server':
                m['arg'] = 'r9' if req['kind'] == 'join' else 'u9'
            elif miss == 'type':
                pool = SERVER_KINDS if req['src'] == 'server' else ('userinfo', 'shares')
                m['kind'] = rng.choice([k for k in pool if k != req['kind']])
                if m['kind'] == 'join':
                    m['arg'] = 'r1'
                elif m['kind'] in SERVER_KINDS:
                    m['arg'] = req['arg'] if req['arg'] in USERS else 'u1'
            elif req['src'] != 'server':
                m['src'] = 'carol' if req['src'] == 'bob' else 'bob'
                if req['kind'] == 'dircontents':
                    m['ticket'] = f"req:{req['id']}"
            elif req['kind'] == 'dircontents':
                m['ticket'] = 'wrong'
            msgs.append(m)
            val += 1
            # the real answer later, in 60 %
            if rng.random() < 0.6:
                m2 = {'arrive': arrive + 0.05, 'src': req['src'], 'kind': req['kind'], 'arg': req['arg'], 'val': val}
                if req['kind'] == 'dircontents':
                    m2['ticket'] = f"req:{req['id']}"
                msgs.append(m2)
                val += 1
        elif arrive is not None:
            m = {'arrive': arrive, 'src': req['src'], 'kind': req['kind'], 'arg': req['arg'], 'val': val}
            if req['kind'] == 'dircontents':
                m['ticket'] = f"req:{req['id']}"
            if req.get('matcher'):
                m['val'] = val if rng.random() < 0.5 else val + 3   # privileged bit varies
            msgs.append(m)
            val += 1
            if rng.random() < 0.2:   # duplicate
                d = dict(m)
                d.pop('mid')
                d['val'] = val
                d['arrive'] = arrive + rng.choice([0.0, 0.001, 0.5])
                msgs.append(d)
                val += 1
        if shape == 'cancel':
            cancels.append({'req': req['id'], 'on_msg': msgs[-1]['mid'] if msgs else None,
                            'plus_iter': rng.randint(0, 3),
                            'at': None if rng.random() < 0.7 and msgs else arrive})
    if rng.random() < 0.3 and msgs:
        # force several frames of one source to the same instant (back-to-back handling)
        src = rng.choice(msgs)['src']
        same = [m for m in msgs if m['src'] == src]
        t = min(m['arrive'] for m in same)
        for m in same[:3]:
            m['arrive'] = t
    msgs = sorted(msgs, key=lambda m: m['arrive'])
    plan = {
        'seed': rng.getrandbits(32), 'net': net, 'precise': precise,
        'reqs': reqs, 'msgs': msgs, 'cancels': cancels,
    }
    if rng.random() < 0.1:
        # the server connection is lost after the last request was issued
        plan['server_loss'] = {'at': round(max(r['at'] for r in reqs) + rng.choice([0.05, 0.3, 1.0]), 3),
                               'how': rng.choice(('close', 'abort'))}
    if rng.random() < 0.1:
        plan['raising_listener'] = rng.choice(('message', 'status'))
    if rng.random() < 0.1 and any(r['src'] != 'server' for r in reqs):
        plan['close_on_reply'] = rng.choice([0.0, 0.01, 0.3])
    if rng.random() < 0.15:
        # connection requests for one user overlap while the server's answer with his address is outstanding; some of
        # the callers give up before it arrives
        n = rng.randint(2, 3)
        answer = rng.choice([0.5, 1.0, 3.0])
        plan['lookups'] = {'answer_at': answer, 'calls': [
            {'at': round(rng.uniform(0.0, 0.3), 3), 'typ': rng.choice(('P', 'P', 'F')),
             'cancel_at': rng.choice([None, None, round(rng.uniform(0.3, answer + 0.5), 3)])} for _ in range(n)]}
    return plan


def corpus(tier):
    """Directed plans: one per clause."""
    out = []
    base = {'seed': 1, 'net': {'base_ms': 5, 'jitter_ms': 0, 'segmentation': 'whole', 'coalesce': True},
            'precise': True, 'cancels': []}
    # 0. connection requests for one user overlap while his address is outstanding; one caller gives up before the answer
    for typs in (('P', 'P'), ('F', 'P'), ('P', 'P', 'F')):
        for cancel in (None, 0.4, 0.9):
            for who in (0, 1):
                calls_ = [{'at': 0.05 * i, 'typ': t, 'cancel_at': cancel if i == who else None} for i, t in enumerate(typs)]
                out.append(dict(base, reqs=[{'id': 0, 'form': 'execute', 'src': 'server', 'kind': 'status', 'arg': 'u1',
                                             'timeout': 3.0, 'at': 0.0}],
                                msgs=[{'arrive': 0.6, 'src': 'server', 'kind': 'status', 'arg': 'u1', 'val': 1}],
                                lookups={'answer_at': 1.0, 'calls': calls_}))
    # 1. plain answer for each kind / form
    i = 0
    for form in ('execute', 'wait', 'future'):
        for kind in SERVER_KINDS + PEER_KINDS:
            src = 'server' if kind in SERVER_KINDS else 'bob'
            arg = {'join': 'r1', 'dircontents': 'dirA'}.get(kind, 'u1' if kind in SERVER_KINDS else None)
            req = {'id': 0, 'form': form, 'src': src, 'kind': kind, 'arg': arg,
                   'timeout': None if form == 'future' else 1.0, 'at': 0.0}
            msg = {'arrive': 0.2, 'src': src, 'kind': kind, 'arg': arg, 'val': 1}
            if kind == 'dircontents':
                msg['ticket'] = 'req:0'
            p = dict(base, reqs=[req], msgs=[msg])
            if form == 'future':
                p['cancels'] = [{'req': 0, 'on_msg': None, 'plus_iter': 0, 'at': 5.0}]
            out.append(p)
            i += 1
    # 2. timeout without answer, per form with a timeout
    for form in ('execute', 'wait'):
        for src, kind, arg in (('server', 'status', 'u1'), ('bob', 'userinfo', None)):
            out.append(dict(base, reqs=[{'id': 0, 'form': form, 'src': src, 'kind': kind, 'arg': arg,
                                         'timeout': 1.0, 'at': 0.0}], msgs=[]))
    # 3. two waiters, first cancelled in the iteration of the message
    for k in range(0, 4):
        out.append(dict(
            base,
            reqs=[{'id': 0, 'form': 'future', 'src': 'server', 'kind': 'status', 'arg': 'u1', 'timeout': None, 'at': 0.0},
                  {'id': 1, 'form': 'execute', 'src': 'server', 'kind': 'status', 'arg': 'u1', 'timeout': 10.0, 'at': 0.1}],
            msgs=[{'arrive': 0.5, 'src': 'server', 'kind': 'status', 'arg': 'u1', 'val': 1}],
            cancels=[{'req': 0, 'on_msg': 0, 'plus_iter': k, 'at': None}]))
    # 4. message exactly at / around the deadline of the first of two waiters
    for delta in (-1e-9, 0.0, 1e-9):
        out.append(dict(
            base,
            reqs=[{'id': 0, 'form': 'execute', 'src': 'server', 'kind': 'stats', 'arg': 'u1', 'timeout': 1.0, 'at': 0.0},
                  {'id': 1, 'form': 'wait', 'src': 'server', 'kind': 'stats', 'arg': 'u1', 'timeout': 10.0, 'at': 0.2}],
            msgs=[{'arrive': 1.0 + delta, 'src': 'server', 'kind': 'stats', 'arg': 'u1', 'val': 7}]))
    # 5. callable matcher followed by a second field
    for val in (1, 4):
        out.append(dict(
            base,
            reqs=[{'id': 0, 'form': 'future', 'src': 'server', 'kind': 'status', 'arg': 'u1', 'timeout': None,
                   'at': 0.0, 'matcher': 'callable_then_privileged'}],
            msgs=[{'arrive': 0.3, 'src': 'server', 'kind': 'status', 'arg': 'u1', 'val': val}],
            cancels=[{'req': 0, 'on_msg': None, 'plus_iter': 0, 'at': 3.0}]))
    # 5b. expected field values that are falsy (status 0, privileged False): near misses first, then the answer
    for form in ('wait', 'future'):
        out.append(dict(
            base,
            reqs=[{'id': 0, 'form': form, 'src': 'server', 'kind': 'status', 'arg': 'u1',
                   'timeout': None if form == 'future' else 5.0, 'at': 0.0, 'matcher': 'falsy_values'}],
            msgs=[{'arrive': 0.3, 'src': 'server', 'kind': 'status', 'arg': 'u1', 'val': 1},
                  {'arrive': 0.6, 'src': 'server', 'kind': 'status', 'arg': 'u1', 'val': 3},
                  {'arrive': 0.9, 'src': 'server', 'kind': 'status', 'arg': 'u1', 'val': 0}],
            cancels=[{'req': 0, 'on_msg': None, 'plus_iter': 0, 'at': 6.0}] if form == 'future' else []))
    # 5c. the application hangs up on the peer inside the dispatch of the reply (and then takes its time)
    for form in ('execute', 'wait', 'future'):
        for kind in ('userinfo', 'shares'):
            for slow in (0.0, 0.3):
                out.append(dict(
                    base, close_on_reply=slow,
                    reqs=[{'id': 0, 'form': form, 'src': 'bob', 'kind': kind, 'arg': None,
                           'timeout': None if form == 'future' else 3.0, 'at': 0.0}],
                    msgs=[{'arrive': 0.5, 'src': 'bob', 'kind': kind, 'arg': None, 'val': 1}],
                    cancels=[{'req': 0, 'on_msg': None, 'plus_iter': 0, 'at': 5.0}] if form == 'future' else []))
    # 6. right message from the other peer
    out.append(dict(
        base,
        reqs=[{'id': 0, 'form': 'execute', 'src': 'bob', 'kind': 'shares', 'arg': None, 'timeout': 2.0, 'at': 0.0}],
        msgs=[{'arrive': 0.3, 'src': 'carol', 'kind': 'shares', 'arg': None, 'val': 1},
              {'arrive': 0.6, 'src': 'bob', 'kind': 'shares', 'arg': None, 'val': 2}]))
    # 8. the request's own send is suspended (server not reading, write buffer full) while the answer arrives
    for kind, arg in (('status', 'u1'), ('stats', 'u1'), ('join', 'r1'), ('address', 'u1')):
        for reply_at in (0.8, 1.2):
            out.append(dict(
                base, send_stall={'from': 0.3, 'until': 1.5},
                reqs=[{'id': 0, 'form': 'execute', 'src': 'server', 'kind': kind, 'arg': arg, 'timeout': 6.0, 'at': 0.5}],
                msgs=[{'arrive': reply_at, 'src': 'server', 'kind': kind, 'arg': arg, 'val': 3}]))
    # 9. the server connection is lost while requests are pending: a timeout stays a timeout, futures stay pending
    for how in ('close', 'abort'):
        for form in ('execute', 'wait', 'future'):
            req = {'id': 0, 'form': form, 'src': 'server', 'kind': 'status', 'arg': 'u1',
                   'timeout': None if form == 'future' else 3.0, 'at': 0.0}
            p = dict(base, server_loss={'at': 0.5, 'how': how}, reqs=[req, {'id': 1, 'form': 'execute', 'src': 'bob', 'kind': 'userinfo',
                                                                         'arg': None, 'timeout': 3.0, 'at': 0.1}],
                     msgs=[{'arrive': 1.0, 'src': 'bob', 'kind': 'userinfo', 'arg': None, 'val': 2}])
            if form == 'future':
                p['cancels'] = [{'req': 0, 'on_msg': None, 'plus_iter': 0, 'at': 5.0}]
            out.append(p)
    # 10. an application listener that raises while the answer is being handed round
    for which in ('message', 'status'):
        for form in ('execute', 'wait', 'future'):
            req = {'id': 0, 'form': form, 'src': 'server', 'kind': 'status', 'arg': 'u1',
                   'timeout': None if form == 'future' else 3.0, 'at': 0.0}
            p = dict(base, raising_listener=which, reqs=[req, dict(req, id=1, at=0.1)],
                     msgs=[{'arrive': 0.5, 'src': 'server', 'kind': 'status', 'arg': 'u1', 'val': 2}])
            if form == 'future':
                p['cancels'] = [{'req': 0, 'on_msg': None, 'plus_iter': 0, 'at': 5.0}, {'req': 1, 'on_msg': None, 'plus_iter': 0, 'at': 5.0}]
            out.append(p)
    # 7. directory contents: wrong ticket first, right ticket second
    out.append(dict(
        base,
        reqs=[{'id': 0, 'form': 'execute', 'src': 'bob', 'kind': 'dircontents', 'arg': 'dirA', 'timeout': 2.0, 'at': 0.0}],
        msgs=[{'arrive': 0.3, 'src': 'bob', 'kind': 'dircontents', 'arg': 'dirA', 'val': 1, 'ticket': 'wrong'},
              {'arrive': 0.6, 'src': 'bob', 'kind': 'dircontents', 'arg': 'dirA', 'val': 2, 'ticket': 'req:0'}]))
    return out


SHRINK_LISTS = ('reqs', 'msgs', 'cancels')


# ----------------------------------------------------------------------------- run

def spec_matches(req, msg_rec):
    """Specification predicate: does the delivered message answer the request?"""
    if msg_rec['src'] != req['src']:
        return False
    if msg_rec['kind'] != req['kind']:
        return False
    kind = req['kind']
    if kind in SERVER_KINDS:
        if msg_rec['arg'] != req['arg']:
            return False
        if req.get('matcher') == 'callable_then_privileged':
            return bool((msg_rec['val'] // 3) % 2)
        if req.get('matcher') == 'falsy_values':
            # expected values that are falsy in Python: status 0 (offline), privileged False
            return msg_rec['val'] % 3 == 0 and not bool((msg_rec['val'] // 3) % 2)
        return True
    if kind == 'dircontents' and req['form'] == 'execute':
        return msg_rec['arg'] == req['arg'] and msg_rec.get('ticket_req') == req['id']
    if kind == 'dircontents':
        return msg_rec['arg'] == req['arg']
    return True


def run(plan):
    world = World(plan, PROPERTY)
    try:
        return _run(world, plan)
    finally:
        world.close()


def _run(world: World, plan):
    loop = world.loop
    server = world.add_server()
    for cls in (M.GetUserStatus.Request, M.GetUserStats.Request, M.GetPeerAddress.Request):
        server.silent.add(cls)
    peers = {name: world.add_peer(name) for name in PEERS}
    alice = world.add_client('alice')
    client = alice.client
    network = client.network
    reqs = plan['reqs']
    msgs = plan['msgs']
    cancels = plan.get('cancels', [])
    calls = {}
    links = {}
    delivered = []          # (t, iteration, plan message index or None, message)
    sent_objs = {}          # id(message equality key) -> index
    dir_tickets = {}        # (peer, directory) -> list of tickets received by the peer, in order
    req_tickets = {}        # req id -> ticket sent
    ticket_oks = {}         # message index -> id of the request whose ticket it carries
    cmds = {}

    BASE = 1.0
    t0 = [None]

    async def peer_reader(peer, link):
        while True:
            msg = await link.recv('P')
            if msg is None:
                return
            if isinstance(msg, M.PeerDirectoryContentsRequest.Request):
                dir_tickets.setdefault((peer.name, msg.directory), []).append(msg.ticket)

    async def peer_boot(peer):
        link = await peer.connect_direct(alice.host.ip, 60000, 'P', ticket=1)
        links[peer.name] = link
        peer.spawn(peer_reader(peer, link))

    # index of scripted messages by a content key so deliveries can be attributed
    built = []

    def on_event(event):
        if not isinstance(event, MessageReceivedEvent):
            return
        conn = event.connection
        if isinstance(conn, ServerConnection):
            src = 'server'
        elif isinstance(conn, PeerConnection):
            src = conn.username
        else:
            return
        idx = None
        for i, (bsrc, bmsg, used) in enumerate(built):
            if not used[0] and bsrc == src and bmsg == event.message:
                idx = i
                used[0] = True
                break
        if idx is None:
            return
        t = loop.time()
        delivered.append((t, loop.iterations, idx, event.message))
        world.trace('deliver', idx, src)
        for c in cancels:
            if c.get('on_msg') is not None and c.get('on_msg') == msgs[idx].get('mid', idx) and c.get('at') is None:
                _cancel_after(c['req'], c.get('plus_iter', 0))

    def _cancel_after(req_id, hops):
        def fire():
            call = calls.get(req_id)
            if call is not None and call.task is not None and not call.task.done():
                world.net.fired['cancel_caller'] += 1
                call.cancel_time = loop.time()
                call.task.cancel()
        if hops <= 0:
            fire()
        else:
            def hop(n):
                if n <= 0:
                    fire()
                else:
                    loop.call_soon(hop, n - 1)
            loop.call_soon(hop, hops - 1)

    alice.recorder.hooks.append(on_event)

    def link_latency(src):
        return plan['net'].get('base_ms', 5) / 1000.0

    def make_request(req):
        kind, src, arg, form = req['kind'], req['src'], req['arg'], req['form']
        cls = message_class(kind)
        if form == 'execute':
            cmd = build_command(kind, src, arg)
            cmds[req['id']] = cmd

            async def do():
                return await client.execute(cmd, response=True, timeout=req['timeout'])
            return do
        fields = {}
        if kind in ('status', 'stats', 'address'):
            fields['username'] = arg
        elif kind == 'join':
            fields['room'] = arg
        elif kind == 'dircontents':
            fields['directory'] = arg
        if req.get('matcher') == 'callable_then_privileged':
            fields = {'username': (lambda v, a=arg: v == a), 'privileged': True}
        if req.get('matcher') == 'falsy_values':
            fields = {'username': arg, 'status': 0, 'privileged': False}
        if form == 'wait':
            if src == 'server':
                async def do():
                    return await network.wait_for_server_message(cls, fields=fields, timeout=req['timeout'])
            else:
                async def do():
                    return await network.wait_for_peer_message(src, cls, fields=fields, timeout=req['timeout'])
            return do

        async def do():
            if src == 'server':
                fut = network.create_server_response_future(cls, fields=fields)
            else:
                fut = network.create_peer_response_future(src, cls, fields=fields)
            _, response = await fut
            return response
        return do

    async def issue(req):
        await _sleep_until(t0[0] + req['at'])
        call = world.call(alice, f"req{req['id']}", make_request(req))
        call.cancel_time = None
        calls[req['id']] = call

    async def _sleep_until(when):
        fut = loop.create_future()
        loop.call_at(when, lambda: fut.done() or fut.set_result(None))
        await fut

    async def send_msgs():
        # group by arrival so that same-instant frames of one source are written back-to-back
        for i, m in enumerate(msgs):
            lat = link_latency(m['src']) if plan.get('precise') else 0.0
            when = t0[0] + m['arrive'] - lat
            if when > loop.time():
                await _sleep_until(when)
            ticket = None
            if m['kind'] == 'dircontents':
                spec = m.get('ticket')
                seen = dir_tickets.get((m['src'], m['arg']), [])
                if spec and spec.startswith('req:'):
                    rid = int(spec[4:])
                    # ticket the request really sent: the command object knows it once send() ran
                    # (private attribute; falls back to the order in which the peer saw the requests)
                    ticket = getattr(cmds.get(rid), '_ticket', None)
                    if ticket is None or ticket not in seen:
                        same = sorted((r for r in reqs if r['form'] == 'execute' and r['kind'] == 'dircontents'
                                       and r['src'] == m['src'] and r['arg'] == m['arg'] and r['id'] in calls
                                       and calls[r['id']].invoked_at is not None),
                                      key=lambda r: (calls[r['id']].invoked_at, r['id']))
                        rank = [r['id'] for r in same].index(rid) if rid in [r['id'] for r in same] else None
                        ticket = seen[rank] if rank is not None and rank < len(seen) else None
                    if ticket is not None:
                        ticket_oks[i] = rid
                    else:
                        ticket = 77777   # request not seen by that peer (yet): answers nothing
                else:
                    ticket = (max(seen) + 1000) if seen else 99999
            obj = build_message(m['kind'], m['arg'], m['val'], ticket)
            built.append((m['src'], obj, [False]))
            if m['src'] == 'server':
                server.send_to('alice', obj)
            else:
                link = links.get(m['src'])
                if link is not None:
                    link.send(obj)

    async def send_stall():
        """The server stops reading for a while and the client's write buffer is filled: every send on the server link
        issued in that window is suspended in drain() until the server reads again."""
        st = plan.get('send_stall')
        if not st:
            return
        await _sleep_until(t0[0] + st['from'])
        sess = [x for x in server.sessions if not x.closed][-1]
        world.net.fired['server_reader_stalled'] += 1
        sess.writer.transport.pause_reading()
        for i in range(4):
            world.call(alice, f'filler-{i}', network.send_server_messages,
                       M.PrivateChatMessage.Request('nobody', 'x' * 60000))
        await _sleep_until(t0[0] + st['until'])
        sess.writer.transport.resume_reading()

    if plan.get('raising_listener'):
        # an application listener (coroutine) that fails: the bus has to keep it away from everybody else
        from aioslsk.events import UserStatusUpdateEvent

        async def bad_listener(event):
            world.net.fired['listener_raised'] += 1
            await asyncio.sleep(0)
            raise RuntimeError('application listener failed')
        world.keep_alive.append(bad_listener)
        client.events.register(UserStatusUpdateEvent if plan['raising_listener'] == 'status' else MessageReceivedEvent,
                               bad_listener, priority=5)

    link_closed = {}
    if plan.get('close_on_reply') is not None:
        # an application listener (it runs after every other listener) that hangs up on a peer as soon as a reply of his has
        # been handed round, and then takes its time: the connection is closed while its own reader is still dispatching
        # the message; the requests the message answers are completed all the same
        from aioslsk.network.connection import CloseReason

        async def close_on_reply(event):
            if isinstance(event.connection, PeerConnection) and type(event.message) in (
                    M.PeerUserInfoReply.Request, M.PeerSharesReply.Request, M.PeerDirectoryContentsReply.Request):
                world.net.fired['connection_closed_while_its_message_is_dispatched'] += 1
                link_closed.setdefault(event.connection.username, loop.time())
                await event.connection.disconnect(CloseReason.REQUESTED)
                await asyncio.sleep(float(plan['close_on_reply']))
        world.keep_alive.append(close_on_reply)
        client.events.register(MessageReceivedEvent, close_on_reply, priority=5000)

    async def server_loss():
        """The server connection goes away (no reconnect) while requests are pending: nothing answers them any more, they
        have to end the way an unanswered request ends."""
        sl = plan.get('server_loss')
        if not sl:
            return
        await _sleep_until(t0[0] + sl['at'])
        sess = [x for x in server.sessions if not x.closed]
        if sess:
            world.net.fired['server_lost'] += 1
            lost['at'] = loop.time()
            (sess[-1].abort if sl.get('how') == 'abort' else sess[-1].close)()

    async def timed_cancels():
        for c in sorted([c for c in cancels if c.get('at') is not None], key=lambda c: c['at']):
            await _sleep_until(t0[0] + c['at'])
            _cancel_after(c['req'], c.get('plus_iter', 0))

    fresh = {}
    lost = {}
    lookup_calls = []

    async def lookups():
        lk = plan.get('lookups')
        if not lk:
            return
        server.silent.add(M.GetPeerAddress.Request)

        async def one(i, spec):
            await _sleep_until(t0[0] + spec['at'])
            call = world.call(alice, f'lookup{i}', network.create_peer_connection, 'lu', spec.get('typ', 'P'))
            call.harness_cancelled = False
            lookup_calls.append((spec, call))
            if spec.get('cancel_at') is not None:
                await _sleep_until(t0[0] + spec['cancel_at'])
                if not call.done:
                    world.net.fired['cancel_caller'] += 1
                    call.harness_cancelled = True
                    call.task.cancel()

        async def answer():
            await _sleep_until(t0[0] + lk['answer_at'])
            world.net.fired['address_answer_for_overlapping_requests'] += 1
            server.send_to('alice', M.GetPeerAddress.Response('lu', '10.9.9.9', 4000, obfuscated_port_amount=0,
                                                              obfuscated_port=0))
        await asyncio.gather(answer(), *[one(i, spec) for i, spec in enumerate(lk['calls'])])

    async def main():
        await world.start_client(alice)
        for peer in peers.values():
            peer.spawn(peer_boot(peer))
        await asyncio.sleep(BASE)
        t0[0] = loop.time()
        tasks = [asyncio.ensure_future(issue(r)) for r in reqs]
        tasks.append(asyncio.ensure_future(send_msgs()))
        tasks.append(asyncio.ensure_future(timed_cancels()))
        tasks.append(asyncio.ensure_future(send_stall()))
        tasks.append(asyncio.ensure_future(server_loss()))
        tasks.append(asyncio.ensure_future(lookups()))
        await asyncio.gather(*tasks)
        horizon = t0[0] + 14.0
        while loop.time() < horizon and any(not c.done for c in calls.values()):
            await asyncio.sleep(0.5)
        # every future-form request still pending is cancelled now (they have no timeout)
        for rid, call in calls.items():
            if not call.done:
                call.cancel_time = loop.time()
                call.forced_cancel = True
                call.task.cancel()
        if lookup_calls:
            await _sleep_until(max(loop.time(), t0[0] + plan['lookups']['answer_at'] + 3.0))
        for spec, call in lookup_calls:
            if not call.done:
                call.harness_cancelled = True
                call.task.cancel()
        await asyncio.sleep(1.0)
        # residue: a fresh request/answer pair still works
        if lost:
            return
        cmd = C.GetUserStatusCommand('fresh')
        fc = world.call(alice, 'fresh', client.execute, cmd, response=True, timeout=5.0)
        await asyncio.sleep(0.2)
        server.send_to('alice', M.GetUserStatus.Response('fresh', 2, False))
        await asyncio.sleep(6.0)
        fresh['call'] = fc

    world.run(main())

    # ------------------------------------------------------------------ oracle
    for spec, call in lookup_calls:
        out = call.outcome()
        if out == 'cancelled' and not call.harness_cancelled:
            # somebody else's giving up ended this caller's request
            world.violate('C12.missed', form='connect', kind='address', what='ended with CancelledError although nobody cancelled it')
        elif out.startswith('raised:') and 'PeerConnectionError' not in out:
            world.violate('C12.timeout_type', form='connect', kind='address', got=out[7:])
    if plan.get('lookups') and not lost and not plan.get('server_loss'):
        live = [1 for spec, call in lookup_calls
                if spec.get('cancel_at') is None or spec['cancel_at'] > plan['lookups']['answer_at'] + 1.0]
        tried = [a for a in world.net.connect_attempts if a['src'] == 'alice' and a.get('ip') == '10.9.9.9']
        if live and not tried:
            world.violate('C12.missed', form='connect', kind='address', what='the answer completed no pending request')
        elif live:
            world.probe('address_answer_completed_overlapping_requests')
    base = t0[0]
    deliveries = []
    for (t, it, idx, msg) in delivered:
        m = dict(msgs[idx])
        m['ticket_req'] = ticket_oks.get(idx)
        m['t'] = t
        m['iter'] = it
        m['idx'] = idx
        deliveries.append(m)

    nontrivial = False
    sig = []
    for req in reqs:
        call = calls.get(req['id'])
        if call is None or call.invoked_at is None:
            continue
        reg = call.invoked_at
        if req['src'] != 'server' and link_closed.get(req['src']) is not None and reg >= link_closed[req['src']] - EPS:
            # the established link to that peer was closed by the application before the request was made: the request
            # first needs a new connection (the scripted server does not hand out addresses) - outside the premise
            world.probe('request_after_link_closed_not_judged')
            continue
        deadline = reg + req['timeout'] if req['timeout'] else None
        cancel_t = getattr(call, 'cancel_time', None)
        end = min(x for x in (deadline, cancel_t, float('inf')) if x is not None)
        matching = [d for d in deliveries if spec_matches(req, d)]
        first_live = None
        ambiguous = []
        # with the listener that hangs up inside the dispatch (and then takes its time) a peer's message completes its requests
        # that much later than it was delivered
        lag = (float(plan['close_on_reply']) + 0.5) if plan.get('close_on_reply') is not None and req['src'] != 'server' else 0.0
        for d in matching:
            if abs(d['t'] - reg) <= EPS or abs(d['t'] - end) <= EPS or (lag and (
                    end - lag - EPS <= d['t'] <= end + EPS or reg - lag - EPS <= d['t'] <= reg + EPS)):
                ambiguous.append(d)
                nontrivial = True
                world.probe('message_in_instant_of_deadline_or_cancel')
                continue
            if reg < d['t'] < end:
                first_live = d
                break
        acceptable = list(ambiguous if first_live is None else
                          [a for a in ambiguous if a['t'] <= first_live['t']])
        if first_live is not None:
            acceptable.append(first_live)
        outcome = call.outcome()
        facts_base = {'form': req['form'], 'kind': req['kind'], 'src': 'server' if req['src'] == 'server' else 'peer'}
        if req.get('matcher'):
            facts_base['matcher'] = req['matcher']
        sig.append((req['form'], req['kind'], req['src'] == 'server', outcome,
                    len(matching), first_live is not None, len(ambiguous)))
        if outcome == 'returned':
            got = result_val(req['kind'], req['form'], call.result)
            t_ret = call.returned_at
            at_ret = [d for d in deliveries if abs(d['t'] - t_ret) <= EPS]
            ok = False
            st = plan.get('send_stall')
            stalled = bool(st) and req['src'] == 'server' and req['form'] == 'execute' and \
                st['from'] < req['at'] < st['until']
            for a in acceptable:
                same_instant = abs(a['t'] - t_ret) <= EPS or (lag and a['t'] - EPS <= t_ret <= a['t'] + lag + EPS)
                if stalled and a['t'] <= t_ret <= base + st['until'] + 1.0:
                    # the reply came while the request's own send was still suspended: the call returns once the send is done
                    same_instant = True
                    world.probe('reply_during_suspended_send')
                if same_instant and (got is None or got == message_val(a['kind'], build_message(a['kind'], a['arg'], a['val'], 1))):
                    ok = True
                    break
            if not ok:
                # who completed it?
                culprit = None
                for d in at_ret:
                    if got is None or d['kind'] != req['kind']:
                        continue
                    if got == message_val(d['kind'], build_message(d['kind'], d['arg'], d['val'], 1)):
                        culprit = d
                        break
                if culprit is not None and not spec_matches(req, culprit):
                    why = ('other_user' if culprit['arg'] != req['arg'] and req['kind'] != 'dircontents' else
                           'other_peer' if culprit['src'] != req['src'] else
                           'field_mismatch')
                    world.violate('C12.wrong_message', **facts_base, why=why)
                elif culprit is not None and first_live is not None and culprit['t'] > first_live['t'] + EPS:
                    world.violate('C12.missed', **facts_base, how='completed_by_later_message')
                elif culprit is not None and not (reg - EPS <= culprit['t'] <= end + EPS):
                    world.violate('C12.wrong_message', **facts_base, why='outside_pending_window')
                else:
                    world.violate('C12.wrong_message', **facts_base, why='unattributable',
                                  at_return=[(d['kind'], d['src'] == req['src']) for d in at_ret][:3])
        elif outcome == 'cancelled':
            if getattr(call, 'forced_cancel', False) and req['timeout'] is not None:
                world.violate('C12.timeout_type', **facts_base, got='still pending after deadline')
            elif first_live is not None:
                world.violate('C12.missed', **facts_base, how='cancelled_although_answered',
                              forced=getattr(call, 'forced_cancel', False))
            elif cancel_t is None:
                world.violate('C12.timeout_type', **facts_base, got='CancelledError without cancel')
        elif outcome.startswith('raised:'):
            exc = type(call.exception).__name__
            if isinstance(call.exception, (asyncio.TimeoutError, TimeoutError)):
                if first_live is not None:
                    world.violate('C12.missed', **facts_base, how='timeout_although_answered')
                elif deadline is None:
                    world.violate('C12.timeout_type', **facts_base, got='TimeoutError without timeout')
            else:
                world.violate('C12.timeout_type', **facts_base, got=exc)
        else:
            world.violate('C12.timeout_type', **facts_base, got='never finished')

    # overlap => non-trivial
    spans = []
    for req in reqs:
        call = calls.get(req['id'])
        if call is not None and call.invoked_at is not None:
            spans.append((call.invoked_at, call.returned_at or float('inf')))
    spans.sort()
    for a, b in zip(spans, spans[1:]):
        if b[0] < a[1]:
            nontrivial = True
            world.probe('overlapping_requests')
            break
    if world.net.fired.get('cancel_caller'):
        nontrivial = True
    # same-iteration probe
    iters = [d['iter'] for d in deliveries]
    if len(iters) != len(set(iters)):
        world.probe('messages_handled_in_one_iteration')

    # residue
    for rec in common.error_logs(world, 'error during callback'):
        world.violate('C12.residue', what='error during callback logged', exc=rec[4])
        break
    left = getattr(network, '_expected_response_futures', None)
    if left:
        world.violate('C12.residue', what='waiter left registered', n=min(len(left), 3))
    fc = fresh.get('call')
    if lost:
        world.probe('server_lost_while_requests_pending')
    elif fc is None or fc.outcome() != 'returned':
        world.violate('C12.residue', what='fresh request/answer pair failed',
                      outcome=fc.outcome() if fc else None)
    for rec in world.loop.exc_contexts:
        world.violate('C12.residue', what='loop exception handler called', exc=rec.get('exc_type'),
                      coro=rec.get('coro'))
        break

    sig.sort()
    order = tuple((d['kind'], d['src'] == 'server') for d in deliveries)
    return common.finish(world, nontrivial, [sig, order, plan['net'].get('segmentation'), plan['net'].get('coalesce')])

INFO['rule'] += " Round-5 additions: 2..3 create_peer_connection calls for one user overlap while the server's GetPeerAddress answer is outstanding, some callers are cancelled before it arrives (lookups); a caller nobody cancelled must not end cancelled, the answer must let a live caller proceed to its connect attempt."

INFO['rule'] += ' Round-6 additions: expected field values that are falsy (falsy_values); an application listener that hangs up on the peer inside the dispatch of his reply and then takes its time (close_on_reply).'
