"""C13 - distributed tree: one parent, bounded live children, truthful advertised place.

World: one real client ('alice') logged in to the scripted server plus 3..4 scripted peers
that speak the distributed protocol over D connections (accepted from alice after a
``PotentialParents`` list, or opened towards alice as child candidates).  A plan is a
sequence of <= 10 events (potential-parent list, incoming D connection, branch level / root
announcements in either order over a chosen connection, close / abort of a connection, own
``GetUserStats`` answers with speeds around the thresholds, ``ParentMinSpeed`` /
``ParentSpeedRatio``, ``ResetDistributed``, loss of the server session) with a virtual gap
in front of each; announcements and closes wait (on the peer's side) for their connection to
exist, so that they interleave with the sends the earlier events triggered.

Oracle (reference model: models/tree.py)
* after every loop iteration in which ``parent`` / ``children`` changed: the parent is not
  among the children (by connection, by user name), a live parent is never replaced, every
  admission of a child is recorded;
* after the run, per admission: acceptance was on (AcceptChildren values as alice *sent*
  them, read from the bytes she wrote to the server socket) and the number of children was
  below the documented limit, the user had not been proposed as potential parent;
* at quiescent moments (>= 2 virtual s without any frame or event anywhere, no scripted send
  pending): parent and children connections are CONNECTED over sockets open at both ends;
  the last BranchLevel / BranchRoot / ToggleParentSearch the server received and the last
  DistributedBranchLevel / DistributedBranchRoot every current child received equal the
  position derived from what the current parent announced.
"""
from __future__ import annotations

import asyncio
import copy
import os
import struct

from aioslsk.events import ConnectionStateChangedEvent, MessageReceivedEvent, PeerInitializedEvent
from aioslsk.network.connection import ConnectionState, PeerConnection, ServerConnection
from aioslsk.protocol import messages as M
from aioslsk.protocol.primitives import PotentialParent, UserStats

from models import tree as model
from sim.actors import safe_decode
from sim.net import Tap
from sim.world import World
from . import common

PROPERTY = 'C13'
INFO = {
    'level': 'exploration',
    'rule': ('plans = 3..10 events over 3..4 scripted peers from {PotentialParents list, incoming D connection, '
             'branch level/root announcement (level then root 50 / root then level 25 / level only / root only; '
             'level 0 in 20 %; sent by a candidate 45 / the current parent with new values 25 / a child 15 / anyone), '
             'close or abort of the parent / a child / a candidate (15 % right behind the announcement that completed '
             'a candidate), own GetUserStats answer with avg_speed at min_speed*1024 and k*divider +-1, ParentMinSpeed, '
             'ParentSpeedRatio, ResetDistributed, loss of the server session} with gaps 0 .. 3 s (rarely 61 s: read '
             'timeout of a silent D connection) under the 5 network regimes; announcements/closes wait on the peer side '
             'for their connection, so they race with the sends triggered by earlier events; non-trivial = a parent was '
             'set or a child admitted and one of {parent re-announced, non-candidate announced, parent lost, admission '
             'refused, reset, session loss, >= 2 candidates} happened; distinct = signature over (event kind, role of the '
             'targeted connection at that moment, order, level-0, accepted/refused) and the parent/children transitions'),
    'real': common.REAL,
    'stub': common.STUB,
    'assumptions': [
        'scripted server/peers encode and decode frames with aioslsk message classes (codec is trusted base)',
        'an aioslsk connection object is tied to its simulated socket through the private _writer attribute (read at '
        'PeerInitializedEvent, first listener); everything else is read from public attributes '
        '(distributed_network.parent / children, connection.state) and from frames received by the actors',
        'the AcceptChildren values in effect are the ones alice wrote to her server socket (decoded at write time)',
        'values set in the virtual instant of an admission may or may not have been in effect (models/tree.py)',
        'a peer that announces level 0 names itself as root; a contradicting explicit root makes both readings acceptable',
        'no plan lets a peer announce the name of the client itself as root; no ratio of 0',
        'at most 3 PotentialParents lists of <= 4 entries per plan (well inside the documented cache of 20 names)',
        'the advertised-values clauses are skipped once the server session is gone (there is nobody to tell, and '
        'DESIGN.md note 29 explains that nothing truthful can be computed then)',
    ],
}
INFO['rule'] += ' Later additions: a root named more than 1 s before a level-0 announcement is superseded by it (no longer an accepted alternative reading).'

OWN = 'alice'
PEERS = ('p0', 'p1', 'p2', 'p3')
ROOTS = ('r1', 'r2')
BASE = 1.0
QUIET = 2.0
SETTLE = 1.0
LINK_WAIT = 2.0
SIMPLE_NET = {'base_ms': 5, 'jitter_ms': 0, 'segmentation': 'whole', 'coalesce': True}
GAPS = (0.0, 0.0, 0.0, 0.001, 0.01, 0.05, 0.3, 0.3, 1.0, 3.0)
DEBUG = bool(os.environ.get('VERIF_C13_DEBUG'))


# ----------------------------------------------------------------------------- generator

def speed_choices(min_speed, ratio):
    d = max(ratio * 1024 // 10, 1)
    m = min_speed * 1024
    return sorted({0, max(m - 1, 0), m, m + 1, max(d - 1, 0), d, 2 * d - 1, 2 * d, 2 * d + 1, 3 * d, 5 * d, 20480})


def _gap(rng):
    return rng.choice(GAPS)


def generate(rng, index, tier):
    npeers = rng.choice([3, 3, 4])
    names = list(PEERS[:npeers])
    net = dict(SIMPLE_NET, base_ms=rng.choice([1, 5, 20])) if rng.random() < 0.5 else common.draw_net(rng)
    ratio = rng.choice([50, 50, 50, 30, 10, 100])
    min_speed = rng.choice([1, 1, 1, 5, 10])
    speeds = speed_choices(min_speed, ratio)
    omit = []
    if rng.random() < 0.1:
        omit = rng.choice([['parent_min_speed'], ['parent_speed_ratio'], ['parent_min_speed', 'parent_speed_ratio']])
    plan = {'seed': rng.getrandbits(32), 'net': net, 'npeers': npeers, 'min_speed': min_speed, 'ratio': ratio,
            'speed': rng.choice(speeds + [5 * max(ratio * 1024 // 10, 1)] * 6), 'omit': omit}
    if rng.random() < 0.15:
        plan['obf_dial'] = True
    if rng.random() < 0.1:
        plan['nameless'] = rng.choice(names)
    n = rng.randint(3, 10)
    events = []
    acc, con = [], []            # peers with a connection from alice / towards alice (guess)
    proposed = []
    parent = None                # (peer, via) guess
    children = []                # peers (guess)
    potentials = 0
    lost = False

    def ann(peer, via, must_complete=False):
        r = rng.random()
        order = 'lr' if r < 0.5 else 'rl' if r < 0.75 else 'l' if r < 0.87 else 'r'
        if must_complete and order == 'r':
            order = 'rl'
        level = 0 if rng.random() < 0.2 else rng.randint(1, 5)
        rr = rng.random()
        root = rng.choice(ROOTS) if rr < 0.6 else peer if rr < 0.8 else rng.choice(names)
        return {'op': 'ann', 'peer': peer, 'via': via, 'order': order, 'level': level, 'root': root, 'gap': _gap(rng)}

    while len(events) < n:
        r = rng.random()
        if not acc and not con and r < 0.7:
            r = 0.0 if rng.random() < 0.6 else 0.2
        if r < 0.14 and potentials < 3:
            k = rng.choice([1, 1, 2, 2, 3])
            chosen = rng.sample(names, min(k, npeers))
            events.append({'op': 'potential', 'peers': chosen, 'gap': _gap(rng)})
            potentials += 1
            for p in chosen:
                acc.append(p)
                if p not in proposed:
                    proposed.append(p)
        elif r < 0.30:
            free = [p for p in names if p not in proposed]
            peer = rng.choice(free) if free and rng.random() < 0.8 else rng.choice(names)
            events.append({'op': 'connect', 'peer': peer, 'gap': _gap(rng)})
            if rng.random() < 0.15:
                events[-1]['indirect'] = True
            con.append(peer)
            children.append(peer)
        elif r < 0.62:
            rr = rng.random()
            if rr < 0.25 and parent is not None:
                ev = ann(*parent)                                   # the parent, new values
            elif rr < 0.40 and children:
                ev = ann(rng.choice(children), 'con')               # a child
            elif acc:
                ev = ann(rng.choice(acc), 'acc', must_complete=rng.random() < 0.5)
            elif con:
                ev = ann(rng.choice(con), 'con')
            else:
                continue
            events.append(ev)
            completes = ev['order'] in ('lr', 'rl') or (ev['order'] == 'l' and ev['level'] == 0)
            if completes and parent is None:
                parent = (ev['peer'], ev['via'])
            elif completes and parent is not None and (ev['peer'], ev['via']) != parent and rng.random() < 0.3 \
                    and len(events) < n:
                # the current parent goes away right behind the announcement that completed a candidate
                events.append({'op': 'close', 'peer': parent[0], 'via': parent[1], 'how': rng.choice(['close', 'abort']),
                               'gap': rng.choice([0.0, 0.0, 0.001, 0.01])})
                parent = (ev['peer'], ev['via'])
        elif r < 0.74:
            rr = rng.random()
            if rr < 0.4 and parent is not None:
                peer, via = parent
                parent = None
            elif rr < 0.7 and children:
                peer, via = rng.choice(children), 'con'
                children.remove(peer)
            elif acc or con:
                via = 'acc' if acc and (not con or rng.random() < 0.5) else 'con'
                peer = rng.choice(acc if via == 'acc' else con)
            else:
                continue
            events.append({'op': 'close', 'peer': peer, 'via': via, 'how': rng.choice(['close', 'abort']), 'gap': _gap(rng)})
        elif r < 0.84:
            events.append({'op': 'stats', 'speed': rng.choice(speeds), 'gap': _gap(rng)})
        elif r < 0.90:
            if rng.random() < 0.5:
                ev = {'op': 'min_speed', 'value': rng.choice([1, 5, 10, 20]), 'gap': _gap(rng)}
            else:
                ev = {'op': 'ratio', 'value': rng.choice([10, 30, 50, 100]), 'gap': _gap(rng)}
            if rng.random() < 0.5:
                ev['speed'] = rng.choice(speeds)
            events.append(ev)
        elif r < 0.95:
            events.append({'op': 'reset', 'gap': _gap(rng)})
            parent, children = None, []
        elif not lost and len(events) >= 2:
            events.append({'op': 'session_loss', 'how': rng.choice(['close', 'abort']), 'gap': _gap(rng)})
            if rng.random() < 0.5:
                events.append({'op': 'relogin', 'gap': rng.choice([0.5, 2.0, 5.0])})
            lost = True
    if rng.random() < 0.04:
        events[rng.randrange(len(events))]['gap'] = 61.0
    plan['events'] = events[:10]
    if rng.random() < 0.12:
        plan['firewalled'] = [rng.choice(names)]
    if rng.random() < 0.1:
        plan['pierce_all'] = True
    return plan


def _plan(events, **kw):
    plan = {'seed': 5, 'net': dict(SIMPLE_NET), 'npeers': 4, 'min_speed': 1, 'ratio': 50, 'speed': 25600, 'omit': [],
            'events': [dict(e) for e in events]}
    plan.update(kw)
    for e in plan['events']:
        e.setdefault('gap', 0.3)
    return plan


def _ann(peer, via='acc', order='lr', level=2, root='r1', **kw):
    return dict({'op': 'ann', 'peer': peer, 'via': via, 'order': order, 'level': level, 'root': root}, **kw)


def corpus(tier):
    out = []
    pot = lambda *p, **kw: dict({'op': 'potential', 'peers': list(p)}, **kw)     # noqa: E731
    conn = lambda p, **kw: dict({'op': 'connect', 'peer': p}, **kw)   # noqa: E731
    close = lambda p, via='acc', how='close', **kw: dict({'op': 'close', 'peer': p, 'via': via, 'how': how}, **kw)  # noqa
    # 1. a parent from the list, every announcement order, children before and after
    for order in ('lr', 'rl', 'l', 'r'):
        for level in (0, 3):
            out.append(_plan([conn('p2'), pot('p0', 'p1'), _ann('p0', order=order, level=level), conn('p3', gap=3.0)]))
    # 1b. children that dial the obfuscated port, before and after a parent is found
    for level in (0, 3):
        out.append(dict(_plan([conn('p2'), pot('p0', 'p1'), _ann('p0', order='lr', level=level), conn('p3', gap=3.0),
                               _ann('p0', order='l', level=level + 1, gap=3.0)]), obf_dial=True))
    # 1c. a child that introduces itself with an empty user name, goes away again, another child comes
    for how in ('close', 'abort'):
        out.append(dict(_plan([conn('p2'), conn('p3', gap=0.5), close('p2', via='con', how=how, gap=2.0), conn('p1', gap=2.0),
                               pot('p0', gap=1.0), _ann('p0')]), nameless='p2'))
    # 2. the parent announces new values (level, root, both, level 0) with children present
    for order, level, root in (('l', 5, 'r1'), ('r', 2, 'r2'), ('lr', 4, 'r2'), ('rl', 4, 'r2'), ('l', 0, 'r1'),
                               ('lr', 0, 'p0')):
        out.append(_plan([conn('p2'), pot('p0'), _ann('p0'), _ann('p0', order=order, level=level, root=root, gap=3.0)]))
        out.append(_plan([pot('p0'), _ann('p0'), _ann('p0', order=order, level=level, root=root, gap=0.0), conn('p2')]))
    # 3. a child announces branch values: without a parent, with a parent; level only, root only
    for order, level in (('lr', 2), ('rl', 2), ('l', 0), ('l', 3), ('r', 3)):
        out.append(_plan([conn('p2'), _ann('p2', via='con', order=order, level=level, gap=3.0), conn('p3', gap=3.0)]))
        out.append(_plan([conn('p2'), pot('p0'), _ann('p0'), _ann('p2', via='con', order=order, level=level, gap=3.0)]))
    # 4. the parent is lost (FIN / RST) with children; a second candidate completes afterwards / right before
    for how in ('close', 'abort'):
        out.append(_plan([conn('p2'), pot('p0', 'p1'), _ann('p0'), close('p0', how=how, gap=3.0), conn('p3', gap=3.0)]))
        out.append(_plan([conn('p2'), pot('p0'), _ann('p0'), close('p0', how=how, gap=3.0), pot('p1', gap=1.0),
                          _ann('p1', level=4, root='r2')]))
        for gap in (0.0, 0.001, 0.01):
            out.append(_plan([conn('p2'), pot('p0'), _ann('p0', gap=1.0), pot('p1', gap=1.0),
                              _ann('p1', level=4, root='r2', gap=1.0), close('p0', how=how, gap=gap)]))
    # 4b. a child that goes away right after it connected, the end of its connection swept over the client's loop iterations
    for how in ('close', 'abort'):
        for k in range(0, 24):
            out.append(_plan([conn('p2'), close('p2', via='con', how=how, gap=0.0, hops=k), conn('p3', gap=2.0)]))
    # 5. two candidates: the first incomplete, the second complete, then the first completes
    out.append(_plan([pot('p0', 'p1'), _ann('p0', order='l', level=2), _ann('p1', level=3, root='r2'),
                      _ann('p0', order='r', root='r1', gap=1.0)]))
    out.append(_plan([pot('p0', 'p1', 'p2'), _ann('p0', gap=0.0), _ann('p1', level=3, root='r2', gap=0.0),
                      _ann('p2', level=1, root='p2', gap=0.0)]))
    # 6. admission: acceptance off, limit 0 / 1 / 2, limit lowered and raised, defaults
    d = 5120
    for speed in (0, 1023, 1024, d - 1, d, 2 * d - 1, 2 * d, 3 * d):
        out.append(_plan([conn('p0'), conn('p1', gap=1.0), conn('p2', gap=1.0)], speed=speed))
        out.append(_plan([conn('p0'), {'op': 'stats', 'speed': speed, 'gap': 1.0}, conn('p1', gap=1.0),
                          conn('p2', gap=0.0)]))
    out.append(_plan([conn('p0'), {'op': 'ratio', 'value': 100, 'gap': 1.0}, conn('p1', gap=1.0), conn('p2', gap=1.0)],
                     speed=2 * d))
    out.append(_plan([conn('p0'), {'op': 'min_speed', 'value': 20, 'gap': 1.0}, conn('p1', gap=1.0)], speed=2 * d))
    out.append(_plan([conn('p0'), {'op': 'min_speed', 'value': 5, 'speed': 5119, 'gap': 1.0}, conn('p1', gap=1.0)]))
    for omit in (['parent_min_speed'], ['parent_speed_ratio'], ['parent_min_speed', 'parent_speed_ratio']):
        out.append(_plan([{'op': 'stats', 'speed': d, 'gap': 0.3}, conn('p0'), conn('p1', gap=1.0)], omit=omit, speed=d))
    # 7. a proposed potential parent connects as child candidate; a child is proposed later and becomes parent
    out.append(_plan([pot('p0', 'p1'), conn('p0', gap=1.0), conn('p2', gap=1.0)]))
    out.append(_plan([pot('p0'), _ann('p0'), conn('p0', gap=1.0)]))
    out.append(_plan([conn('p0'), pot('p0', gap=1.0), _ann('p0', gap=1.0)]))
    # 8. reset with parent and children; then a new tree
    out.append(_plan([conn('p2'), pot('p0'), _ann('p0'), {'op': 'reset', 'gap': 3.0}, conn('p3', gap=1.0),
                      pot('p1', gap=1.0), _ann('p1', level=1, root='p1')]))
    # 9. session loss, then: child joins, parent lost, parent re-announces
    for how in ('close', 'abort'):
        out.append(_plan([conn('p2'), pot('p0'), _ann('p0'), {'op': 'session_loss', 'how': how, 'gap': 1.0},
                          conn('p3', gap=1.0), close('p0', gap=1.0)]))
        out.append(_plan([conn('p2'), {'op': 'session_loss', 'how': how, 'gap': 1.0}, pot('p0', gap=0.0),
                          conn('p3', gap=1.0)]))
    # 9c. session loss, then a new session while parent and children are still there
    for how in ('close', 'abort'):
        out.append(_plan([conn('p2'), pot('p0'), _ann('p0'), {'op': 'session_loss', 'how': how, 'gap': 1.0},
                          {'op': 'relogin', 'gap': 2.0}, conn('p3', gap=2.0)]))
        out.append(_plan([conn('p2'), pot('p0'), _ann('p0'), {'op': 'session_loss', 'how': how, 'gap': 1.0},
                          _ann('p0', order='lr', level=5, root='r2', gap=1.0), {'op': 'relogin', 'gap': 2.0}]))
    # 9d. the first child stops reading and the send path towards it is full when the parent announces new values: the
    #     other child must be told all the same
    for n in (1, 2, 4):
        for gap in (0.5, 3.0):
            out.append(_plan([conn('p2'), conn('p3', gap=0.3), pot('p0', gap=0.3), _ann('p0'), {'op': 'stall', 'peer': 'p2', 'gap': 1.0},
                              {'op': 'flood', 'n': n, 'gap': 0.3}, _ann('p0', order='lr', level=6, root='r2', gap=gap),
                              conn('p1', gap=15.0)]))
    # 9e. the same with the send path filled to just below the high-water mark, so that it is the announcement to the
    #     stalled child that blocks (and fails after the write timeout) while the broadcast is under way
    for size in range(65440, 65536, 6):
        out.append(_plan([conn('p2'), conn('p3', gap=0.3), pot('p0', gap=0.3), _ann('p0'), {'op': 'stall', 'peer': 'p2', 'gap': 1.0},
                          {'op': 'flood', 'n': 1, 'size': size, 'gap': 0.3}, _ann('p0', order='lr', level=6, root='r2', gap=1.0),
                          conn('p1', gap=15.0)]))
    # 9b. connections made the indirect way: firewalled candidate, candidate answering both ways, child through the server
    out.append(_plan([conn('p2', indirect=True), pot('p0', 'p1'), _ann('p0'), conn('p3', gap=3.0)], firewalled=['p0']))
    out.append(_plan([conn('p2'), pot('p0', 'p1'), _ann('p0'), _ann('p1', level=3, root='r2')], pierce_all=True))
    out.append(_plan([conn('p2', indirect=True), conn('p3', indirect=True, gap=0.0), pot('p0', gap=1.0), _ann('p0')]))
    # 10. silence: the D connections run into their read timeout
    out.append(_plan([conn('p2'), pot('p0'), _ann('p0'), conn('p3', gap=61.0)]))
    return out


SHRINK_LISTS = ('events',)
SHRINK_PROTECT = ('peers', 'omit', 'firewalled')


def simplify(plan):
    if plan.get('net') != SIMPLE_NET:
        yield dict(plan, net=dict(SIMPLE_NET))
    if plan.get('omit'):
        yield dict(plan, omit=[])
    if (plan.get('min_speed'), plan.get('ratio'), plan.get('speed')) != (1, 50, 25600):
        yield dict(plan, min_speed=1, ratio=50, speed=25600)
    if plan.get('npeers') != 4:
        yield dict(plan, npeers=4)
    if plan.get('firewalled'):
        yield dict(plan, firewalled=[])
    if plan.get('pierce_all'):
        yield dict(plan, pierce_all=False)
    for i, ev in enumerate(plan.get('events', [])):
        def variant(**kw):
            cand = copy.deepcopy(plan)
            cand['events'][i].update(kw)
            return cand
        if ev.get('gap') not in (0.3, 3.0):
            yield variant(gap=0.3)
            yield variant(gap=3.0)
        if ev['op'] == 'potential' and len(ev['peers']) > 1:
            for p in ev['peers']:
                yield variant(peers=[q for q in ev['peers'] if q != p])
        if ev['op'] == 'ann':
            if ev.get('order') == 'rl':
                yield variant(order='lr')
            if ev.get('order') in ('lr', 'rl'):
                yield variant(order='l')
                yield variant(order='r')
            if ev.get('root') not in ('r1',):
                yield variant(root='r1')
            if ev.get('level') not in (2,):
                yield variant(level=2)
        if ev['op'] == 'close' and ev.get('how') != 'close':
            yield variant(how='close')
        if ev.get('indirect'):
            yield variant(indirect=False)
        if 'speed' in ev and ev['op'] != 'stats':
            cand = copy.deepcopy(plan)
            del cand['events'][i]['speed']
            yield cand


# ----------------------------------------------------------------------------- run

class ServerSendTap(Tap):
    """Decodes what alice writes to her server socket, at write time."""

    def __init__(self, world, src, dst):
        self.world = world
        self.src = src
        self.dst = dst
        self.buffers = {}
        self.sent = []          # (t, iteration, message)

    def on_write(self, conn, direction, data):
        if conn.src is not self.src or conn.dst is not self.dst or direction != 'c2s':
            return
        buf = self.buffers.setdefault(conn.id, bytearray())
        buf.extend(data)
        while len(buf) >= 4:
            (n,) = struct.unpack('<I', bytes(buf[:4]))
            if len(buf) < 4 + n:
                break
            frame = bytes(buf[:4 + n])
            del buf[:4 + n]
            msg = safe_decode(M.ServerMessage.deserialize_request, frame)
            self.sent.append((self.world.loop.time(), self.world.loop.iterations, msg))


def run(plan):
    world = World(plan, PROPERTY)
    try:
        return _run(world, plan)
    finally:
        world.close()


def _run(world: World, plan):
    loop = world.loop
    npeers = int(plan.get('npeers', 4))
    names = list(PEERS[:npeers])
    server = world.add_server({'parent_min_speed': plan.get('min_speed', 1), 'parent_speed_ratio': plan.get('ratio', 50),
                               'burst_omit': list(plan.get('omit', []))})
    server.users[OWN] = {'stats': (int(plan.get('speed', 25600)), 10, 5, 2)}
    peers = {name: world.add_peer(name) for name in names}
    alice = world.add_client(OWN)
    client = alice.client
    dn = client.distributed_network
    tap = ServerSendTap(world, alice.host, server.host)
    world.net.taps.append(tap)

    events = [e for e in plan.get('events', []) if e.get('op') != 'ann' or e.get('root') != OWN]
    events = [e for e in events if all(p in names for p in ([e['peer']] if 'peer' in e else e.get('peers', [])))]

    state = {'activity': loop.time(), 'pending': 0, 'session_lost': None, 'cause': 'login', 'cause_seq': 0,
             'judged': 0, 'tickets': 100}
    keep = []                     # library objects whose id() is used as key
    links = []                    # link records in creation order
    by_sim = {}                   # sim conn id -> link record
    conn_sim = {}                 # id(aioslsk connection) -> sim conn id
    slots = {name: {'acc': [], 'con': []} for name in names}
    link_waiters = {name: [] for name in names}
    admission = model.Admission()
    proposals = []                # (t, username) delivered to alice
    own_stats = []                # t of own GetUserStats answers delivered to alice
    transitions = []              # (t, iteration, has parent, parent sim conn id|None, [child sim conn ids])
    admissions = []               # dicts
    sig = []
    flags = set()

    def touch():
        state['activity'] = loop.time()

    # ------------------------------------------------------------------ peer side
    def register_link(peer, link, slot):
        sim = link.writer.transport.conn
        rec = {'index': len(links), 'peer': peer.name, 'slot': slot, 'link': link, 'sim': sim, 'opened': loop.time(),
               'ended': None, 'ended_at': None, 'heard': model.Heard(peer.name), 'got': [], 'sent': [],
               'delivered': 0}
        links.append(rec)
        by_sim[sim.id] = rec
        slots[peer.name][slot].append(rec)
        for fut in list(link_waiters[peer.name]):
            if not fut.done():
                fut.set_result(None)
        world.trace('link', peer.name, slot, rec['index'], sim.id)
        touch()
        return rec

    async def reader(rec):
        link = rec['link']
        while True:
            msg = await link.recv('D')
            touch()
            if msg is None:
                if rec['ended'] is None:
                    rec['ended'] = 'remote'
                    rec['ended_at'] = loop.time()
                world.trace('link_end', rec['index'], rec['ended'])
                return
            if isinstance(msg, M.DistributedBranchLevel.Request):
                rec['got'].append((loop.time(), 'level', msg.level))
            elif isinstance(msg, M.DistributedBranchRoot.Request):
                rec['got'].append((loop.time(), 'root', msg.username))
            world.trace('peer_got', rec['index'], type(msg).__qualname__ if not isinstance(msg, tuple) else 'undecodable')

    firewalled = [p for p in plan.get('firewalled', []) if p in names]
    pierce_all = bool(plan.get('pierce_all'))
    server_tickets = {}           # ticket of a ConnectToPeer the server sent to alice -> peer name

    def make_accept(peer):
        async def on_accept(link):
            touch()
            init = await link.recv_init()
            touch()
            if isinstance(init, M.PeerInit.Request) and init.typ == 'D':
                rec = register_link(peer, link, 'acc')
            elif isinstance(init, M.PeerPierceFirewall.Request) and server_tickets.get(init.ticket) == peer.name:
                # alice answers a ConnectToPeer that the server sent on the peer's behalf: child candidate
                link.typ = 'D'
                link.obfuscated = False
                rec = register_link(peer, link, 'con')
            else:
                return
            await reader(rec)
        return on_accept

    def make_relay_handler(peer):
        async def on_relay(relay):
            # alice asked the server for an indirect connection (the peer cannot be reached, or answers anyway)
            if relay.typ != 'D' or not (pierce_all or peer.name in firewalled):
                return
            touch()
            try:
                link = await peer.connect_pierce(relay.ip, relay.port, relay.ticket, 'D')
            except OSError:
                return
            rec = register_link(peer, link, 'acc')
            await reader(rec)
        return on_relay

    for peer in peers.values():
        peer.accept_handler = make_accept(peer)
        peer.connect_to_peer_handler = make_relay_handler(peer)

    if firewalled:
        def connect_hook(attempt):
            if attempt['src'] == OWN and attempt['dst'] in firewalled:
                return ('refuse', 0.01)
            return None
        world.net.connect_hook = connect_hook

    async def child_connect(peer, ticket):
        if plan.get('nameless') == peer.name:
            # a peer that introduces itself with an empty user name (legal on the wire)
            world.net.fired['distributed_peer_with_empty_name'] += 1
            link = await peer.connect(alice.host.ip, 60000)
            link.send(M.PeerInit.Request('', 'D', ticket))
            link.typ = 'D'
        elif plan.get('obf_dial'):
            # a peer that prefers obfuscated ports: only the init message is obfuscated on a distributed connection
            world.net.fired['distributed_dial_in_over_obfuscated_port'] += 1
            link = await peer.connect_direct(alice.host.ip, 60001, 'D', ticket, obfuscated=True)
        else:
            link = await peer.connect_direct(alice.host.ip, 60000, 'D', ticket)
        rec = register_link(peer, link, 'con')
        await reader(rec)

    def live_link(name, via):
        """Latest connection of the slot that the peer has not ended itself and that is still open on its side."""
        pool = slots[name][via] if via in ('acc', 'con') else sorted(slots[name]['acc'] + slots[name]['con'],
                                                                     key=lambda r: r['index'])
        for rec in reversed(pool):
            if rec['ended'] is None:
                return rec
        return None

    async def with_link(ev, action):
        """Run ``action(rec)`` on the peer's side once the targeted connection exists."""
        name, via = ev['peer'], ev.get('via')
        state['pending'] += 1
        try:
            deadline = loop.time() + LINK_WAIT
            while True:
                rec = live_link(name, via)
                if rec is not None:
                    break
                remaining = deadline - loop.time()
                if remaining <= 1e-6:
                    world.trace('skipped', ev['op'], name, via)
                    world.probe('event_without_connection')
                    return
                fut = loop.create_future()
                link_waiters[name].append(fut)
                handle = loop.call_later(remaining, lambda fut=fut: fut.done() or fut.set_result(None))
                try:
                    await fut
                finally:
                    handle.cancel()
                    if fut in link_waiters[name]:
                        link_waiters[name].remove(fut)
            action(rec)
            touch()
        finally:
            state['pending'] -= 1

    def role_of(rec):
        parent = dn.parent
        if parent is not None and conn_sim.get(id(parent.connection)) == rec['sim'].id:
            if any(conn_sim.get(id(c.connection)) == rec['sim'].id for c in dn.children):
                return 'parent+child'
            return 'parent'
        if any(conn_sim.get(id(c.connection)) == rec['sim'].id for c in dn.children):
            return 'child'
        if any(conn_sim.get(id(p.connection)) == rec['sim'].id for p in dn.distributed_peers):
            return 'candidate' if rec['slot'] == 'acc' else 'refused'
        return 'none'

    def do_ann(ev):
        def action(rec):
            role = role_of(rec)
            order = ev.get('order', 'lr')
            for k in ('lr' if order == 'lr' else 'rl' if order == 'rl' else order):
                if k == 'l':
                    rec['link'].send(M.DistributedBranchLevel.Request(int(ev.get('level', 1))))
                    rec['sent'].append(('level', int(ev.get('level', 1))))
                else:
                    rec['link'].send(M.DistributedBranchRoot.Request(ev.get('root', 'r1')))
                    rec['sent'].append(('root', ev.get('root', 'r1')))
            world.trace('ann', rec['index'], role, order)
            sig.append(('ann', role, order, ev.get('level') == 0, rec['slot']))
            if role in ('child', 'refused', 'parent+child'):
                flags.add('non_candidate_announced')
            if role.startswith('parent'):
                flags.add('parent_reannounced')
        return action

    def do_close(ev):
        def action(rec):
            role = role_of(rec)
            rec['ended'] = ev.get('how', 'close')
            rec['ended_at'] = loop.time()
            if ev.get('hops'):
                # the end of the connection reaches the client this many loop iterations later than it otherwise would:
                # places it between the steps the client takes for a connection that has just been initialised
                sim_conn = rec['link'].writer.transport.conn
                left = [int(ev['hops'])]

                def hops_for(conn, direction, sim_conn=sim_conn, left=left):
                    if conn is sim_conn and left[0] > 0:
                        n, left[0] = left[0], 0
                        return n
                    return 0
                world.net.arrive_hops = hops_for
            if rec['ended'] == 'abort':
                world.net.fired['remote_rst'] += 1
                rec['link'].abort()
            else:
                world.net.fired['remote_fin'] += 1
                rec['link'].close()
            world.trace('close', rec['index'], role, rec['ended'])
            sig.append(('close', role, rec['ended']))
            if role.startswith('parent'):
                flags.add('parent_lost')
        return action

    # ------------------------------------------------------------------ alice side observation
    def on_initialized(event):
        conn = event.connection
        if conn.connection_type != 'D':
            return
        writer = getattr(conn, '_writer', None)
        sim = getattr(getattr(writer, 'transport', None), 'conn', None)
        if sim is not None:
            keep.append(conn)
            conn_sim[id(conn)] = sim.id

    def on_message_first(event):
        msg = event.message
        conn = event.connection
        now = loop.time()
        if isinstance(conn, ServerConnection):
            if isinstance(msg, M.ParentMinSpeed.Response):
                admission.on_min_speed(now, msg.speed)
            elif isinstance(msg, M.ParentSpeedRatio.Response):
                admission.on_ratio(now, msg.ratio)
            elif isinstance(msg, M.GetUserStats.Response) and msg.username == OWN:
                admission.on_own_stats(now, msg.user_stats.avg_speed)
                own_stats.append(now)
            elif isinstance(msg, M.PotentialParents.Response):
                for entry in msg.entries:
                    proposals.append((now, entry.username))
            return
        if not isinstance(conn, PeerConnection) or conn.connection_type != 'D':
            return
        rec = by_sim.get(conn_sim.get(id(conn)))
        if rec is None:
            return
        is_parent = dn.parent is not None and dn.parent.connection is conn
        if isinstance(msg, M.DistributedBranchLevel.Request):
            rec['heard'].level_msg(msg.level, now)
            rec['delivered'] += 1
            if is_parent:
                state['cause'] = 'parent_reannounced'
                state['cause_seq'] += 1
        elif isinstance(msg, M.DistributedBranchRoot.Request):
            rec['heard'].root_msg(msg.username, now)
            rec['delivered'] += 1
            if is_parent:
                state['cause'] = 'parent_reannounced'
                state['cause_seq'] += 1

    def on_any_event(event):
        touch()
        if isinstance(event, ConnectionStateChangedEvent) and isinstance(event.connection, ServerConnection):
            if event.state == ConnectionState.CLOSED and state['session_lost'] is None:
                state['session_lost'] = loop.time()
                admission.on_session_end(loop.time())

    world.keep_alive.extend([on_initialized, on_message_first])
    client.events.register(PeerInitializedEvent, on_initialized, priority=0)
    client.events.register(MessageReceivedEvent, on_message_first, priority=0)
    alice.recorder.hooks.append(on_any_event)
    server.observers.append(lambda session, message: touch())

    # ------------------------------------------------------------------ always-on monitor
    snap = {'key': (0, ()), 'parent': None, 'children': []}

    def link_index(dp):
        # the simulated connection's id (known from PeerInitializedEvent on, before the peer may have seen it)
        return conn_sim.get(id(dp.connection))

    def monitor():
        parent = dn.parent
        children = dn.children
        key = (id(parent) if parent is not None else 0, tuple([id(c) for c in children]))
        if key == snap['key']:
            return
        now = loop.time()
        keep.append(parent)
        keep.extend(children)
        prev_parent, prev_children = snap['parent'], snap['children']
        p_idx = link_index(parent) if parent is not None else None
        c_idx = [link_index(c) for c in children]
        transitions.append((now, loop.iterations, parent is not None, p_idx, c_idx))
        world.trace('tree', p_idx, tuple(c_idx))
        if parent is not prev_parent:
            was = None
            if parent is not None:
                was = 'child' if any(c.connection is parent.connection for c in prev_children + list(children)) \
                    else 'candidate'
                flags.add('parent_set')
                state['cause'] = 'parent_set_from_' + was
            else:
                state['cause'] = 'parent_lost'
            state['cause_seq'] += 1
            sig.append(('parent', was))
            if prev_parent is not None and parent is not None:
                pc = prev_parent.connection
                if pc.state == ConnectionState.CONNECTED and pc is not parent.connection:
                    world.violate('C13.two_parents', how='live_parent_replaced')
        same_conn = parent is not None and any(c.connection is parent.connection for c in children)
        if same_conn and not state.get('same_conn'):
            how = 'child_became_parent' if parent is not prev_parent else 'parent_admitted_as_child'
            world.violate('C13.parent_is_child', by='connection', how=how)
        state['same_conn'] = same_conn
        # the same user on two connections: a repair has to close the child's connection, which takes
        # a few loop iterations; judged once it has lasted SETTLE virtual seconds (same_user_check)
        same_user = parent is not None and any(
            c.username == parent.username and c.connection is not parent.connection for c in children)
        if not same_user:
            state['same_user'] = None
        elif state.get('same_user') is None:
            state['same_user'] = {'since': now,
                                  'how': 'child_became_parent' if parent is not prev_parent else 'parent_admitted_as_child'}
        prev_ids = {id(c) for c in prev_children}
        for pos, c in enumerate(children):
            if id(c) not in prev_ids:
                flags.add('child_admitted')
                admissions.append({'t': now, 'iteration': loop.iterations, 'user': c.username, 'count_before': pos,
                                   'link': link_index(c), 'session': state['session_lost'] is None})
                sig.append(('child', pos))
        snap.update(key=key, parent=parent, children=list(children))

    def same_user_check():
        rec = state.get('same_user')
        if rec is not None and loop.time() - rec['since'] >= SETTLE:
            world.violate('C13.parent_is_child', by='user', how=rec['how'])

    loop.monitors.append(monitor)

    # ------------------------------------------------------------------ quiescent judgement
    def socket_state(conn):
        sim_id = conn_sim.get(id(conn))
        rec = by_sim.get(sim_id)
        if rec is None:
            return None
        sim = rec['sim']
        mine, theirs = (sim.a, sim.b) if sim.src is alice.host else (sim.b, sim.a)
        return (mine is not None and not mine._closed, theirs is not None and not theirs._closed and not theirs._closing)

    def judge(tag):
        state['judged'] += 1
        parent = dn.parent
        children = list(dn.children)
        world.trace('judge', tag, link_index(parent) if parent else None, tuple(link_index(c) for c in children))
        # structure at rest
        for role, dp in ([('parent', parent)] if parent is not None else []) + [('child', c) for c in children]:
            conn = dp.connection
            socks = socket_state(conn)
            rec = by_sim.get(conn_sim.get(id(conn)))
            if conn.state != ConnectionState.CONNECTED or socks is None or not all(socks):
                facts = {'role': role, 'state': conn.state.name, 'own_socket': bool(socks and socks[0])}
                if state['session_lost'] is not None:
                    facts['session'] = False
                if DEBUG:
                    facts.update(remote_socket=bool(socks and socks[1]), ended=rec['ended'] if rec else None)
                world.violate('C13.dead_link', **facts)
        same_user_check()
        if state['session_lost'] is not None:
            # out of scope (see INFO.assumptions); what the children were left with is counted, not judged
            heard = None
            if parent is not None:
                rec = by_sim.get(conn_sim.get(id(parent.connection)))
                heard = rec['heard'] if rec is not None else None
            want = model.derived(OWN, heard) if (parent is None or heard is not None) else None
            for c in children:
                rec = by_sim.get(conn_sim.get(id(c.connection)))
                if rec is None or want is None:
                    continue
                got = model.told([(k, v) for (_, k, v) in rec['got']], OWN)
                if got['level'] is None:
                    world.probe('sessionless_child_never_told')
                elif got['level'] != want['level'] or got['root'] not in want['roots']:
                    world.probe('sessionless_child_told_stale')
            return
        # advertised position
        heard = None
        if parent is not None:
            rec = by_sim.get(conn_sim.get(id(parent.connection)))
            heard = rec['heard'] if rec is not None else model.Heard(parent.username)
        want = model.derived(OWN, heard)
        if want is None:
            world.violate('C13.server_told', field='position', why='parent_without_known_position', cause=state['cause'])
            return
        if OWN in want['roots'] and parent is not None:
            world.probe('parent_names_client_as_root')
            return
        if heard is not None and heard.ambiguous():
            world.probe('parent_position_ambiguous')
        last = {}
        for (t, user, msg) in server.received:
            if user != OWN:
                continue
            if isinstance(msg, M.BranchLevel.Request):
                last['level'] = msg.level
            elif isinstance(msg, M.BranchRoot.Request):
                last['root'] = msg.username
            elif isinstance(msg, M.ToggleParentSearch.Request):
                last['search'] = msg.enable
        base = {'parent': parent is not None, 'cause': state['cause']}
        extra = (lambda **kw: kw) if DEBUG else (lambda **kw: {})
        if last.get('level') != want['level']:
            world.violate('C13.server_told', field='level', **base, **extra(got=last.get('level'), want=want['level']))
        if last.get('root') not in want['roots']:
            world.violate('C13.server_told', field='root', **base, **extra(got=last.get('root'), want=sorted(want['roots'])))
        if last.get('search') != want['search']:
            world.violate('C13.server_told', field='search', **base, **extra(got=last.get('search')))
        for c in children:
            rec = by_sim.get(conn_sim.get(id(c.connection)))
            if rec is None:
                world.violate('C13.child_told', field='position', why='child_without_known_connection', **base)
                continue
            if rec.get('stalled'):
                world.probe('stalled_child_not_judged')      # it does not read: what it "was told" cannot be observed at its end
                continue
            got = model.told([(k, v) for (_, k, v) in rec['got']], OWN)
            joined = next((a for a in admissions if a['link'] == rec['sim'].id), None)
            facts = dict(base)
            if DEBUG:
                facts['joined'] = ('with_parent' if joined and _had_parent(transitions, joined['iteration'])
                                   else 'without_parent')
            if got['level'] != want['level']:
                world.violate('C13.child_told', field='level', **facts, **extra(got=got['level'], want=want['level']))
            if got['root'] not in want['roots']:
                world.violate('C13.child_told', field='root', **facts, **extra(got=got['root'], want=sorted(want['roots'])))

    def quiescent():
        return state['pending'] == 0 and loop.time() - state['activity'] >= QUIET

    # ------------------------------------------------------------------ driver
    def fire(ev):
        op = ev['op']
        same_user_check()
        touch()
        if op == 'potential':
            entries = [PotentialParent(p, peers[p].host.ip, peers[p].port) for p in ev['peers']]
            server.send_to(OWN, M.PotentialParents.Response(entries))
            sig.append(('potential', len(entries), dn.parent is not None))
            if len(entries) > 1:
                flags.add('several_candidates')
        elif op == 'connect':
            peer = peers[ev['peer']]
            state['tickets'] += 1
            if ev.get('indirect') and peer.name not in firewalled:
                # the peer asks through the server: alice connects and pierces
                ticket = 900000 + state['tickets']
                server_tickets[ticket] = peer.name
                server.send_to(OWN, M.ConnectToPeer.Response(
                    username=peer.name, typ='D', ip=peer.host.ip, port=peer.port, ticket=ticket, privileged=False,
                    obfuscated_port_amount=0, obfuscated_port=0))
            else:
                peer.spawn(child_connect(peer, state['tickets']))
            sig.append(('connect', bool(ev.get('indirect')), dn.parent is not None, len(dn.children)))
        elif op == 'ann':
            peers[ev['peer']].spawn(with_link(ev, do_ann(ev)))
        elif op == 'close':
            peers[ev['peer']].spawn(with_link(ev, do_close(ev)))
        elif op == 'stats':
            server.users[OWN] = {'stats': (int(ev['speed']), 10, 5, 2)}
            server.send_to(OWN, M.GetUserStats.Response(OWN, UserStats(int(ev['speed']), 10, 5, 2)))
            sig.append(('stats',))
        elif op in ('min_speed', 'ratio'):
            if 'speed' in ev:
                server.users[OWN] = {'stats': (int(ev['speed']), 10, 5, 2)}
            if op == 'min_speed':
                server.send_to(OWN, M.ParentMinSpeed.Response(int(ev['value'])))
            else:
                server.send_to(OWN, M.ParentSpeedRatio.Response(max(int(ev['value']), 1)))
            sig.append((op,))
        elif op == 'reset':
            server.send_to(OWN, M.ResetDistributed.Response())
            flags.add('reset')
            sig.append(('reset', dn.parent is not None, len(dn.children)))
        elif op == 'stall':
            # a child stops reading (its end of the connection stays open)
            rec = live_link(ev['peer'], 'con')
            if rec is not None and rec['ended'] is None:
                world.net.fired['child_stops_reading'] += 1
                rec['link'].writer.transport.pause_reading()
                rec['stalled'] = True
                sig.append(('stall', role_of(rec)))
        elif op == 'flood':
            # the parent sends search requests large enough to fill the send path towards a child that does not read
            rec = None
            if dn.parent is not None:
                rec = by_sim.get(conn_sim.get(id(dn.parent.connection)))
            if rec is not None and rec['ended'] is None:
                world.net.fired['large_search_requests_from_parent'] += 1
                for i in range(int(ev.get('n', 2))):
                    rec['link'].send(M.DistributedSearchRequest.Request(0x31, 'someone', 7000 + i, 'q' * int(ev.get('size', 60000))))
                sig.append(('flood',))
        elif op == 'relogin':
            # a new session after the loss (connect + login through the public calls): what was advertised has to be said
            # again to the new session, from the tree as it is now
            if state['session_lost'] is not None and client.session is None:
                async def again():
                    await client.network.connect_server()
                    await client.login()
                call = world.call(alice, 'relogin', again)
                state['pending'] += 1

                def relogged(_task, call=call):
                    state['pending'] -= 1
                    touch()
                    if call.outcome() == 'returned':
                        flags.add('relogin')
                        state['session_lost'] = None
                        state['cause'] = 'relogin'
                        state['cause_seq'] += 1
                        sig.append(('relogin', dn.parent is not None, len(dn.children)))
                    else:
                        world.probe('relogin_failed')
                call.task.add_done_callback(relogged)
        elif op == 'session_loss':
            session = server.session_of(OWN)
            if session is not None and not session.closed:
                flags.add('session_loss')
                if ev.get('how') == 'abort':
                    world.net.fired['server_rst'] += 1
                    session.abort()
                else:
                    world.net.fired['server_eof'] += 1
                    session.close()
                sig.append(('session_loss', dn.parent is not None, len(dn.children)))
        world.trace('event', op)

    async def main():
        await world.start_client(alice)
        await asyncio.sleep(BASE)
        touch()
        for ev in events:
            gap = float(ev.get('gap', 0.0))
            if gap > 0:
                # a long gap is cut into steps so that a quiescent moment inside it is judged once
                end = loop.time() + gap
                judged = False
                while loop.time() < end - 1e-12:
                    await asyncio.sleep(min(0.5, end - loop.time()))
                    if not judged and quiescent():
                        judge('between')
                        judged = True
            fire(ev)
        limit = loop.time() + 30.0
        while loop.time() < limit:
            await asyncio.sleep(0.5)
            if quiescent():
                break
        if quiescent():
            judge('final')
        else:
            world.probe('never_quiescent')

    world.run(main())

    # ------------------------------------------------------------------ admissions, judged over the whole history
    accept_log = [(t, bool(m.accept)) for (t, _, m) in tap.sent if isinstance(m, M.AcceptChildren.Request)]
    for a in admissions:
        t = a['t']
        if any(tp < t - model.EPS and user == a['user'] for (tp, user) in proposals):
            world.violate('C13.potential_parent_child', **({} if a['session'] else {'session': False}))
        if not any(ts <= t + model.EPS for ts in own_stats):
            world.probe('admission_before_first_own_stats')
            continue
        verdict = model.judge_admission(t, a['count_before'], accept_log, admission)
        if verdict is not None:
            if not DEBUG:
                verdict = {'reason': verdict['reason']}
            if not a['session']:
                verdict['session'] = False
            world.violate('C13.child_admission', **verdict)
            flags.add('admission_violation')
    refused = [r for r in links if r['slot'] == 'con' and not any(a['link'] == r['sim'].id for a in admissions)]
    if refused:
        flags.add('admission_refused')
        world.probe('child_candidate_not_admitted', len(refused))
    if admissions:
        world.probe('child_admitted', len(admissions))
    if 'parent_set' in flags:
        world.probe('parent_set')
    for f in sorted(flags):
        world.probe('flag_' + f)
    if not state['judged']:
        world.probe('never_judged')
    for rec in common.error_logs(world, 'exception notifying listener'):
        world.probe('listener_exception_logged')
        break
    for rec in loop.exc_contexts:
        world.probe('loop_exception_handler:' + str(rec.get('exc_type')))

    interesting = flags & {'parent_reannounced', 'non_candidate_announced', 'parent_lost', 'admission_refused', 'reset',
                           'session_loss', 'several_candidates'}
    nontrivial = bool(flags & {'parent_set', 'child_admitted'}) and bool(interesting)
    shape = [(tr[2], len(tr[4])) for tr in transitions]
    return common.finish(world, nontrivial, [sig, shape, sorted(flags)])


def _had_parent(transitions, iteration):
    """Was there a parent at the end of loop iteration ``iteration``?"""
    has = False
    for (_, it, has_parent, _, _) in transitions:
        if it > iteration:
            break
        has = has_parent
    return has

INFO['rule'] += ' Round-5 additions: children dial the obfuscated port (obf_dial).'

INFO['rule'] += ' Round-6 additions: a child that introduces itself with an empty user name (nameless).'
