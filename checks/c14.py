"""C14 - search requests flow down the tree exactly once and are answered to the asker.

World: one real client ('alice') logged in to the scripted server, with a small scanned
share tree (an EVERYONE directory and a FRIENDS directory, so that a stranger gets locked
results and the friend 'fred' gets them as visible ones), and scripted peers in fixed roles:
'p0' the parent (taken from a PotentialParents list, announces level and root), 'c0'..'c2'
children (dial in over D connections), 'k0'/'k1' candidates (connected D peers that are
neither parent nor child: proposed as potential parents, silent on the connection alice
opened and/or dialling in themselves), 'x0' a child that closed its connection before the
first request, 'bob' / 'fred' askers registered at the server (they accept the P connection
alice opens for her reply and record the frames).

A plan fixes the tree shape and holds <= 9 steps: <= 5 search requests over the three
carriers (ServerSearchRequest from the server while alice has no parent,
DistributedSearchRequest / DistributedServerSearchRequest from the parent) with drawn user
(incl. alice's own name, a child's name, an unknown user), ticket and query, interleaved
with membership changes (child joins / leaves, parent leaves / a new parent is taken) at
gaps from 0 to 3 virtual seconds.

Oracle (per request, from the frames every actor received; models/tree.py, models/shares.py):
exactly one DistributedSearchRequest with the same user, ticket and query on every child
connection whose membership was stable around the request, none on any other connection,
nothing at all for requests carrying alice's own name; exactly one PeerSearchReply with the
ticket, alice's name and exactly the visible / locked files of the reference matcher at the
asker if there are any, none otherwise.
"""
from __future__ import annotations

import asyncio
import copy
import os

from aioslsk.events import ConnectionStateChangedEvent, MessageReceivedEvent, PeerInitializedEvent
from aioslsk.network.connection import PeerConnection, ServerConnection
from aioslsk.protocol import messages as M
from aioslsk.protocol.primitives import PotentialParent

from models import tree as model
from models.shares import ShareIndexModel
from sim.world import World
from . import common

PROPERTY = 'C14'
INFO = {
    'level': 'exploration',
    'rule': ('plans = tree shape (parent yes 60 % with level 0..4 / no, 0..3 children, 0..2 candidates, one closed child '
             '30 %) x share content (2..5 files in the EVERYONE directory, 1..3 in the FRIENDS directory, colliding '
             'vocabulary) x <= 9 steps: 1..5 search requests (carrier = server while there is no parent, else '
             'DistributedSearchRequest 2/3 or legacy DistributedServerSearchRequest 1/3 from the parent; user = stranger '
             '45 / friend 20 / own name 15 / a child 10 / the parent 5 / unknown user 5; unique tickets incl. 0, 2^31, '
             '2^32-1; queries with include / exclude / wildcard terms that hit nothing, only visible, only locked or both) '
             'interleaved with 0..4 membership changes (child joins, child leaves by FIN/RST, parent leaves, new parent) at '
             'gaps {0, 1 ms, 50 ms, 0.3 s, 1 s, 3 s}; non-trivial = a judged request met >= 1 child and one of {membership '
             'changed between requests, unstable membership, own-name request, locked results, candidate or closed child '
             'present}; distinct = signature over (shape, per request: carrier, asker class, reply class, stable/unstable '
             'children, other connections) and the membership steps'),
    'real': common.REAL,
    'stub': common.STUB,
    'assumptions': [
        'scripted server/peers encode and decode frames with aioslsk message classes (codec is trusted base)',
        'fan-out set = distributed_network.children read in the first listener of the request\'s MessageReceivedEvent '
        '(public attribute); a child admitted or removed in the virtual instant of the delivery, or whose connection '
        'ended within 0.5 s after it, may get 0 or 1 copies; every other connection must get none',
        'an aioslsk connection object is tied to its simulated socket through the private _writer attribute (read at '
        'PeerInitializedEvent, first listener)',
        'a server search request delivered while alice still has a parent is outside the statement ("when acting as '
        'branch root") and is not judged',
        'reply content is compared as sets of reported paths (@@alias\\\\path below the shared directory), visible and '
        'locked separately; the matcher reading is the one of models/shares.py (C07)',
        'an answer is awaited for 8 virtual seconds after the last step (address lookup + direct connect of a reachable '
        'asker take < 1 s); askers unknown to the server are judged for fan-out only',
        'file names and queries use ASCII letters/digits, space, "-", "(" and ")" only',
    ],
}
INFO['rule'] += ' Later additions: (12 %) the server connection is lost once while the distributed connections stay; requests delivered without a session are judged for the fan-out only.'

OWN = 'alice'
PARENT = 'p0'
CHILDREN = ('c0', 'c1', 'c2')
CANDIDATES = ('k0', 'k1')
CLOSED = 'x0'
STRANGER = 'bob'
FRIEND = 'fred'
GHOST = 'ghost'
TREE_PEERS = (PARENT,) + CHILDREN + CANDIDATES + (CLOSED,)
ALL_PEERS = TREE_PEERS + (STRANGER, FRIEND)
SIMPLE_NET = {'base_ms': 5, 'jitter_ms': 0, 'segmentation': 'whole', 'coalesce': True}
GAPS = (0.0, 0.0, 0.001, 0.05, 0.3, 1.0, 3.0)
STABLE_WINDOW = 0.5
ANSWER_WAIT = 8.0
EPS = model.EPS
BASE_MTIME = 1_600_000_000

PUB_FILES = ('song one.mp3', 'long song.mp3', 'live/concert song.flac', 'live/alive.mp3', 'mix tape.ogg',
             'along the road.mp3', 'live/tape (live).mp3')
PRIV_FILES = ('secret song.mp3', 'demo tape.mp3', 'rare/live bootleg.flac', 'rare/secret mix.ogg')
QUERIES = ('song', 'song', 'tape', 'song -long', '*ong', 'nomatch', 'secret', 'concert live', 'mp3', 'bootleg', 'demo',
           'live', 'alive', '-song', 'secret song', 'mix', '*ive -alive', 'mix -secret', 'road', 'flac')
TICKETS = (0, 1, 2, 2 ** 31, 2 ** 32 - 1)
MINIMAL_FILES = {'pub': ['song one.mp3', 'mix tape.ogg'], 'priv': ['secret song.mp3']}


# ----------------------------------------------------------------------------- generator

def _ticket(rng, used):
    while True:
        t = rng.choice(TICKETS) if rng.random() < 0.3 else rng.getrandbits(32)
        if t not in used:
            used.add(t)
            return t


def generate(rng, index, tier):
    net = dict(SIMPLE_NET, base_ms=rng.choice([1, 5, 20])) if rng.random() < 0.5 else common.draw_net(rng)
    parent = None
    if rng.random() < 0.6:
        level = rng.choice([0, 1, 2, 3, 4])
        parent = {'level': level, 'root': PARENT if level == 0 else rng.choice(['r1', 'r2'])}
    nchildren = rng.choice([0, 1, 2, 2, 3, 3])
    ncands = rng.choice([0, 0, 1, 1, 2])
    plan = {
        'seed': rng.getrandbits(32), 'net': net, 'parent': parent, 'children': nchildren, 'candidates': ncands,
        'closed_child': rng.random() < 0.3,
        'files': {'pub': sorted(rng.sample(PUB_FILES, rng.randint(2, 5))),
                  'priv': sorted(rng.sample(PRIV_FILES, rng.randint(1, 3)))},
    }
    has_parent = parent is not None
    members = list(CHILDREN[:nchildren])
    nreq = rng.randint(1, 5)
    nmem = rng.choice([0, 1, 1, 2, 3, 4])
    kinds = ['search'] * nreq + ['member'] * nmem
    rng.shuffle(kinds)
    used = set()
    steps = []
    for kind in kinds:
        gap = rng.choice(GAPS)
        if kind == 'search':
            r = rng.random()
            user = (STRANGER if r < 0.45 else FRIEND if r < 0.65 else OWN if r < 0.80
                    else rng.choice(CHILDREN) if r < 0.90 else PARENT if r < 0.95 else GHOST)
            carrier = 'server' if not has_parent else rng.choice(['dist', 'dist', 'legacy'])
            if rng.random() < 0.04:
                carrier = rng.choice(['server', 'dist', 'legacy'])
            steps.append({'op': 'search', 'carrier': carrier, 'user': user, 'ticket': _ticket(rng, used),
                          'query': rng.choice(QUERIES), 'gap': gap})
        else:
            r = rng.random()
            outside = [c for c in CHILDREN + (CLOSED,) if c not in members]
            if r < 0.4 and outside:
                peer = rng.choice(outside)
                members.append(peer)
                steps.append({'op': 'join', 'peer': peer, 'gap': gap})
            elif r < 0.75 and members:
                peer = rng.choice(members)
                members.remove(peer)
                steps.append({'op': 'leave', 'peer': peer, 'how': rng.choice(['close', 'abort']), 'gap': gap})
            elif has_parent:
                has_parent = False
                steps.append({'op': 'parent_leave', 'how': rng.choice(['close', 'abort']), 'gap': gap})
            else:
                has_parent = True
                level = rng.choice([0, 1, 3])
                steps.append({'op': 'parent_join', 'level': level, 'root': PARENT if level == 0 else 'r2', 'gap': gap})
    if rng.random() < 0.15:
        plan['asker_hangup'] = True
        plan['slow_closing'] = rng.choice([0.05, 0.5, 2.0])
    if rng.random() < 0.2:
        plan['store_amount'] = rng.choice([0, 1, 2, 3])
    if rng.random() < 0.12 and steps:
        steps.insert(rng.randint(0, len(steps) - 1), {'op': 'break_dir', 'dir': 'live', 'gap': rng.choice(GAPS)})
    if rng.random() < 0.25:
        plan['connect_mode'] = rng.choice(['fallback', 'race'])
        plan['portless'] = sorted(rng.sample([STRANGER, FRIEND], rng.randint(1, 2)))
    if has_parent and rng.random() < 0.12:
        # the server connection is lost somewhere along the way (once); later requests come from the parent only
        pos = rng.randint(0, len(steps))
        steps.insert(pos, {'op': 'server_loss', 'how': rng.choice(['close', 'abort']), 'gap': rng.choice([0.0, 0.3, 1.0])})
    plan['steps'] = steps
    return plan


def _plan(steps, parent='default', children=2, candidates=1, closed=True, **kw):
    plan = {'seed': 3, 'net': dict(SIMPLE_NET), 'parent': {'level': 2, 'root': 'r1'} if parent == 'default' else parent,
            'children': children, 'candidates': candidates, 'closed_child': closed,
            'files': {'pub': list(PUB_FILES), 'priv': list(PRIV_FILES)}, 'steps': [dict(s) for s in steps]}
    plan.update(kw)
    for s in plan['steps']:
        s.setdefault('gap', 0.3)
    return plan


def corpus(tier):
    out = []
    n = [1000]

    def search(carrier, user=STRANGER, query='song', **kw):
        n[0] += 1
        return dict({'op': 'search', 'carrier': carrier, 'user': user, 'ticket': n[0], 'query': query}, **kw)
    # 1. every carrier x asker class x reply class, in a full tree
    for carrier in ('server', 'dist', 'legacy'):
        parent = None if carrier == 'server' else 'default'
        for user in (STRANGER, FRIEND, OWN, 'c0', GHOST, PARENT):
            out.append(_plan([search(carrier, user, q, gap=0.3) for q in ('song', 'secret', 'mix -secret', 'nomatch')],
                             parent=parent))
        # 2. shapes: no children, three children, no candidates
        out.append(_plan([search(carrier), search(carrier, query='secret')], parent=parent, children=0))
        out.append(_plan([search(carrier), search(carrier, query='*ong')], parent=parent, children=3, candidates=2))
        out.append(_plan([search(carrier)], parent=parent, children=1, candidates=0, closed=False))
        # 3. membership changes right before / right after / long before a request
        for gap in (0.0, 0.001, 0.05, 1.0):
            out.append(_plan([search(carrier), {'op': 'join', 'peer': 'c2', 'gap': 0.3}, search(carrier, gap=gap),
                              {'op': 'leave', 'peer': 'c0', 'how': 'close', 'gap': 0.3}, search(carrier, gap=gap)],
                             parent=parent))
            out.append(_plan([search(carrier), {'op': 'leave', 'peer': 'c1', 'how': 'abort', 'gap': gap},
                              search(carrier, gap=gap), {'op': 'join', 'peer': 'c1', 'gap': gap}, search(carrier, gap=1.0)],
                             parent=parent))
        # 4. two requests back to back (same asker, different askers)
        out.append(_plan([search(carrier, gap=0.3), search(carrier, gap=0.0), search(carrier, FRIEND, gap=0.0)],
                         parent=parent))
    # 5. the parent changes between requests: root -> branch member -> root
    out.append(_plan([search('server'), {'op': 'parent_join', 'level': 1, 'root': 'r2', 'gap': 0.3}, search('dist', gap=1.0),
                      search('legacy', OWN, gap=0.3), {'op': 'parent_leave', 'how': 'close', 'gap': 0.3},
                      search('server', gap=1.0), search('server', OWN, gap=0.3)], parent=None))
    # 7. the server connection is lost while parent and children stay connected: requests from the parent still go down
    for how in ('close', 'abort'):
        for carrier in ('dist', 'legacy'):
            out.append(_plan([search(carrier), {'op': 'server_loss', 'how': how, 'gap': 0.3}, search(carrier, gap=1.0),
                              search(carrier, FRIEND, gap=0.3), {'op': 'join', 'peer': 'c2', 'gap': 0.3},
                              search(carrier, gap=1.0)], parent='default'))
    # 8. the asker hangs up after each answer and the connection is slow to close: the next request of the same asker arrives
    #    inside the closing window of the connection that carried the previous answer
    for carrier in ('server', 'dist'):
        for gap in (0.3, 0.8, 1.5, 3.0):
            out.append(_plan([search(carrier, STRANGER), search(carrier, STRANGER, gap=gap), search(carrier, FRIEND, gap=gap),
                              search(carrier, STRANGER, gap=gap)],
                             parent=None if carrier == 'server' else 'default', asker_hangup=True, slow_closing=2.0))
    # 10. askers without listening ports (reachable through the server only) in both connect modes; a small memory of
    #     received requests, more requests than it holds
    for carrier in ('server', 'dist'):
        parent = None if carrier == 'server' else 'default'
        for mode in ('fallback', 'race'):
            out.append(_plan([search(carrier, STRANGER), search(carrier, FRIEND, 'secret', gap=1.0),
                              search(carrier, STRANGER, 'nomatch', gap=1.0), search(carrier, STRANGER, gap=1.0)],
                             parent=parent, connect_mode=mode, portless=[STRANGER, FRIEND]))
        for amount in (0, 1, 2):
            out.append(_plan([search(carrier, STRANGER), search(carrier, FRIEND, 'secret'), search(carrier, STRANGER, 'nomatch'),
                              search(carrier, STRANGER, '*ong'), search(carrier, FRIEND)],
                             parent=parent, store_amount=amount))
    # 11. a sub directory of the share is replaced by a plain file after the scan: matches below it cannot be looked at
    for carrier in ('server', 'dist'):
        parent = None if carrier == 'server' else 'default'
        out.append(_plan([search(carrier, STRANGER, 'song'), {'op': 'break_dir', 'dir': 'live', 'gap': 0.5},
                          search(carrier, STRANGER, 'song', gap=1.0), search(carrier, FRIEND, 'live', gap=1.0),
                          search(carrier, STRANGER, 'concert live', gap=1.0), search(carrier, STRANGER, 'tape', gap=1.0)],
                         parent=parent))
    # 9. a child user with two connections at once, one of them goes away; the parent's user dials in a second time
    for carrier in ('dist', 'legacy'):
        for which in ('old', 'new'):
            for how in ('close', 'abort'):
                out.append(_plan([search(carrier), {'op': 'rejoin', 'peer': 'c0', 'gap': 0.3}, search(carrier, gap=1.0),
                                  {'op': 'leave', 'peer': 'c0', 'how': how, 'which': which, 'gap': 0.3}, search(carrier, gap=1.0),
                                  search(carrier, FRIEND, gap=0.3)], parent='default'))
        out.append(_plan([search(carrier), {'op': 'parent_rejoin', 'gap': 0.3}, search(carrier, gap=1.0),
                          search(carrier, FRIEND, gap=0.3)], parent='default'))
    # 6. tickets at the edges of the range
    out.append(_plan([dict(search('dist'), ticket=t) for t in TICKETS]))
    return out


SHRINK_LISTS = ('steps',)
SHRINK_PROTECT = ('pub', 'priv')


def simplify(plan):
    if plan.get('net') != SIMPLE_NET:
        yield dict(plan, net=dict(SIMPLE_NET))
    if plan.get('closed_child'):
        yield dict(plan, closed_child=False)
    if plan.get('candidates'):
        yield dict(plan, candidates=plan['candidates'] - 1)
    if plan.get('children'):
        yield dict(plan, children=plan['children'] - 1)
    if plan.get('files') != MINIMAL_FILES:
        yield dict(plan, files=copy.deepcopy(MINIMAL_FILES))
    for key in ('pub', 'priv'):
        files = plan.get('files', {}).get(key, [])
        for f in files:
            if len(files) > 1:
                cand = copy.deepcopy(plan)
                cand['files'][key] = [x for x in files if x != f]
                yield cand
    for i, step in enumerate(plan.get('steps', [])):
        def variant(**kw):
            cand = copy.deepcopy(plan)
            cand['steps'][i].update(kw)
            return cand
        if step.get('gap') not in (0.3, 1.0):
            yield variant(gap=0.3)
            yield variant(gap=1.0)
        if step['op'] == 'search':
            if step.get('user') not in (STRANGER, OWN):
                yield variant(user=STRANGER)
            if step.get('query') != 'song':
                yield variant(query='song')
            if step.get('ticket') != 1000 + i:
                yield variant(ticket=1000 + i)
        if step.get('how') == 'abort':
            yield variant(how='close')


# ----------------------------------------------------------------------------- run

def run(plan):
    world = World(plan, PROPERTY)
    try:
        return _run(world, plan)
    finally:
        world.close()


def _run(world: World, plan):
    loop = world.loop
    server = world.add_server({'parent_min_speed': 1, 'parent_speed_ratio': 50})
    server.users[OWN] = {'stats': (40960, 10, 5, 2)}          # limit 8: every child of the plan is admitted
    portless = set(plan.get('portless') or [])
    peers = {name: world.add_peer(name, listening_clear=name not in portless, listening_obfuscated=name not in portless)
             for name in ALL_PEERS}

    # ------------------------------------------------------------------ shares on disk
    root = world.sandbox.sub(OWN, 'shares')
    dirs = {'pub': os.path.join(root, 'pub'), 'priv': os.path.join(root, 'priv')}
    serial = 0
    for key in ('pub', 'priv'):
        os.makedirs(dirs[key], exist_ok=True)
        for relpath in plan.get('files', {}).get(key, []):
            path = os.path.join(dirs[key], *relpath.split('/'))
            os.makedirs(os.path.dirname(path), exist_ok=True)
            with open(path, 'wb') as fh:
                fh.write(b'x' * (10 + serial))
            os.utime(path, (BASE_MTIME + serial, BASE_MTIME + serial))
            serial += 1
    overrides = {
        'shares': {'scan_on_start': False, 'directories': [
            {'path': dirs['pub'], 'share_mode': 'everyone', 'users': []},
            {'path': dirs['priv'], 'share_mode': 'friends', 'users': []}]},
        'users': {'friends': [FRIEND]},
    }
    if plan.get('connect_mode'):
        overrides['network'] = {'peer': {'connect_mode': plan['connect_mode']}}
    if plan.get('store_amount') is not None:
        # how many received requests the client remembers (default 500)
        overrides['searches'] = {'receive': {'store_amount': int(plan['store_amount'])}}
    alice = world.add_client(OWN, overrides=overrides)
    client = alice.client
    dn = client.distributed_network
    index = ShareIndexModel()
    index.add(dirs['pub'], 'everyone')
    index.add(dirs['priv'], 'friends')

    state = {'activity': loop.time(), 'tickets': 100}
    broken = set()                  # files that cannot be looked at any more (ENOTDIR)
    keep = []
    links = []                      # D link records
    by_sim = {}
    conn_sim = {}
    dlinks = {name: {'acc': [], 'con': []} for name in ALL_PEERS}
    plinks = []                     # {'peer', 'link', 'replies': [(t, message)]}
    link_waiters = {name: [] for name in ALL_PEERS}
    transitions = []                # (t, iteration, parent sim|None, [child sims])
    admitted_at = {}                # sim id -> t of admission
    left_at = {}                    # sim id -> t of removal from children
    requests = []
    own_replies = []                # PeerSearchReply frames delivered to alice herself
    plan_tickets = {s['ticket'] for s in plan.get('steps', []) if s.get('op') == 'search'}
    sig_steps = []

    def touch():
        state['activity'] = loop.time()

    # ------------------------------------------------------------------ peer side
    def register_dlink(peer, link, slot):
        sim = link.writer.transport.conn
        rec = {'index': len(links), 'peer': peer.name, 'slot': slot, 'link': link, 'sim': sim, 'ended': None,
               'ended_at': None, 'searches': [], 'others': 0}
        links.append(rec)
        by_sim[sim.id] = rec
        dlinks[peer.name][slot].append(rec)
        for fut in list(link_waiters[peer.name]):
            if not fut.done():
                fut.set_result(None)
        world.trace('dlink', peer.name, slot, sim.id)
        touch()
        return rec

    async def dreader(rec):
        link = rec['link']
        while True:
            msg = await link.recv('D')
            touch()
            if msg is None:
                if rec['ended'] is None:
                    rec['ended'] = 'remote'
                    rec['ended_at'] = loop.time()
                world.trace('dlink_end', rec['sim'].id, rec['ended'])
                return
            if isinstance(msg, M.DistributedSearchRequest.Request):
                rec['searches'].append((loop.time(), msg.username, msg.ticket, msg.query))
                world.trace('peer_search', rec['sim'].id, msg.ticket)
            elif isinstance(msg, (M.DistributedBranchLevel.Request, M.DistributedBranchRoot.Request)):
                pass
            else:
                rec['others'] += 1
                world.trace('peer_other', rec['sim'].id, type(msg).__qualname__ if not isinstance(msg, tuple) else 'raw')

    async def preader(prec):
        link = prec['link']
        got_reply = False
        while True:
            if plan.get('asker_hangup') and got_reply:
                # the asker hangs up once it has its answer and nothing more has come for half a second (an answer that
                # is already on the wire is still read)
                try:
                    msg = await asyncio.wait_for(link.recv('P'), 0.5)
                except asyncio.TimeoutError:
                    world.net.fired['asker_hangs_up_after_reply'] += 1
                    link.close()
                    return
            else:
                msg = await link.recv('P')
            touch()
            if msg is None:
                return
            if isinstance(msg, M.PeerSearchReply.Request):
                prec['replies'].append((loop.time(), msg))
                world.trace('reply', prec['peer'], msg.ticket, len(msg.results), len(msg.locked_results or []))
                got_reply = True

    def make_accept(peer):
        async def on_accept(link):
            touch()
            init = await link.recv_init()
            touch()
            if not isinstance(init, M.PeerInit.Request):
                return
            if init.typ == 'D':
                await dreader(register_dlink(peer, link, 'acc'))
            elif init.typ == 'P':
                prec = {'peer': peer.name, 'link': link, 'replies': []}
                plinks.append(prec)
                await preader(prec)
        return on_accept

    for peer in peers.values():
        peer.accept_handler = make_accept(peer)

    def make_relay(peer):
        # an asker without listening ports can only be reached through the server: it pierces on request
        def on_relay(relay):
            async def pierce():
                touch()
                port, obf = (relay.port, False) if relay.port else (relay.obfuscated_port, True)
                try:
                    link = await peer.connect_pierce(relay.ip, port, relay.ticket, relay.typ, obfuscated=obf)
                except OSError:
                    return
                world.net.fired['asker_without_ports_pierced'] += 1
                if relay.typ == 'P':
                    prec = {'peer': peer.name, 'link': link, 'replies': []}
                    plinks.append(prec)
                    await preader(prec)
            return pierce()
        return on_relay

    for name in portless:
        if name in peers:
            peers[name].connect_to_peer_handler = make_relay(peers[name])

    wire = None
    if plan.get('asker_hangup'):
        from sim.xfer import WireTap
        wire = WireTap(world, OWN)
    if plan.get('slow_closing'):
        # an application listener that is slow while a peer connection is closing: the connection that carried the last
        # answer stays in its closing window for a while
        from aioslsk.network.connection import ConnectionState as _CS

        async def slow_closing(event):
            if isinstance(event.connection, PeerConnection) and event.state == _CS.CLOSING \
                    and event.connection.connection_type == 'P':
                world.probe('slow_listener_held_closing')
                await asyncio.sleep(float(plan['slow_closing']))
        world.keep_alive.append(slow_closing)
        client.events.register(ConnectionStateChangedEvent, slow_closing, priority=2000)

    async def dial_in(peer):
        state['tickets'] += 1
        link = await peer.connect_direct(alice.host.ip, 60000, 'D', state['tickets'])
        await dreader(register_dlink(peer, link, 'con'))

    def live(name, slot):
        for rec in reversed(dlinks[name][slot]):
            if rec['ended'] is None:
                return rec
        return None

    async def wait_link(name, slot, timeout=2.0):
        deadline = loop.time() + timeout
        while True:
            rec = live(name, slot)
            if rec is not None:
                return rec
            remaining = deadline - loop.time()
            if remaining <= 1e-6:
                return None
            fut = loop.create_future()
            link_waiters[name].append(fut)
            handle = loop.call_later(remaining, lambda fut=fut: fut.done() or fut.set_result(None))
            try:
                await fut
            finally:
                handle.cancel()
                if fut in link_waiters[name]:
                    link_waiters[name].remove(fut)

    def end_link(rec, how):
        rec['ended'] = how
        rec['ended_at'] = loop.time()
        if how == 'abort':
            world.net.fired['remote_rst'] += 1
            rec['link'].abort()
        else:
            world.net.fired['remote_fin'] += 1
            rec['link'].close()
        touch()

    # ------------------------------------------------------------------ alice side observation
    def sims_of(dpeers):
        return [conn_sim.get(id(dp.connection)) for dp in dpeers]

    def on_initialized(event):
        conn = event.connection
        if conn.connection_type != 'D':
            return
        writer = getattr(conn, '_writer', None)
        sim = getattr(getattr(writer, 'transport', None), 'conn', None)
        if sim is not None:
            keep.append(conn)
            conn_sim[id(conn)] = sim.id

    def on_message_first(event):
        msg = event.message
        conn = event.connection
        if isinstance(msg, M.PeerSearchReply.Request):
            own_replies.append((loop.time(), msg))
            return
        if isinstance(msg, M.ServerSearchRequest.Response) and isinstance(conn, ServerConnection):
            carrier = 'server'
        elif isinstance(msg, M.DistributedSearchRequest.Request) and isinstance(conn, PeerConnection):
            carrier = 'dist'
        elif isinstance(msg, M.DistributedServerSearchRequest.Request) and isinstance(conn, PeerConnection):
            carrier = 'legacy'
        else:
            return
        for req in requests:
            if req['delivered'] is None and req['carrier'] == carrier and req['ticket'] == msg.ticket \
                    and req['user'] == msg.username and req['query'] == msg.query:
                parent = dn.parent
                req['delivered'] = {
                    't': loop.time(), 'iteration': loop.iterations, 'has_parent': parent is not None,
                    'from_parent': parent is not None and parent.connection is conn,
                    'parent_sim': conn_sim.get(id(parent.connection)) if parent is not None else None,
                    'children': sims_of(dn.children), 'session': client.session is not None,
                    'parent_user': parent.username if parent is not None else None}
                world.trace('request_delivered', req['id'], carrier, tuple(req['delivered']['children']))
                break

    world.keep_alive.extend([on_initialized, on_message_first])
    client.events.register(PeerInitializedEvent, on_initialized, priority=0)
    client.events.register(MessageReceivedEvent, on_message_first, priority=0)
    alice.recorder.hooks.append(lambda event: touch())
    server.observers.append(lambda session, message: touch())

    snap = {'key': (0, ()), 'children': []}

    def monitor():
        parent = dn.parent
        children = dn.children
        key = (id(parent) if parent is not None else 0, tuple([id(c) for c in children]))
        if key == snap['key']:
            return
        now = loop.time()
        keep.append(parent)
        keep.extend(children)
        cur = sims_of(children)
        prev = snap['children']
        for s in cur:
            if s not in prev:
                admitted_at[s] = now
                left_at.pop(s, None)
        for s in prev:
            if s not in cur:
                left_at[s] = now
        transitions.append((now, loop.iterations, conn_sim.get(id(parent.connection)) if parent is not None else None, cur))
        world.trace('tree', transitions[-1][2], tuple(cur))
        snap.update(key=key, children=cur)

    loop.monitors.append(monitor)

    # ------------------------------------------------------------------ steps
    async def take_parent(level, root_name, with_candidates=()):
        entries = [PotentialParent(p, peers[p].host.ip, peers[p].port) for p in (PARENT,) + tuple(with_candidates)]
        server.send_to(OWN, M.PotentialParents.Response(entries))
        rec = await wait_link(PARENT, 'acc')
        if rec is None:
            return False
        rec['link'].send(M.DistributedBranchLevel.Request(level))
        if level != 0:
            rec['link'].send(M.DistributedBranchRoot.Request(root_name))
        touch()
        return True

    def fire_search(step):
        carrier = step['carrier']
        req = {'id': len(requests), 'carrier': carrier, 'user': step['user'], 'ticket': int(step['ticket']),
               'query': step['query'], 'sent_at': loop.time(), 'delivered': None, 'sent': False}
        if carrier == 'server':
            requests.append(req)
            req['sent'] = server.send_to(OWN, M.ServerSearchRequest.Response(
                distributed_code=3, unknown=0x31, username=req['user'], ticket=req['ticket'], query=req['query']))
        else:
            rec = live(PARENT, 'acc')
            if rec is None:
                world.trace('search_skipped', carrier)
                world.probe('parent_request_without_parent_connection')
                return
            requests.append(req)
            req['sent'] = True
            if carrier == 'dist':
                rec['link'].send(M.DistributedSearchRequest.Request(
                    unknown=0x31, username=req['user'], ticket=req['ticket'], query=req['query']))
            else:
                rec['link'].send(M.DistributedServerSearchRequest.Request(
                    distributed_code=3, unknown=0x31, username=req['user'], ticket=req['ticket'], query=req['query']))
        touch()
        world.trace('request', req['id'], carrier, req['user'], req['ticket'], req['query'])

    async def fire(step):
        op = step['op']
        if op == 'search':
            fire_search(step)
        elif op == 'join':
            peer = peers[step['peer']]
            if live(peer.name, 'con') is None:
                peer.spawn(dial_in(peer))
                sig_steps.append(('join', len(dn.children)))
        elif op == 'rejoin':
            # the same user connects once more while its earlier connection is still there (a re-connect before the stale
            # connection is noticed, both attempts of a race-mode connect)
            peer = peers[step['peer']]
            world.net.fired['second_connection_of_a_child'] += 1
            peer.spawn(dial_in(peer))
            sig_steps.append(('rejoin', len(dn.children)))
        elif op == 'parent_rejoin':
            # the parent's user opens a second, incoming connection
            world.net.fired['parent_user_dials_in'] += 1
            peers[PARENT].spawn(dial_in(peers[PARENT]))
            sig_steps.append(('parent_rejoin', dn.parent is not None))
        elif op == 'leave':
            rec = live(step['peer'], 'con')
            if step.get('which') == 'old':
                olds = [r for r in dlinks[step['peer']]['con'] if r['ended'] is None]
                rec = olds[0] if olds else None
            if rec is not None:
                end_link(rec, step.get('how', 'close'))
                sig_steps.append(('leave', step.get('how', 'close'), len(dn.children)))
        elif op == 'parent_leave':
            rec = live(PARENT, 'acc')
            if rec is not None:
                end_link(rec, step.get('how', 'close'))
                sig_steps.append(('parent_leave', step.get('how', 'close')))
        elif op == 'server_loss':
            # the server connection goes away (no reconnect); the distributed connections stay
            sess = [x for x in server.sessions if not x.closed]
            if sess:
                world.net.fired['server_lost'] += 1
                state['server_lost_at'] = loop.time()
                (sess[-1].abort if step.get('how') == 'abort' else sess[-1].close)()
                sig_steps.append(('server_loss',))
        elif op == 'break_dir':
            # after the scan a sub directory of the public share is replaced by a plain file: the files below it are still in
            # the index but every look at them fails with ENOTDIR (not "file not found")
            import shutil
            target = os.path.join(dirs['pub'], step.get('dir', 'live'))
            if os.path.isdir(target):
                for base_, _d, names in os.walk(target):
                    for name in names:
                        broken.add(os.path.join(base_, name))
                shutil.rmtree(target)
                with open(target, 'wb') as fh:
                    fh.write(b'x')
                state['broken_at'] = loop.time()
                world.disk.fired['directory_replaced_by_file'] += 1
                sig_steps.append(('break_dir',))
        elif op == 'parent_join':
            if live(PARENT, 'acc') is None:
                peers[PARENT].spawn(take_parent(int(step.get('level', 1)), step.get('root', 'r2')))
                sig_steps.append(('parent_join',))
        world.trace('step', op)

    async def main():
        await world.start_client(alice)
        scan = world.call(alice, 'scan', client.shares.scan)
        await scan.task
        if scan.outcome() != 'returned':
            raise RuntimeError(f'scan failed: {scan.exception!r}')
        index.scanned_all()
        await asyncio.sleep(0.5)
        # --- build the tree
        ncands = int(plan.get('candidates', 0))
        cands = list(CANDIDATES[:ncands])
        pcfg = plan.get('parent')
        if pcfg:
            ok = await take_parent(int(pcfg.get('level', 1)), pcfg.get('root', 'r1'), cands)
            if not ok:
                raise RuntimeError('harness: the parent connection was not made')
            await asyncio.sleep(0.5)
            for name in cands:            # proposed peers that dial in themselves: connected, neither parent nor child
                peers[name].spawn(dial_in(peers[name]))
        elif cands:
            server.send_to(OWN, M.PotentialParents.Response(
                [PotentialParent(p, peers[p].host.ip, peers[p].port) for p in cands]))
            await asyncio.sleep(0.3)
            if len(cands) > 1:
                peers[cands[1]].spawn(dial_in(peers[cands[1]]))
        for name in CHILDREN[:int(plan.get('children', 0))]:
            peers[name].spawn(dial_in(peers[name]))
            await asyncio.sleep(0.05)
        if plan.get('closed_child'):
            peers[CLOSED].spawn(dial_in(peers[CLOSED]))
            await asyncio.sleep(0.5)
            rec = live(CLOSED, 'con')
            if rec is not None:
                end_link(rec, 'close')
        await asyncio.sleep(1.0)
        state['built'] = {'parent': dn.parent is not None, 'children': len(dn.children),
                          'others': len(dn.distributed_peers) - len(dn.children) - (1 if dn.parent is not None else 0)}
        world.trace('built', state['built']['parent'], state['built']['children'], state['built']['others'])
        # --- the steps
        for step in plan.get('steps', []):
            gap = float(step.get('gap', 0.0))
            if gap > 0:
                await asyncio.sleep(gap)
            await fire(step)
        # --- let forwards and answers arrive
        end = loop.time() + ANSWER_WAIT
        while loop.time() < end:
            await asyncio.sleep(0.5)
        limit = loop.time() + 20.0
        while loop.time() < limit and loop.time() - state['activity'] < 2.0:
            await asyncio.sleep(0.5)

    world.run(main())

    # ------------------------------------------------------------------ oracle
    aliases = {d.absolute_path: d.alias for d in client.shares.shared_directories}

    def reported(path):
        owner = index.owner_of(path)
        return '@@' + aliases.get(owner, '?') + '\\' + index.query_path(path, owner)

    def was_child_before(sim_id, t):
        return any(sim_id in tr[3] for tr in transitions if tr[0] < t - EPS)

    def role_at(rec, d):
        sim_id = rec['sim'].id
        if sim_id == d['parent_sim']:
            return 'parent'
        if was_child_before(sim_id, d['t']):
            return 'former_child'
        if admitted_at.get(sim_id) is not None and admitted_at[sim_id] > d['t'] + EPS:
            return 'later_child'
        if rec['peer'] in CANDIDATES:
            return 'candidate'
        if rec['peer'] == PARENT:
            return 'former_parent'
        return 'other'

    nontrivial = False
    sig_requests = []
    judged = 0
    known_triples = {(r['user'], r['ticket'], r['query']) for r in requests}
    for req in requests:
        d = req['delivered']
        base = {'carrier': req['carrier']}
        if d is None:
            world.probe('request_not_delivered')
            continue
        if req['carrier'] == 'server' and d['has_parent']:
            world.probe('server_request_while_parent')
            continue
        if req['carrier'] != 'server' and not d['from_parent']:
            world.probe('parent_request_from_non_parent')
            continue
        judged += 1
        own = model.is_own_request(req['user'], OWN)
        if not d['session']:
            # nobody is logged in: "searches that originate from the logged-in user" and the answer (which needs the
            # server to find the asker) are not judged; the fan-out to the current children is
            world.probe('request_without_session')
            if own:
                continue
        triple = (req['user'], req['ticket'], req['query'])
        td = d['t']
        stable, unstable = [], []
        for sim_id in d['children']:
            rec = by_sim.get(sim_id)
            adm = admitted_at.get(sim_id)
            gone = left_at.get(sim_id)
            shaky = (adm is None or adm >= td - EPS or rec is None
                     or (rec['ended_at'] is not None and rec['ended_at'] <= td + STABLE_WINDOW)
                     or (gone is not None and td - EPS <= gone <= td + STABLE_WINDOW))
            (unstable if shaky else stable).append(sim_id)
        must, may = model.fanout(req['user'], OWN, stable, unstable)
        n_other = 0
        for rec in links:
            sim_id = rec['sim'].id
            copies = [s for s in rec['searches'] if (s[1], s[2], s[3]) == triple]
            altered = [s for s in rec['searches'] if s[2] == req['ticket'] and (s[1], s[2], s[3]) not in known_triples]
            for s in altered:
                world.violate('C14.fanout_changed', field='user' if s[1] != req['user'] else 'query', **base)
            if own:
                if copies:
                    world.violate('C14.own_forwarded', **base)
                continue
            if copies and req['carrier'] != 'server' and d.get('parent_user') and rec['peer'] == d['parent_user'] \
                    and sim_id != d['parent_sim']:
                # "never back to the parent": also not over another connection of the parent's user
                world.violate('C14.fanout_wrong_target', role='parent_user', **base)
                continue
            if sim_id in must:
                if not copies:
                    world.violate('C14.fanout_missing', **base)
                elif len(copies) > 1:
                    world.violate('C14.fanout_dup', **base)
            elif sim_id in may:
                if len(copies) > 1:
                    world.violate('C14.fanout_dup', membership='changing', **base)
            else:
                adm = admitted_at.get(sim_id)
                if adm is not None and abs(adm - td) <= EPS:
                    continue                    # admitted in the instant of the delivery
                if adm is not None and adm < td - 1.0 and rec['ended_at'] is None and sim_id != d['parent_sim'] \
                        and rec['peer'] != d.get('parent_user') and not copies:
                    # it was admitted as a child long before, its connection stayed open until the end of the run, and yet
                    # it is not among the children any more: the request never reached an open child connection
                    world.violate('C14.fanout_missing', why='open_child_connection_dropped', **base)
                    continue
                if rec['ended_at'] is None or rec['ended_at'] > td:
                    n_other += 1
                if copies:
                    world.violate('C14.fanout_wrong_target', role=role_at(rec, d), **base)
        if not d['session']:
            sig_requests.append((req['carrier'], 'no_session', len(stable), len(unstable)))
            if stable:
                nontrivial = True
            continue
        # --- the answer
        asker = req['user']
        expectation = model.reply_expectation(index, req['query'], asker, OWN, [FRIEND])
        everywhere = [(p['peer'], m) for p in plinks for (_, m) in p['replies'] if m.ticket == req['ticket']]
        everywhere += [(OWN, m) for (_, m) in own_replies if m.ticket == req['ticket']]
        if own:
            if everywhere:
                world.violate('C14.own_answered', **base)
            klass = 'own'
        elif asker not in peers:
            klass = 'unreachable'
            world.probe('asker_unknown_to_server')
            strays = [who for (who, _) in everywhere]
            if strays:
                world.violate('C14.reply_spurious', what='wrong_recipient', **base)
        else:
            got = [m for (who, m) in everywhere if who == asker]
            strays = [who for (who, _) in everywhere if who != asker]
            if strays:
                world.violate('C14.reply_spurious', what='wrong_recipient', **base)
            if expectation is None:
                klass = 'none'
                if got:
                    world.violate('C14.reply_spurious', what='no_match', **base)
            else:
                visible, locked = expectation
                if broken and (visible | locked) & broken and td > state['broken_at'] - 3.0:
                    if td <= state['broken_at'] + 1e-6:
                        # the answer was being put together around the instant the directory went away: not judged
                        world.probe('request_around_the_instant_the_directory_went_away')
                        sig_requests.append((req['carrier'], 'unreadable-around'))
                        continue
                    # files that cannot be looked at are left out of the answer; the others are still answered
                    world.probe('match_on_unreadable_file')
                    visible, locked = visible - broken, locked - broken
                    if not visible and not locked:
                        sig_requests.append((req['carrier'], 'unreadable'))
                        continue
                klass = 'both' if visible and locked else 'visible' if visible else 'locked'
                facts = dict(base, matches=klass)
                written = wire is not None and any(
                    isinstance(rec.get('msg'), M.PeerSearchReply.Request) and rec['msg'].ticket == req['ticket']
                    and rec.get('peer') == asker for rec in wire.out)
                if not got and written:
                    # the client did write the answer; the asker had hung up (its own doing) before it arrived
                    world.probe('reply_written_but_asker_had_hung_up')
                elif not got and state.get('server_lost_at') is not None and state['server_lost_at'] <= td + 75.0:
                    # the answer needs the server (address of the asker, relayed connect): lost before it could be sent
                    world.probe('reply_not_judged_server_lost_later')
                elif not got:
                    world.violate('C14.reply_missing', **facts)
                elif len(got) > 1:
                    world.violate('C14.reply_dup', **facts)
                else:
                    m = got[0]
                    want_v = sorted(reported(f) for f in visible)
                    want_l = sorted(reported(f) for f in locked)
                    got_v = sorted(fd.filename for fd in m.results)
                    got_l = sorted(fd.filename for fd in (m.locked_results or []))
                    if m.username != OWN:
                        world.violate('C14.reply_content', what='username', **facts)
                    if got_v != want_v:
                        world.violate('C14.reply_content', what='visible', **facts)
                    if got_l != want_l:
                        world.violate('C14.reply_content', what='locked', **facts)
                if locked:
                    world.probe('locked_results_expected')
        sig_requests.append((req['carrier'], 'own' if own else 'friend' if asker == FRIEND else 'stranger'
                             if asker == STRANGER else 'tree_peer' if asker in TREE_PEERS else 'unknown',
                             klass, len(stable), len(unstable), min(n_other, 3)))
        if stable or unstable:
            world.probe('request_with_children')
            if unstable or own or klass in ('locked', 'both') or n_other or len(transitions) > 0 and any(
                    tr[0] > requests[0]['sent_at'] for tr in transitions):
                nontrivial = True
        if unstable:
            world.probe('request_with_changing_membership')
    # frames nobody asked for
    for rec in links:
        for s in rec['searches']:
            if s[2] not in plan_tickets:
                world.violate('C14.fanout_changed', field='ticket')
    for p in plinks:
        for (_, m) in p['replies']:
            if m.ticket not in plan_tickets:
                world.violate('C14.reply_spurious', what='unknown_ticket')
    if not judged:
        world.probe('no_request_judged')
    for rec in loop.exc_contexts:
        world.probe('loop_exception_handler:' + str(rec.get('exc_type')))
    built = state.get('built', {})
    return common.finish(world, nontrivial, [(built.get('parent'), built.get('children'), built.get('others')),
                                             sig_requests, sig_steps])

INFO['rule'] += ' Round-5 additions: askers without listening ports that pierce on request (portless), connect mode fallback / race, memory of received requests of 0..3 entries (store_amount).'

INFO['rule'] += ' Round-6 additions: step break_dir (a sub directory of the share becomes a plain file after the scan: matches below it cannot be looked at, the rest is still answered).'
