"""C15 - user tracking on the server mirrors the set of reasons to track.

World: one real client ('alice') logged in to the scripted server.  The plan holds <= 8
``client.users.track_user`` / ``untrack_user`` calls over the flags {REQUESTED, FRIEND, TRANSFER}
on 1..2 users, issued at plan times or on triggers relative to the tracking worker's observable
steps (AddUser / RemoveUser arriving at the server, tracking-state events on the bus, the
client noticing the loss of the server connection) plus k = 0..4 loop iterations; the server's
behaviour per AddUser attempt (exists / not-exists / silent) and an optional loss of the server
connection.  The oracle is the reference model of DESIGN.md B.3 (models/tracking.py).

The client tracks its own name at login; 'alice' is ignored throughout.
"""
from __future__ import annotations

import asyncio
import contextvars
import copy

from aioslsk.events import ConnectionStateChangedEvent, UserTrackingStateChangedEvent
from aioslsk.network.connection import ConnectionState, ServerConnection
from aioslsk.protocol import messages as M
from aioslsk.user.model import TrackingFlag

from models import tracking as model
from sim.loop import NODE
from sim.world import World
from . import common

PROPERTY = 'C15'
INFO = {
    'level': 'exploration',
    'rule': ('plans = <=8 track_user/untrack_user calls over 3 flags on 1..2 users, at plan times or on triggers '
             '(AddUser/RemoveUser arrival at the server, tracking-state event on the bus, client-side CLOSING of '
             'the server connection, another call) + k=0..4 loop iterations (+ optional delay to reach the instants '
             'an attempt is given up / retried), as own task or inline in the observing callback; 50 % contain '
             '"untrack(last flag) -> track" with the track on a trigger; server behaviour per attempt exists 60 / '
             'not-exists 15 / silent 25; server loss (FIN / RST from the server / reset of both ends) in 20 % at a '
             'call, attempt or state event, half of those with a call 30 s after the loss; non-trivial = a call was '
             'issued on a trigger or while an attempt was in flight, or a retry was seen, or the loss fired; distinct '
             '= signature over the per-user merged sequence of (call op, flag, trigger kind, k, inline) and (frame '
             'kind, server behaviour) plus the loss position'),
    'real': common.REAL,
    'stub': common.STUB,
    'assumptions': [
        'scripted server decodes/encodes frames with aioslsk message classes (codec is trusted base)',
        'issue order of the calls = order in which the driver entered track_user/untrack_user (recorded at entry)',
        'an attempt without answer is concluded 10 s after it was sent; retry delays 10 s / 600 s (user/manager.py '
        'constants, USAGE.rst names no figures); retries are judged by timing-robust clauses (not earlier than the '
        'delay, not later than delay + 15 s, only while a reason remains) with one link latency of tolerance',
        'calls issued in the virtual instant in which the client handles the loss of the server connection may '
        'count as before or after the loss; frames that could only arrive after the loss are optional',
        'calls after the loss start from the empty set; only their final flags (and "not TRACKED") are judged',
    ],
}

USERS = ('u1', 'u2')
FLAGS = ('REQUESTED', 'FRIEND', 'TRANSFER')
STATES = ('UNTRACKED', 'TRACKED', 'RETRY_PENDING')
LOSS_HOW = ('close', 'abort', 'reset')
BASE = 1.0
QUIET = 12.0
HORIZON = 1500.0
SIMPLE_NET = {'base_ms': 5, 'jitter_ms': 0, 'segmentation': 'whole', 'coalesce': True}


# ----------------------------------------------------------------------------- generator

def _behaviour(rng):
    r = rng.random()
    return 'exists' if r < 0.60 else 'notexists' if r < 0.75 else 'silent'


def _step(rng, slow):
    r = rng.random()
    if slow and r < 0.15:
        return rng.choice([300.0, 599.0, 600.0, 601.0, 650.0])
    return rng.choice([0.0, 0.0, 0.0, 0.001, 0.2, 1.0, 3.0, 9.99, 10.0, 10.01, 12.0, 19.99, 20.0, 20.02, 25.0])


def _trigger(rng, users, prev_id, with_loss):
    r = rng.random()
    user = rng.choice(users)
    if prev_id is not None and rng.random() < 0.12:
        # right behind the previous call (same task step when inline)
        on = {'ev': 'call', 'id': prev_id, 'k': rng.randint(0, 2)}
        if rng.random() < 0.5:
            on['inline'] = True
        return on
    if with_loss and r < 0.25:
        on = {'ev': 'closing'}
    elif r < 0.55:
        on = {'ev': 'state', 'user': user, 'state': rng.choice(('UNTRACKED', 'UNTRACKED', 'TRACKED', 'RETRY_PENDING'))}
    elif r < 0.8:
        on = {'ev': 'add', 'user': user}
    else:
        on = {'ev': 'remove', 'user': user}
    on['k'] = rng.randint(0, 4)
    if rng.random() < 0.15:
        on['nth'] = 2
    if prev_id is not None and rng.random() < 0.5:
        on['after'] = prev_id
    if rng.random() < 0.15:
        on['delay'] = rng.choice([9.999, 10.0, 10.001, 20.0, 600.0])
    if rng.random() < 0.15:
        on['inline'] = True
    return on


def generate(rng, index, tier):
    if rng.random() < 0.7:
        net = {'base_ms': rng.choice([1, 5, 20]), 'jitter_ms': 0, 'segmentation': 'whole', 'coalesce': True}
    else:
        net = common.draw_net(rng)
    users = list(USERS[:1] if rng.random() < 0.6 else USERS)
    scripts = {u: [_behaviour(rng) for _ in range(rng.randint(0, 5))] for u in users}
    slow = any('notexists' in s for s in scripts.values())
    with_loss = rng.random() < 0.2
    pattern = rng.random() < 0.5
    total = rng.randint(2 if pattern else 1, 8)

    calls = []
    fold = model.FlagFold()      # approximation over the timed calls (generation only)
    now = 0.0

    def add(user, op, flag, at=None, on=None):
        c = {'id': len(calls), 'user': user, 'op': op, 'flag': flag}
        if on is not None:
            c['on'] = on
        else:
            c['at'] = round(at, 4)
            fold.call(user, op, flag)
        calls.append(c)
        return c

    def random_call():
        nonlocal now
        user = rng.choice(users)
        op = 'track' if rng.random() < 0.6 else 'untrack'
        flag = rng.choice(FLAGS)
        if calls and rng.random() < 0.3:
            add(user, op, flag, on=_trigger(rng, users, calls[-1]['id'], with_loss))
        else:
            now += _step(rng, slow) if calls else rng.choice([0.0, 0.5])
            add(user, op, flag, at=now)

    if pattern:
        # "... untrack(last remaining flag) -> track", the track on a trigger; <= 4 + 3 + 1 calls
        user = rng.choice(users)
        prefix = rng.randint(0, min(4, max(total - 3, 0)))
        for _ in range(prefix):
            random_call()
        held = sorted(fold.get(user))
        rng.shuffle(held)
        if not held:
            f = rng.choice(FLAGS)
            now += _step(rng, slow) if calls else 0.0
            add(user, 'track', f, at=now)
            held = [f]
        for f in held:
            now += rng.choice([0.0, 0.001, 0.5, 2.0, 5.0, 12.0, 25.0])
            last = add(user, 'untrack', f, at=now)
        on = {'ev': 'state', 'user': user, 'state': 'UNTRACKED'} if rng.random() < 0.7 else {'ev': 'remove', 'user': user}
        on['after'] = last['id']
        on['k'] = rng.randint(0, 4)
        if rng.random() < 0.15:
            on['inline'] = True
        add(user, 'track', rng.choice(FLAGS), on=on)
    while len(calls) < total:
        random_call()
    calls = calls[:8]

    loss = None
    if with_loss:
        how = rng.choice(LOSS_HOW)
        r = rng.random()
        target = rng.choice(calls)
        if r < 0.35:
            base_t = target.get('at', now)
            loss = {'how': how, 'at': round(base_t + rng.choice([0.0, 0.001, 0.004, 0.5, 5.0, 11.0]), 4)}
        elif r < 0.7:
            loss = {'how': how, 'on': {'ev': 'call', 'id': target['id'], 'k': rng.randint(0, 4)}}
            if rng.random() < 0.4:
                # the instants an attempt sent by this call is given up / retried
                loss['on']['delay'] = rng.choice([10.0, 10.0, 20.0, 30.0])
        elif r < 0.85:
            loss = {'how': how, 'on': {'ev': rng.choice(('add', 'add', 'remove')), 'user': rng.choice(users),
                                       'nth': rng.randint(1, 3), 'k': rng.randint(0, 4)}}
        else:
            on = {'ev': 'state', 'user': rng.choice(users), 'state': rng.choice(STATES), 'nth': rng.randint(1, 2),
                  'k': rng.randint(0, 4)}
            if on['state'] == 'RETRY_PENDING' and rng.random() < 0.6:
                on['delay'] = rng.choice([10.0, 10.0, 600.0, 5.0])
            loss = {'how': how, 'on': on}
        if rng.random() < 0.5:
            # a call long after the loss: nothing of the old session may swallow it
            probe = {'id': len(calls), 'user': rng.choice(users), 'op': 'track', 'flag': rng.choice(FLAGS),
                     'on': {'ev': 'closing', 'delay': 30.0}}
            if len(calls) >= 8:
                probe['id'] = calls[-1]['id']
                calls[-1] = probe
            else:
                calls.append(probe)
    plan = {'seed': rng.getrandbits(32), 'net': net, 'users': users, 'calls': calls, 'scripts': scripts,
            'loss': loss, 'horizon': HORIZON}
    if rng.random() < 0.25:
        # peer connections that come and go meanwhile (their state changes travel over the same event bus)
        plan['peer_conns'] = [{'at': round(rng.uniform(0.0, max(now, 1.0) + 5.0), 2), 'hold': rng.choice([0.0, 0.5, 3.0])}
                              for _ in range(rng.randint(1, 3))]
    return plan


def _plan(calls, scripts=None, loss=None, net=None, users=('u1',)):
    calls = [dict(c, id=i) if 'id' not in c else dict(c) for i, c in enumerate(calls)]
    return {'seed': 7, 'net': dict(net or SIMPLE_NET), 'users': list(users), 'calls': calls,
            'scripts': {u: list((scripts or {}).get(u, [])) for u in users}, 'loss': loss, 'horizon': HORIZON}


def _c(user, op, flag, at=None, on=None):
    c = {'user': user, 'op': op, 'flag': flag}
    if on:
        c['on'] = dict(on)
    else:
        c['at'] = at
    return c


PATTERN_KS = (0, 1, 2, 3, 4)


def corpus(tier):
    out = []
    T, U = 'track', 'untrack'
    R, F, X = FLAGS
    # 1. one plan per clause
    out.append(_plan([_c('u1', T, R, 0.0)]))
    out.append(_plan([_c('u1', T, R, 0.0), _c('u1', U, R, 2.0)]))
    out.append(_plan([_c('u1', T, R, 0.0), _c('u1', T, F, 1.0), _c('u1', U, R, 2.0), _c('u1', U, F, 3.0)]))
    out.append(_plan([_c('u1', U, R, 0.0), _c('u1', T, R, 1.0), _c('u1', T, R, 2.0), _c('u1', U, F, 3.0)]))
    out.append(_plan([_c('u1', T, R, 0.0), _c('u1', U, R, 0.0), _c('u1', T, F, 0.0), _c('u2', T, X, 0.0)],
                     users=USERS))
    # peer connections come and go while users are tracked, confirmed and waiting for a retry
    out.append(dict(_plan([_c('u1', T, R, 0.0), _c('u1', U, R, 8.0)]), peer_conns=[{'at': 2.0, 'hold': 0.5}]))
    out.append(dict(_plan([_c('u1', T, R, 0.0), _c('u1', T, F, 5.0)], {'u1': ['silent']}),
                    peer_conns=[{'at': 3.0, 'hold': 0.0}, {'at': 6.0, 'hold': 3.0}]))
    out.append(_plan([_c('u1', T, R, 0.0)], {'u1': ['silent']}))
    out.append(_plan([_c('u1', T, R, 0.0)], {'u1': ['notexists']}))
    out.append(_plan([_c('u1', T, R, 0.0)], {'u1': ['silent', 'notexists', 'silent', 'exists']}))
    out.append(_plan([_c('u1', T, R, 0.0), _c('u1', U, R, 15.0)], {'u1': ['silent']}))
    out.append(_plan([_c('u1', T, R, 0.0), _c('u1', U, R, 5.0)], {'u1': ['silent']}))
    out.append(_plan([_c('u1', T, R, 0.0), _c('u1', U, R, 300.0)], {'u1': ['notexists']}))
    out.append(_plan([_c('u1', T, R, 0.0), _c('u1', U, R, 5.0), _c('u1', T, F, 6.0)], {'u1': ['silent', 'silent']}))
    # 1b. bursts in one instant: calls queued behind each other before the worker wakes up
    out.append(_plan([_c('u1', T, R, 0.0), _c('u1', U, R, 2.0), _c('u1', T, F, 2.0)]))
    out.append(_plan([_c('u1', T, R, 0.0), _c('u1', U, R, 2.0), _c('u1', U, R, 2.0)]))
    out.append(_plan([_c('u1', T, R, 0.0), _c('u1', T, F, 0.0), _c('u1', U, R, 2.0), _c('u1', U, F, 2.0),
                      _c('u1', U, X, 2.0), _c('u1', U, R, 2.0)]))
    out.append(_plan([_c('u1', T, R, 0.0), _c('u1', U, R, 0.0), _c('u1', T, R, 0.0), _c('u1', U, R, 0.0),
                      _c('u1', T, F, 0.0), _c('u1', U, F, 5.0), _c('u1', U, F, 5.0), _c('u1', T, X, 5.0)],
                     {'u1': ['silent', 'exists', 'notexists']}))
    # 2. the pattern "untrack(last flag) -> track", second call on a trigger, k swept (complete)
    for inline in (False, True):
        for k in PATTERN_KS:
            for ev in ({'ev': 'state', 'state': 'UNTRACKED'}, {'ev': 'remove'}):
                trig = dict(ev, user='u1', after=1, k=k)
                if inline:
                    trig['inline'] = True
                out.append(_plan([_c('u1', T, R, 0.0), _c('u1', U, R, 2.0), _c('u1', T, F, on=trig)]))
            trig = {'ev': 'state', 'state': 'UNTRACKED', 'user': 'u1', 'after': 3, 'k': k}
            if inline:
                trig['inline'] = True
            # two reasons removed one by one; worker in RETRY_PENDING before; unknown user before
            out.append(_plan([_c('u1', T, R, 0.0), _c('u1', T, F, 0.5), _c('u1', U, F, 1.0), _c('u1', U, R, 2.0),
                              _c('u1', T, X, on=trig)]))
            trig2 = dict(trig, after=1)
            out.append(_plan([_c('u1', T, R, 0.0), _c('u1', U, R, 15.0), _c('u1', T, F, on=trig2)],
                             {'u1': ['silent']}))
            out.append(_plan([_c('u1', T, R, 0.0), _c('u1', U, R, 5.0), _c('u1', T, F, on=trig2)],
                             {'u1': ['silent', 'silent']}))
            out.append(_plan([_c('u1', T, R, 0.0), _c('u1', U, R, 3.0), _c('u1', T, F, on=trig2)],
                             {'u1': ['notexists']}))
    # 3. calls around the retry instants (the k-th iteration of the instant the retry is due)
    for delay in (9.999, 10.0, 10.001):
        for k in (0, 1, 2, 3):
            trig = {'ev': 'state', 'state': 'RETRY_PENDING', 'user': 'u1', 'delay': delay, 'k': k}
            out.append(_plan([_c('u1', T, R, 0.0), _c('u1', U, R, on=trig)], {'u1': ['silent']}))
            out.append(_plan([_c('u1', T, R, 0.0), _c('u1', U, R, on=trig), _c('u1', T, F, on=trig)],
                             {'u1': ['silent', 'exists']}))
            for b2 in ('exists', 'silent'):
                # untrack + track from one callback in the instant the retry is due
                t1 = dict(trig, inline=True)
                out.append(_plan([_c('u1', T, R, 0.0), _c('u1', U, R, on=t1),
                                  _c('u1', T, F, on={'ev': 'call', 'id': 1, 'k': 0, 'inline': True})],
                                 {'u1': ['silent', b2]}))
    # 4. server loss: while tracked, while a retry is pending, with calls in the instant the client notices
    for how in LOSS_HOW:
        out.append(_plan([_c('u1', T, R, 0.0)], loss={'how': how, 'at': 5.0}))
        out.append(_plan([_c('u1', T, R, 0.0)], {'u1': ['silent']}, loss={'how': how, 'at': 15.0}))
        out.append(_plan([_c('u1', T, R, 0.0)], {'u1': ['notexists']}, loss={'how': how, 'at': 15.0}))
        out.append(_plan([_c('u1', T, R, 0.0)], loss={'how': how, 'on': {'ev': 'add', 'user': 'u1', 'k': 0}}))
        out.append(_plan([_c('u1', T, R, 0.0), _c('u1', T, F, 30.0), _c('u1', U, F, 31.0), _c('u1', U, R, 31.0)],
                         loss={'how': how, 'at': 5.0}))
        for k in PATTERN_KS:
            closing = {'ev': 'closing', 'k': k}
            out.append(_plan([_c('u1', T, R, 0.0), _c('u1', U, R, on=closing), _c('u1', T, F, on=closing)],
                             {'u1': ['silent']}, loss={'how': how, 'at': 15.0}))
            out.append(_plan([_c('u1', T, R, 0.0), _c('u2', T, F, on=closing)], users=USERS,
                             loss={'how': how, 'at': 5.0}))
            out.append(_plan([_c('u1', T, R, 0.0), _c('u1', U, R, 15.0)], {'u1': ['silent']},
                             loss={'how': how, 'on': {'ev': 'call', 'id': 1, 'k': k}}))
    # 5. the link dies (both ends at once) k iterations around a frame the worker is sending: at a retry,
    #    at an untrack, at a first track; a call long after the loss must still count
    late = {'ev': 'closing', 'delay': 30.0}
    for k in range(0, 7):
        out.append(_plan([_c('u1', T, R, 0.0)], {'u1': ['silent']},
                         loss={'how': 'reset', 'on': {'ev': 'state', 'user': 'u1', 'state': 'RETRY_PENDING',
                                                      'delay': 10.0, 'k': k}}))
        out.append(_plan([_c('u1', T, R, 0.0), _c('u1', U, R, 15.0), _c('u1', T, F, on=late)], {'u1': ['silent']},
                         loss={'how': 'reset', 'on': {'ev': 'call', 'id': 1, 'k': k}}))
        out.append(_plan([_c('u1', T, R, 5.0), _c('u1', T, F, on=late)],
                         loss={'how': 'reset', 'on': {'ev': 'call', 'id': 0, 'k': k}}))
    # 6. the link dies in the instant an unanswered attempt is given up, with calls queued behind that attempt
    #    (issued 5 s before the loss: they belong to the old session and must be dropped with it)
    for k in range(0, 7):
        for queued in ([_c('u1', U, R, 5.0), _c('u1', T, F, 5.0)], [_c('u1', U, R, 5.0)],
                       [_c('u1', U, R, 5.0), _c('u1', T, R, 5.0), _c('u1', U, R, 6.0), _c('u1', T, F, 7.0)]):
            out.append(_plan([_c('u1', T, R, 0.0)] + queued, {'u1': ['silent']},
                             loss={'how': 'reset', 'on': {'ev': 'call', 'id': 0, 'delay': 10.0, 'k': k}}))
    return out


SHRINK_LISTS = ('calls', 'scripts')


def simplify(plan):
    if plan.get('loss') is not None:
        p = copy.deepcopy(plan)
        p['loss'] = None
        yield p
    if plan.get('net') != SIMPLE_NET:
        p = copy.deepcopy(plan)
        p['net'] = dict(SIMPLE_NET)
        yield p
    if len(plan.get('users') or USERS) > 1:
        for u in (plan.get('users') or USERS):
            p = copy.deepcopy(plan)
            p['users'] = [u]
            p['calls'] = [c for c in p['calls'] if c['user'] == u]
            yield p
    for u, s in (plan.get('scripts') or {}).items():
        for i, b in enumerate(s):
            if b != 'exists':
                p = copy.deepcopy(plan)
                p['scripts'][u][i] = 'exists'
                yield p
    items = [('calls', i) for i in range(len(plan.get('calls', [])))]
    if plan.get('loss') is not None:
        items.append(('loss', None))
    for key, i in items:
        cur = plan[key][i] if i is not None else plan[key]
        on = cur.get('on')
        if not on:
            continue
        for field, val in (('delay', None), ('inline', None), ('nth', None), ('k', 0), ('after', None)):
            if field in on and on[field] != val:
                p = copy.deepcopy(plan)
                tgt = (p[key][i] if i is not None else p[key])['on']
                if val is None:
                    tgt.pop(field)
                else:
                    tgt[field] = val
                yield p
        if on.get('k', 0) > 1:
            p = copy.deepcopy(plan)
            (p[key][i] if i is not None else p[key])['on']['k'] = on['k'] - 1
            yield p
    for i, c in enumerate(plan.get('calls', [])):
        if 'at' in c and c['at'] != float(int(c['at'])):
            p = copy.deepcopy(plan)
            p['calls'][i]['at'] = float(int(c['at']))
            yield p


def enumerated_axes(tier):
    ks = len(PATTERN_KS)
    return {
        'pattern_plus_iter': {'size': ks * 2, 'exhaustive': True,
                              'what': 'k = 0..4 loop iterations between the UNTRACKED event / RemoveUser arrival and '
                                      'the track call of "untrack(last flag) -> track", as own task and inline, for 5 '
                                      'worker pre-states (plain, two reasons, retry pending, attempt in flight, '
                                      'unknown user)'},
        'closing_plus_iter': {'size': ks * len(LOSS_HOW), 'exhaustive': True,
                              'what': 'k = 0..4 loop iterations between the client-side CLOSING of the server '
                                      'connection and calls issued in that instant, per loss kind'},
        'retry_instant': {'size': 3 * 4, 'exhaustive': True,
                          'what': 'untrack / untrack+track issued 1 ms before, in (iteration 0..3 of) and 1 ms after '
                                  'the instant a retry is due'},
        'link_reset_at_send': {'size': 7, 'exhaustive': True,
                               'what': 'reset of both ends k = 0..6 iterations around a frame the worker sends (first '
                                       'track, untrack, retry) and around the instant an unanswered attempt is given '
                                       'up with calls queued behind it'},
    }


# ----------------------------------------------------------------------------- run

def _break_wait_cycles(world: World) -> int:
    """Teardown workaround (after the verdict): two library tasks that wait for each other through
    ``asyncio.gather`` cannot be cancelled - ``Task.cancel`` recurses without end - and World.close()
    cancels every pending task.  Complete the gather future of such a pair by hand and let it unwind."""
    broke = 0
    for task in world.loop.pending_tasks():
        waiter = getattr(task, '_fut_waiter', None)
        kids = getattr(waiter, '_children', None)
        if not kids or waiter.done():
            continue
        for kid in kids:
            kid_kids = getattr(getattr(kid, '_fut_waiter', None), '_children', None)
            if kid_kids and any(k is task for k in kid_kids) and not waiter.done():
                waiter.set_result([])
                broke += 1
    if broke:
        async def settle():
            for _ in range(50):
                await asyncio.sleep(0)
        try:
            world.run(settle())
        except Exception:  # pragma: no cover
            pass
    return broke


def run(plan):
    world = World(plan, PROPERTY)
    try:
        res = _run(world, plan)
        _break_wait_cycles(world)
    finally:
        try:
            world.close()
        except RecursionError:  # pragma: no cover - see _break_wait_cycles
            pass
    return res


def _flag_names(flags) -> list:
    return sorted(f.name for f in TrackingFlag if f in flags)


def _run(world: World, plan):
    loop = world.loop
    server = world.add_server()
    users = [u for u in (plan.get('users') or USERS)]
    scripts = {u: list((plan.get('scripts') or {}).get(u, [])) for u in users}
    for u in users:
        server.add_user_script[u] = list(scripts[u])
    alice = world.add_client('alice')
    client = alice.client
    bob = world.add_peer('bob') if plan.get('peer_conns') else None
    peer_tasks = []
    calls = [c for c in plan.get('calls', []) if c.get('user') in users]
    loss_plan = plan.get('loss')
    horizon = float(plan.get('horizon', HORIZON))

    net = plan.get('net') or {}
    lat_min = net.get('base_ms', 5.0) / 1000.0
    lat_max = lat_min + net.get('jitter_ms', 0.0) / 1000.0

    counter = [0]                 # global order of recorded observations

    def tick():
        counter[0] += 1
        return counter[0]

    issue_log = []                # calls in issue order
    issued_ids = set()
    frames = {u: [] for u in users}
    attempts = {u: 0 for u in users}
    state_events = {u: [] for u in users}
    loss = {}                     # filled when the loss fires
    fold = model.FlagFold()       # for the run length only
    pending_fires = []            # virtual instants of delayed trigger firings still to come
    stats = {'triggered': 0, 'inline': 0, 'never_fired': 0, 'last_issue': 0.0}

    # ------------------------------------------------------------------ scheduling helpers
    def alice_ctx():
        ctx = contextvars.copy_context()
        ctx.run(NODE.set, alice.host)
        return ctx

    def after_hops(k, fn):
        if k <= 0:
            alice_ctx().run(fn)
        else:
            loop.call_soon(after_hops, k - 1, fn, context=alice_ctx())

    waiting = []                  # armed/unarmed triggers: dicts

    def key_of(on):
        ev = on.get('ev')
        if ev in ('add', 'remove'):
            return (ev, on.get('user'))
        if ev == 'state':
            return ('state', on.get('user'), on.get('state'))
        if ev == 'call':
            return ('call', on.get('id'))
        return (ev,)

    def register(on, fire):
        after = on.get('after')
        waiting.append({'key': key_of(on), 'on': on, 'fire': fire, 'seen': 0,
                        'armed': after is None or after in issued_ids or not any(c['id'] == after for c in calls)})

    def notify(key):
        due = []
        for w in waiting:
            if w['armed'] and w['key'] == key:
                w['seen'] += 1
                if w['seen'] >= int(w['on'].get('nth', 1)):
                    due.append(w)
        for w in due:
            waiting.remove(w)
            k = int(w['on'].get('k', 0))
            delay = float(w['on'].get('delay', 0.0) or 0.0)
            if delay > 0:
                when = loop.time() + delay
                pending_fires.append(when)

                def later(w=w, k=k, when=when):
                    pending_fires.remove(when)
                    after_hops(k, w['fire'])
                loop.call_at(when, later, context=alice_ctx())
            else:
                after_hops(k, w['fire'])

    def arm(call_id):
        for w in waiting:
            if not w['armed'] and w['on'].get('after') == call_id:
                w['armed'] = True

    # ------------------------------------------------------------------ the calls
    def issue(c, how='at'):
        if c['id'] in issued_ids:
            return
        issued_ids.add(c['id'])
        stats['last_issue'] = loop.time()
        fn = client.users.track_user if c['op'] == 'track' else client.users.untrack_user
        flag = TrackingFlag[c['flag']]
        inline = bool(c.get('on', {}).get('inline')) and how != 'at'

        async def do():
            rec = {'id': c['id'], 'user': c['user'], 'op': c['op'], 'flag': c['flag'], 't': loop.time(),
                   'iter': loop.iterations, 'ord': tick(), 'how': how, 'k': c.get('on', {}).get('k'),
                   'inline': inline, 'seq': len(issue_log)}
            issue_log.append(rec)
            world.trace('issue', c['id'], c['user'], c['op'], c['flag'])
            fold.call(c['user'], c['op'], c['flag'])
            arm(c['id'])
            await fn(c['user'], flag)
            notify(('call', c['id']))

        if how != 'at':
            stats['triggered'] += 1
        if inline:
            stats['inline'] += 1
            coro = do()
            try:
                coro.send(None)
            except StopIteration:
                pass
            else:   # pragma: no cover - track_user/untrack_user have no suspension point
                coro.close()
                raise RuntimeError('harness: inline track/untrack call suspended')
        else:
            world.call(alice, f"c{c['id']}", do)

    # ------------------------------------------------------------------ the loss
    def do_loss():
        if loss:
            return
        session = server.session_of('alice')
        if session is None or session.closed:
            return
        how = loss_plan.get('how', 'close')
        loss.update({'how': how, 'server': loop.time(), 'iter': loop.iterations, 'ord': tick(),
                     'client_lo': None, 'client_hi': None})
        world.trace('loss', how)
        if how == 'abort':
            world.net.fired['server_rst'] += 1
            session.abort()
        elif how == 'reset':
            for conn in world.net.conns:
                if conn.src is alice.host and conn.dst is server.host and conn.is_open():
                    conn.reset('link_reset')
        else:
            world.net.fired['server_eof'] += 1
            session.close()

    # ------------------------------------------------------------------ observation
    def on_server_frame(session, message):
        if session.username != 'alice':
            return
        if isinstance(message, M.AddUser.Request):
            kind = 'Add'
        elif isinstance(message, M.RemoveUser.Request):
            kind = 'Remove'
        else:
            return
        user = message.username
        if user not in frames:
            return
        behaviour = None
        if kind == 'Add':
            i = attempts[user]
            attempts[user] += 1
            behaviour = scripts[user][i] if i < len(scripts[user]) else server.add_user_default
        frames[user].append({'t': loop.time(), 'kind': kind, 'behaviour': behaviour, 'ord': tick()})
        world.trace('frame', user, kind, behaviour)
        notify(('add' if kind == 'Add' else 'remove', user))

    server.observers.append(on_server_frame)

    def on_event(event):
        if isinstance(event, UserTrackingStateChangedEvent):
            user = event.user.name
            if user in state_events:
                state_events[user].append((loop.time(), event.state.name, loop.iterations))
                notify(('state', user, event.state.name))
        elif isinstance(event, ConnectionStateChangedEvent) and isinstance(event.connection, ServerConnection):
            if event.state == ConnectionState.CLOSING:
                if loss and loss['client_lo'] is None:
                    loss['client_lo'] = loop.time()
                notify(('closing',))
            elif event.state == ConnectionState.CLOSED:
                if loss and loss['client_lo'] is not None and loss['client_hi'] is None:
                    loss['client_hi'] = loop.time()
                    fold.reset()
                notify(('closed',))

    alice.recorder.hooks.append(on_event)

    # ------------------------------------------------------------------ driver
    async def sleep_until(when):
        if when <= loop.time():
            return
        fut = loop.create_future()
        loop.call_at(when, lambda: fut.done() or fut.set_result(None))
        await fut

    t0 = [None]

    def run_deadline():
        last = max(t0[0], stats['last_issue'])
        for u in users:
            if frames[u]:
                last = max(last, frames[u][-1]['t'])
        if loss:
            last = max(last, loss['server'])
        deadline = last + QUIET
        for when in pending_fires:
            deadline = max(deadline, when + QUIET)
        for u in users:
            adds = [f for f in frames[u] if f['kind'] == 'Add']
            if not adds or adds[-1]['behaviour'] not in model.FAILED:
                continue
            if frames[u][-1]['kind'] != 'Add':
                continue
            a = adds[-1]
            if loss:
                # long enough to see that the pending retry does not fire
                deadline = max(deadline, a['t'] + model.retry_delay(a['behaviour']) + model.RETRY_SLACK + 1.0)
            elif fold.get(u):
                deadline = max(deadline, a['t'] + model.retry_delay(a['behaviour']) + model.RETRY_SLACK + 1.0)
        if loss:
            deadline = max(deadline, loss['server'] + 2 * (model.WAIT_ANSWER + model.RETRY_SILENT) + 2.0)
            # without a connection no frame shows the worker's progress: every call issued since the loss
            # may cost one unanswered attempt (10 s) before the next queued call is looked at
            n_post = len([r for r in issue_log if r['t'] >= loss['server'] - model.EPS])
            deadline = max(deadline, stats['last_issue'] + (model.WAIT_ANSWER + 1.0) * (n_post + 1))
        return deadline

    async def main():
        await world.start_client(alice)
        await asyncio.sleep(BASE)
        t0[0] = loop.time()
        timed = []
        for pos, c in enumerate(calls):
            if c.get('on'):
                register(c['on'], lambda c=c: issue(c, c['on'].get('ev', 'on')))
            else:
                timed.append((float(c.get('at', 0.0)), 0, pos, c))
        if loss_plan:
            if loss_plan.get('on'):
                register(loss_plan['on'], do_loss)
            else:
                timed.append((float(loss_plan.get('at', 0.0)), 1, 0, None))
        for i, pc in enumerate(plan.get('peer_conns') or []):
            async def come_and_go(i=i, pc=pc):
                await sleep_until(t0[0] + float(pc.get('at', 0.0)))
                link = await bob.connect_direct(alice.host.ip, 60000, 'P', ticket=9000 + i)
                world.net.fired['peer_connection_opened_and_closed'] += 1
                await asyncio.sleep(float(pc.get('hold', 0.0)))
                link.close()
            peer_tasks.append(bob.spawn(come_and_go()))
        timed.sort(key=lambda x: x[:3])
        for (at, _, _, c) in timed:
            # a call needs time to take effect before the run is judged (attempt timeout 10 s + slack)
            if at > horizon - 40.0:
                break
            await sleep_until(t0[0] + at)
            if c is None:
                do_loss()
            else:
                issue(c)
        end = t0[0] + horizon
        while True:
            deadline = min(run_deadline(), end)
            if loop.time() >= deadline - 1e-9:
                break
            await sleep_until(deadline)

    world.run(main())

    # ------------------------------------------------------------------ oracle
    t_end = loop.time()
    loss_rec = None
    if loss:
        loss_rec = {'server': loss['server'], 'client_lo': loss['client_lo'], 'client_hi': loss['client_hi']}
        if loss['client_lo'] is None:
            world.probe('loss_not_noticed_by_client')
    stats['never_fired'] = len([w for w in waiting if w['fire'] is not do_loss])

    nontrivial = bool(stats['triggered']) or bool(loss)
    sig = []
    for ui, u in enumerate(users):
        ucalls = [r for r in issue_log if r['user'] == u]
        res = model.judge_user(
            ucalls, frames[u], loss=loss_rec, t_end=t_end, lat_min=lat_min, lat_max=lat_max,
            final_flags=_flag_names(client.users.get_tracking_flags(u)),
            final_state=client.users.get_tracking_state(u).name,
            events=[(t, s) for (t, s, _) in state_events[u]])
        for invariant, facts in res['violations']:
            if loss and invariant != 'C15.after_loss':
                facts = dict(facts, loss=True)
            elif invariant == 'C15.after_loss' and loop.exc_contexts:
                facts = dict(facts, loop_exc=loop.exc_contexts[0].get('exc_type'))
            world.violate(invariant, **facts)
        if res['retries']:
            nontrivial = True
            world.probe('retry_seen', res['retries'])
        if res['truncated']:
            world.probe('frames_cut_off_by_loss')
        # the pattern of interest: a triggered track right behind the untrack that emptied the set
        flags = frozenset()
        emptied = False
        for r in ucalls:
            if r['op'] == 'track' and r['how'] in ('state', 'remove') and emptied and not flags:
                world.probe('pattern_untrack_last_then_track')
                world.probe('pattern_k%s%s' % (r['k'], '_inline' if r['inline'] else ''))
            new_flags = model.apply(flags, r['op'], r['flag'])
            emptied = bool(flags) and not new_flags
            flags = new_flags
        # a call issued while an attempt was in flight
        for r in ucalls:
            for f in frames[u]:
                if f['kind'] == 'Add' and f['t'] - lat_max - model.EPS <= r['t'] <= model.worker_free_at(f, lat_max):
                    if r['t'] > f['t'] - lat_max + model.EPS or r['how'] != 'at':
                        nontrivial = True
                        world.probe('call_while_attempt_in_flight')
                    break
        merged = [(r['ord'], ('c', r['op'], FLAGS.index(r['flag']), r['how'], r['k'], r['inline'])) for r in ucalls]
        merged += [(f['ord'], ('f', f['kind'], f['behaviour'])) for f in frames[u]]
        if loss:
            merged.append((loss['ord'], ('loss', loss['how'])))
        merged.sort()
        sig.append([tok for (_, tok) in merged])
    for r in issue_log:
        if r['how'] == 'state' and r['k'] == 0 and not r['inline']:
            world.probe('call_task_created_in_state_event')
        if loss_rec and loss_rec['client_lo'] is not None and \
                loss_rec['client_lo'] - model.EPS <= r['t'] <= (loss_rec['client_hi'] or loss_rec['client_lo']) + model.EPS:
            world.probe('call_in_instant_of_loss')
    if stats['never_fired']:
        world.probe('trigger_never_fired', stats['never_fired'])
    for rec in loop.exc_contexts:
        world.probe('loop_exception_handler:' + str(rec.get('exc_type')))
    sig.sort(key=repr)
    return common.finish(world, nontrivial, [sig, bool(loss)])

INFO['rule'] += ' Round-5 additions: scripted peer connections open and close while users are tracked (peer_conns).'
