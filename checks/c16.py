"""C16 - session life cycle: login advertises settings, loss resets, stop is final.

World: one real client ('alice') against the scripted server, one scripted peer ('pp') where a
pending connect is wanted.  The plan is a settings draw plus one fault or ``stop()`` placed
before login, inside the post-login burst (by the index of the frame the server has just
received), while idle, or with background work pending (potential-parent connect, search, search
reply, download, peer connection, tracking retry); a loss may be followed by a ``stop()`` a drawn
delay later (the client is then waiting to reconnect / reconnecting / logged in again).

Oracle (properties.jsonl, id C16):
 (a) C16.burst       - frames at the server after a successful login + 2 s of silence == f(settings,
                       listeners actually open, shared tree)
 (b) C16.no_session  - ``client.execute`` without a session raises InvalidSessionError
 (c) C16.destroy_count / C16.reset - one SessionDestroyedEvent per SessionInitializedEvent on loss,
                       after which session/users/rooms/tracking/distributed parameters are empty
 (d) C16.reconnect_missing / C16.reconnect_spurious
 (e) C16.after_stop_open / C16.after_stop_connect / C16.after_stop_task
"""
from __future__ import annotations

import asyncio
import collections
import copy
import os

from aioslsk import commands as C
from aioslsk.events import (
    ConnectionStateChangedEvent, ScanCompleteEvent, SessionDestroyedEvent, SessionInitializedEvent)
from aioslsk.exceptions import InvalidSessionError
from aioslsk.network.connection import ServerConnection
from aioslsk.protocol import messages as M
from aioslsk.protocol.primitives import PotentialParent, UserStats
from aioslsk.user.model import TrackingState

from sim.net import Tap
from sim.world import World
from . import common

PROPERTY = 'C16'
INFO = {
    'level': 'exploration',
    'rule': ('plans = settings draw (0-2 listening ports incl. one that fails to bind, 0-3 friends with server '
             'behaviour exists/not-exists/silent, 0-2 liked/hated interests, 0-2 favourite rooms x auto_join, invites '
             'switch, reconnect on/off with timeout 1/3/10 s, 0-2 shared directories scanned at start) x login '
             'accepted/rejected/garbled/wrong message/EOF/RST/silence x ONE fault or stop(): server FIN, server RST, '
             'reset of both ends, reset + a send k=0..3 loop iterations later (write error), stalled server reader + '
             'large writes (write timeout), stalled link, requested disconnect_server(), or client.stop() - placed '
             'before login, after the i-th frame of the post-login burst reached the server (i enumerated in the '
             'corpus), while idle, or with a potential-parent connect (black-holed / slow / refused -> indirect), a '
             'search, a search reply, a download, an accepted peer connection or a tracking retry pending; 25 % of '
             'the losses are followed by stop() 0.2-12 s later; non-trivial = a fault or stop fired; distinct = '
             'signature over (settings shape, login mode, position, fault, stop delay, observed close reasons, '
             'reconnects)'),
    'real': common.REAL,
    'stub': common.STUB,
    'assumptions': [
        'scripted server decodes/encodes frames with aioslsk message classes (codec is trusted base)',
        'expected share counts are computed from the generated tree (directories holding >= 1 file, files), the '
        'index itself is C07\'s subject; expected ports are the listeners actually open on the simulated host',
        'CheckPrivileges, GetUserStats, AcceptChildren, Ping are not part of the statement and are not judged; '
        'AddUser for the own name (and for the peer of a pending download) is optional',
        'close reason ground truth comes from the injected fault, not from the client\'s report; a server FIN that '
        'is overtaken by the RST provoked by the client\'s own in-flight writes may be classified either way',
        'reset of server-derived state is read 0.5 s after the client reported CLOSED (earliest re-login is >= 1 s '
        'after CLOSED: watchdog poll + reconnect.timeout >= 1 s)',
        'reconnect deadline = reconnect.timeout + 40 s after the client reported CLOSED (watchdog poll 0.5 s + connect '
        'timeout 30 s + slack); "never reconnects" is observed for 5 x reconnect.timeout',
        'pending library tasks are read in the task step in which stop() returns; whether each is still pending '
        '300 s later is reported as a fact (lingering)',
    ],
}
INFO['rule'] += ' Later additions: 30 % of the reconnect cases keep the server unreachable (refused / black-holed) for the first 1-3 reconnect attempts.'

SIMPLE_NET = {'base_ms': 5, 'jitter_ms': 0, 'segmentation': 'whole', 'coalesce': True}
OWN = 'alice'
PEER = 'pp'
CLEAR_PORT, OBF_PORT = 60000, 60001
LOGIN_MODES = ('accept', 'reject', 'garbled', 'wrong_message', 'eof', 'rst', 'silence')
STATES = ('before_login', 'burst', 'steady')
LOSS_HOW = ('fin', 'rst', 'reset', 'reset_send', 'write_stall', 'stall', 'requested')
UNREQUESTED = ('rst', 'reset', 'reset_send', 'write_stall', 'stall')
PENDING = ('parent_blackhole', 'parent_slow', 'parent_refuse', 'search', 'search_reply', 'download', 'peer_conn')
FRIENDS = ('f1', 'f2', 'f3')
LIKED = ('jazz', 'dub')
HATED = ('pop', 'noise')
ROOMS = ('r1', 'r2')
SERVER_ROOMS = ('r1', 'r2', 'r3')
TREES = (['song.txt'], ['song.txt', 'sub/long.txt'], ['a/one.txt', 'a/two.txt', 'b/c/three.txt'], [])
BURST_MAX_INDEX = 24

SILENCE = 2.0
NOTICE_BOUND = 15.0
RECONNECT_SLACK = 40.0
AFTER_STOP = 300.0
EPS = 1e-9

JUDGED = {
    M.SetListenPort.Request: 'SetListenPort', M.SetStatus.Request: 'SetStatus',
    M.SharedFoldersFiles.Request: 'SharedFoldersFiles', M.AddUser.Request: 'AddUser',
    M.AddInterest.Request: 'AddInterest', M.AddHatedInterest.Request: 'AddHatedInterest',
    M.TogglePrivateRoomInvites.Request: 'TogglePrivateRoomInvites', M.JoinRoom.Request: 'JoinRoom',
    M.BranchLevel.Request: 'BranchLevel', M.BranchRoot.Request: 'BranchRoot',
    M.ToggleParentSearch.Request: 'ToggleParentSearch',
}


# ----------------------------------------------------------------------------- generator

def _subset(rng, pool, weights=(1, 1, 1)):
    n = rng.choices(range(len(weights)), weights)[0]
    n = min(n, len(pool))
    return sorted(rng.sample(list(pool), n))


def draw_settings(rng):
    ports = rng.choice(['both', 'both', 'both', 'clear', 'obf', 'none'])
    bind_fail = None
    if ports == 'both' and rng.random() < 0.2:
        bind_fail = rng.choice(['clear', 'obf'])
    nfriends = rng.choice([0, 1, 1, 2, 3])
    friends = []
    for name in FRIENDS[:nfriends]:
        r = rng.random()
        friends.append({'name': name, 'beh': 'exists' if r < 0.7 else 'notexists' if r < 0.85 else 'silent'})
    nshares = rng.choice([0, 1, 1, 2])
    return {
        'ports': ports, 'bind_fail': bind_fail, 'friends': friends,
        'liked': _subset(rng, LIKED), 'hated': _subset(rng, HATED),
        'favorites': _subset(rng, ROOMS, (1, 2, 2)), 'auto_join': rng.random() < 0.5,
        'invites': rng.random() < 0.5,
        'reconnect': rng.random() < 0.65, 'timeout': rng.choice([1, 3, 10]),
        'shares': [list(rng.choice(TREES)) for _ in range(nshares)],
    }


def _burst_len(settings):
    """Upper estimate of the number of frames the client sends on a fresh connection (Login included)."""
    return (13 + len(settings['friends']) + len(settings['favorites']) + len(settings['liked'])
            + len(settings['hated']))


def draw_action(rng, state, login):
    if login in ('eof', 'rst'):
        # the login itself is the loss
        return {'kind': rng.choice(['none', 'stop'])}
    r = rng.random()
    if r < 0.5:
        return {'kind': 'stop'}
    if r < 0.55:
        return {'kind': 'none'}
    how = rng.choice(LOSS_HOW[:3] * 3 + LOSS_HOW[3:5] * 2 + LOSS_HOW[5:6] + LOSS_HOW[6:] * 3)
    act = {'kind': 'loss', 'how': how}
    if how == 'reset_send':
        act['k'] = rng.randint(0, 3)
    return act


def generate(rng, index, tier):
    net = dict(SIMPLE_NET, base_ms=rng.choice([1, 5, 20])) if rng.random() < 0.6 else common.draw_net(rng)
    settings = draw_settings(rng)
    login = 'accept' if rng.random() < 0.65 else rng.choice(LOGIN_MODES[1:])
    if login == 'accept':
        state = rng.choice(['before_login', 'burst', 'burst', 'burst', 'steady', 'steady', 'steady'])
    else:
        state = rng.choice(['before_login', 'steady', 'steady'])
    plan = {
        'seed': rng.getrandbits(32), 'net': net, 'settings': settings, 'login': login, 'state': state,
        'index': rng.randint(0, min(BURST_MAX_INDEX, _burst_len(settings))) if state == 'burst' else 0,
        'trigger': rng.choice(['recv', 'write']) if state == 'burst' else 'recv',
        'delay': rng.choice([0.0, 0.0, 0.05, 0.3, 1.0, 5.0]),
        'pending': [], 'action': draw_action(rng, state, login), 'stop_after': None, 'server_omit': [],
    }
    if state == 'steady' and login == 'accept' and rng.random() < 0.6:
        plan['pending'] = sorted(set(rng.sample(PENDING, rng.choice([1, 1, 2]))))
    loss_like = plan['action']['kind'] == 'loss' or (login in ('eof', 'rst') and plan['action']['kind'] == 'none')
    if loss_like and rng.random() < 0.25:
        plan['stop_after'] = rng.choice([0.2, 0.6, 1.0, 1.6, 2.5, 3.6, 6.0, 12.0])
    if settings['shares'] and rng.random() < 0.4:
        # slower executor: the start-up scan ends after the login, share counts are reported a second time
        plan['exec'] = {'delay_ms': rng.choice([[5, 40], [20, 400]])}
    if loss_like and plan['stop_after'] is None and settings['reconnect'] and rng.random() < 0.1:
        plan['relogin'] = 'eof'
    elif loss_like and plan['stop_after'] is None and settings['reconnect'] and rng.random() < 0.3:
        plan['server_down'] = {'attempts': rng.choice([1, 1, 2, 3]), 'how': rng.choice(('refuse', 'refuse', 'blackhole'))}
    if rng.random() < 0.1:
        plan['server_omit'] = [rng.choice(['room_list', 'parent_min_speed', 'parent_speed_ratio', 'wishlist_interval'])]
    return plan


RICH = {
    'ports': 'both', 'bind_fail': None,
    'friends': [{'name': 'f1', 'beh': 'exists'}, {'name': 'f2', 'beh': 'notexists'}, {'name': 'f3', 'beh': 'silent'}],
    'liked': ['dub', 'jazz'], 'hated': ['noise', 'pop'], 'favorites': ['r1', 'r2'], 'auto_join': True,
    'invites': False, 'reconnect': True, 'timeout': 3,
    'shares': [['song.txt', 'sub/long.txt'], ['a/one.txt', 'a/two.txt', 'b/c/three.txt']],
}
PLAIN = {
    'ports': 'both', 'bind_fail': None, 'friends': [], 'liked': [], 'hated': [], 'favorites': [], 'auto_join': True,
    'invites': True, 'reconnect': False, 'timeout': 3, 'shares': [],
}


def _plan(settings, login='accept', state='steady', action=None, **kw):
    p = {'seed': 11, 'net': dict(SIMPLE_NET), 'settings': copy.deepcopy(settings), 'login': login, 'state': state,
         'index': 0, 'trigger': 'recv', 'delay': 0.3, 'pending': [], 'action': dict(action or {'kind': 'none'}), 'stop_after': None,
         'server_omit': []}
    p.update(kw)
    return p


CORPUS_ACTIONS = ([{'kind': 'stop'}] + [{'kind': 'loss', 'how': h} for h in LOSS_HOW if h != 'reset_send']
                  + [{'kind': 'loss', 'how': 'reset_send', 'k': k} for k in range(4)])
BURST_ACTIONS = [{'kind': 'stop'}, {'kind': 'loss', 'how': 'fin'}, {'kind': 'loss', 'how': 'rst'},
                 {'kind': 'loss', 'how': 'reset'}, {'kind': 'loss', 'how': 'requested'},
                 {'kind': 'loss', 'how': 'reset_send', 'k': 0}, {'kind': 'loss', 'how': 'reset_send', 'k': 2}]
STOP_AFTER = (0.2, 0.6, 1.0, 2.5, 3.4, 3.6, 4.5, 12.0)


def corpus(tier):
    out = []
    # 1. one settings dimension at a time, no fault: clause (a)
    out.append(_plan(PLAIN))
    out.append(_plan(RICH))
    for ports in ('clear', 'obf', 'none'):
        out.append(_plan(dict(PLAIN, ports=ports)))
    for bf in ('clear', 'obf'):
        out.append(_plan(dict(PLAIN, bind_fail=bf)))
    for auto in (True, False):
        for fav in ([], ['r1'], ['r1', 'r2']):
            out.append(_plan(dict(PLAIN, favorites=fav, auto_join=auto)))
    for inv in (True, False):
        out.append(_plan(dict(PLAIN, invites=inv)))
    for beh in ('exists', 'notexists', 'silent'):
        out.append(_plan(dict(PLAIN, friends=[{'name': 'f1', 'beh': beh}, {'name': 'f2', 'beh': 'exists'}])))
    out.append(_plan(dict(PLAIN, liked=['jazz'], hated=['pop', 'noise'])))
    for shares in ([['song.txt']], [['song.txt', 'sub/long.txt'], ['a/one.txt', 'a/two.txt', 'b/c/three.txt']], [[]]):
        out.append(_plan(dict(PLAIN, shares=shares)))
    # 2. login modes x (nothing, stop, loss) in both positions: clauses (b), (d), (e)
    for login in LOGIN_MODES:
        for rec in (True, False):
            s = dict(RICH, reconnect=rec, timeout=1)
            for state in ('before_login', 'steady'):
                out.append(_plan(s, login=login, state=state))
                out.append(_plan(s, login=login, state=state, action={'kind': 'stop'}))
            if login not in ('eof', 'rst'):
                for how in ('fin', 'rst', 'requested'):
                    out.append(_plan(s, login=login, state='steady', action={'kind': 'loss', 'how': how}))
    # 3. every fault / stop at every position with the rich settings (reconnect on and off)
    for rec in (True, False):
        s = dict(RICH, reconnect=rec, timeout=1)
        for act in CORPUS_ACTIONS:
            out.append(_plan(s, state='before_login', action=act))
            out.append(_plan(s, state='steady', action=act))
            for pend in PENDING:
                if act['kind'] == 'stop' or act.get('how') in ('fin', 'rst', 'requested'):
                    out.append(_plan(s, state='steady', action=act, pending=[pend], delay=1.0))
    # 4. the post-login burst, enumerated by the index of the frame the server has just received
    for trigger in ('recv', 'write'):
        for idx in range(0, BURST_MAX_INDEX + 1):
            for act in BURST_ACTIONS:
                out.append(_plan(dict(RICH, timeout=1), state='burst', index=idx, trigger=trigger, action=act))
    # 8. the re-login on the reconnected link is answered with an EOF
    for how in ('rst', 'reset'):
        for timeout in (1, 3):
            out.append(_plan(dict(RICH, timeout=timeout), state='steady', action={'kind': 'loss', 'how': how}, relogin='eof'))
    # 6. the server is unreachable for the first reconnect attempts after the loss, then back
    for how in ('rst', 'reset', 'write_stall'):
        for n, unreachable in ((1, 'refuse'), (3, 'refuse'), (1, 'blackhole')):
            for timeout in (1, 3):
                out.append(_plan(dict(RICH, timeout=timeout), state='steady', action={'kind': 'loss', 'how': how},
                                 server_down={'attempts': n, 'how': unreachable}))
    # 5. stop() after a loss: while the watchdog waits, while it reconnects, after the re-login
    for how in ('rst', 'fin', 'requested'):
        for d in STOP_AFTER:
            out.append(_plan(RICH, state='steady', action={'kind': 'loss', 'how': how}, stop_after=d))
    for d in STOP_AFTER:
        out.append(_plan(RICH, login='rst', state='steady', stop_after=d))
    return out


SHRINK_LISTS = ('settings', 'pending', 'server_omit')


def simplify(plan):
    def variant(**kw):
        p = copy.deepcopy(plan)
        p.update(kw)
        return p

    def svariant(**kw):
        p = copy.deepcopy(plan)
        p['settings'].update(kw)
        return p
    if plan.get('net') != SIMPLE_NET:
        yield variant(net=dict(SIMPLE_NET))
    if plan.get('stop_after') is not None:
        yield variant(stop_after=None)
    if plan.get('exec'):
        p = copy.deepcopy(plan)
        p.pop('exec')
        yield p
    if plan.get('login') != 'accept':
        yield variant(login='accept')
    if plan.get('state') != 'steady':
        yield variant(state='steady', index=0)
    if plan.get('delay'):
        yield variant(delay=0.0)
    act = plan.get('action') or {}
    if act.get('k'):
        yield variant(action=dict(act, k=0))
    if act.get('kind') == 'loss' and act.get('how') not in ('rst', 'fin'):
        yield variant(action={'kind': 'loss', 'how': 'rst'})
    s = plan['settings']
    for key, val in (('bind_fail', None), ('ports', 'both'), ('reconnect', False), ('auto_join', True),
                     ('invites', True), ('timeout', 1)):
        if s.get(key) != val:
            yield svariant(**{key: val})
    for i, f in enumerate(s.get('friends', [])):
        if f.get('beh') != 'exists':
            p = copy.deepcopy(plan)
            p['settings']['friends'][i]['beh'] = 'exists'
            yield p


def enumerated_axes(tier):
    return {
        'burst_frame_index': {'size': 2 * (BURST_MAX_INDEX + 1) * len(BURST_ACTIONS), 'exhaustive': True,
                              'what': 'stop / FIN / RST / reset / requested disconnect / reset+send fired when the i-th '
                                      'frame (i = 0 Login .. 24) of the post-login burst reached the server, and when the '
                                      'client handed its i-th frame to the socket; rich settings'},
        'position_x_fault': {'size': 2 * len(CORPUS_ACTIONS) * 2, 'exhaustive': True,
                             'what': 'every fault kind and stop() before login and while idle, reconnect on and off'},
        'login_mode': {'size': len(LOGIN_MODES) * 2 * 2, 'exhaustive': True,
                       'what': 'login accept/reject/garbled/wrong message/EOF/RST/silence x reconnect on/off x position, '
                               'alone, with stop(), and with FIN/RST/requested loss'},
        'stop_after_loss': {'size': len(STOP_AFTER) * 4, 'exhaustive': False,
                            'what': 'stop() 0.2..12 s after a loss (reconnect timeout 3 s): before, at and after the reconnect'},
    }


# ----------------------------------------------------------------------------- run

class LinkTap(Tap):
    """What reached alice's end of each of her connections to the server."""

    def __init__(self, world):
        self.world = world
        self.eof = {}        # conn id -> t (FIN delivered to alice)
        self.lost = {}       # conn id -> (t, exc type name or None) of alice's end
        self.on_client_write = None

    def on_write(self, conn, direction, data):
        if self.on_client_write is not None and conn.src.name == OWN and conn.dst.name == 'server' \
                and direction == 'c2s':
            self.on_client_write(conn)

    def on_eof(self, conn, direction):
        if conn.src.name == OWN and direction == 's2c':
            self.eof.setdefault(conn.id, self.world.loop.time())

    def on_lost(self, conn, side, exc):
        if conn.src.name == OWN and side == 'a':
            self.lost.setdefault(conn.id, (self.world.loop.time(), type(exc).__name__ if exc else None))


def run(plan):
    world = World(plan, PROPERTY)
    try:
        return _run(world, plan)
    finally:
        world.close()


def expected_shares(trees):
    folders = files = 0
    for tree in trees:
        folders += len({os.path.dirname(rel) for rel in tree})
        files += len(tree)
    return folders, files


def _run(world: World, plan):
    loop = world.loop
    s = plan['settings']
    login_mode = plan.get('login', 'accept')
    state = plan.get('state', 'steady')
    action = dict(plan.get('action') or {'kind': 'none'})
    pending = [p for p in plan.get('pending', []) if p in PENDING]
    stop_after = plan.get('stop_after')
    friends = [f['name'] for f in s.get('friends', [])]
    timeout = int(s.get('timeout', 3))
    reconnect_on = bool(s.get('reconnect'))
    net_cfg = plan.get('net') or {}
    lat_max = (net_cfg.get('base_ms', 5.0) + net_cfg.get('jitter_ms', 0.0)) / 1000.0

    # ------------------------------------------------------------------ world
    server = world.add_server({
        'burst_omit': list(plan.get('server_omit', [])),
        'room_list': {'rooms': list(SERVER_ROOMS), 'rooms_user_count': [3, 2, 1]},
    })
    for f in s.get('friends', []):
        if f['beh'] == 'notexists':
            server.users[f['name']] = {'exists': False}
        elif f['beh'] == 'silent':
            server.add_user_script[f['name']] = ['silent'] * 50
    logins_seen = [0]
    relogin_eof = {}
    accepted = set()
    login_loss = {}

    def login_behaviour(session, message):
        logins_seen[0] += 1
        if logins_seen[0] > 1 and plan.get('relogin') == 'eof':
            # the login on the reconnected link is answered with an EOF (banned / logged in elsewhere)
            world.net.fired['server_eof_on_relogin'] += 1
            relogin_eof.setdefault('at', loop.time())
            return 'eof'
        if logins_seen[0] > 1 or login_mode == 'accept':
            accepted.add(session.index)
            return 'accept'
        if login_mode in ('eof', 'rst'):
            login_loss.update({'how': 'fin' if login_mode == 'eof' else 'rst', 'at': loop.time(),
                               'conn': _conn_of(session), 'origin': 'login'})
            world.net.fired['server_eof' if login_mode == 'eof' else 'server_rst'] += 1
        return login_mode
    server.login_mode = login_behaviour

    def on_join_room(session, message):
        session.send(M.JoinRoom.Response(
            message.room, users=['w1', 'w2'], users_status=[2, 1],
            users_stats=[UserStats(1, 1, 1, 1), UserStats(2, 2, 2, 2)], users_slots_free=[1, 0],
            users_countries=['BE', 'NL']))
    server.handlers[M.JoinRoom.Request] = on_join_room

    peer = world.add_peer(PEER) if pending else None

    ports = s.get('ports', 'both')
    clear_port = CLEAR_PORT if ports in ('both', 'clear') else 0
    obf_port = OBF_PORT if ports in ('both', 'obf') else 0
    bind_fail = s.get('bind_fail') if ports == 'both' else None
    error_mode = 'any'
    if bind_fail:
        error_mode = 'all'
        world.net.bind_fail.add((OWN, CLEAR_PORT if bind_fail == 'clear' else OBF_PORT))

    trees = [list(t) for t in s.get('shares', [])]
    share_dirs = []
    for i, tree in enumerate(trees):
        root = world.sandbox.sub(OWN, 'shares', f'd{i}')
        for rel in tree:
            path = os.path.join(root, *rel.split('/'))
            os.makedirs(os.path.dirname(path), exist_ok=True)
            with open(path, 'wb') as fh:
                fh.write(b'x' * 16)
        share_dirs.append({'path': root})

    overrides = {
        'network': {
            'listening': {'port': clear_port, 'obfuscated_port': obf_port, 'error_mode': error_mode},
            'server': {'reconnect': {'auto': reconnect_on, 'timeout': timeout}},
        },
        'users': {'friends': sorted(friends)},
        'interests': {'liked': sorted(s.get('liked', [])), 'hated': sorted(s.get('hated', []))},
        'rooms': {'favorites': sorted(s.get('favorites', [])), 'auto_join': bool(s.get('auto_join')),
                  'private_room_invites': bool(s.get('invites'))},
        'shares': {'scan_on_start': True, 'directories': share_dirs},
    }
    if 'search' in pending:
        overrides['searches'] = {'send': {'request_timeout': 120}}
    alice = world.add_client(OWN, overrides=overrides)
    client = alice.client
    tap = LinkTap(world)
    world.net.taps.append(tap)

    down = dict(plan.get('server_down') or {})
    down.setdefault('left', down.get('attempts', 0))

    def connect_hook(attempt):
        if attempt['src'] == OWN and attempt['dst'] == 'server' and ctx['losses'] and down['left'] > 0:
            # the server stays unreachable for the first reconnect attempts after the loss
            down['left'] -= 1
            world.net.fired['server_unreachable_at_reconnect'] += 1
            return ('refuse', 0.02) if down.get('how', 'refuse') == 'refuse' else ('blackhole', None)
        if attempt['src'] != OWN or attempt['dst'] != PEER:
            return None
        if 'parent_slow' in pending:
            return ('slow', 3.0)
        if 'parent_refuse' in pending:
            return ('refuse', 0.02)
        return ('blackhole', None)
    world.net.connect_hook = connect_hook

    # ------------------------------------------------------------------ observation
    ctx = {
        'action_at': None, 'action_fired': False, 'stopped': False, 'stop_call': None, 'stop_return': None,
        'stop_snapshot': None, 'losses': [],
    }
    conn_events = []        # (t, state name, reason name) of the server connection, as reported by the client
    session_events = []     # (t, 'init'|'destroy', session object)
    scan_done = []          # instants at which a scan of the shared directories completed

    def on_event(event):
        if isinstance(event, ConnectionStateChangedEvent) and isinstance(event.connection, ServerConnection):
            conn_events.append((loop.time(), event.state.name, event.close_reason.name))
            world.trace('srvconn', event.state.name, event.close_reason.name)
        elif isinstance(event, SessionInitializedEvent):
            session_events.append((loop.time(), 'init', event.session))
        elif isinstance(event, SessionDestroyedEvent):
            session_events.append((loop.time(), 'destroy', event.session))
        elif isinstance(event, ScanCompleteEvent):
            scan_done.append(loop.time())
    alice.recorder.hooks.append(on_event)

    # Was the server link lost, or stop() called, while login() was still handing the
    # SessionInitializedEvent round its listeners?  (first listener = priority 0, recorder = last)
    init_window = {'open': False, 'hit': False}

    def first_listener(event):
        if isinstance(event, SessionInitializedEvent):
            init_window['open'] = True
        elif isinstance(event, ConnectionStateChangedEvent) and isinstance(event.connection, ServerConnection):
            if init_window['open'] and event.state.name in ('CLOSING', 'CLOSED'):
                init_window['hit'] = True

    def last_listener(event):
        if isinstance(event, SessionInitializedEvent):
            init_window['open'] = False
    world.keep_alive.extend([first_listener, last_listener])
    client.events.register(SessionInitializedEvent, first_listener, priority=0)
    client.events.register(ConnectionStateChangedEvent, first_listener, priority=0)
    client.events.register(SessionInitializedEvent, last_listener, priority=5000)

    def alice_sessions():
        return [x for x in server.sessions if x.ip == alice.host.ip]

    def alice_conns():
        return [c for c in world.net.conns if c.src is alice.host and c.dst is server.host]

    def _conn_of(session):
        peername = session.writer.get_extra_info('peername')
        for c in world.net.conns:
            if c.src is alice.host and c.dst is server.host and c.src_addr == peername:
                return c
        return None

    def link_up():
        cs = alice_conns()
        return bool(cs) and not cs[-1].a._closed and not cs[-1].reset_done

    burst_count = [0]

    def on_server_frame(session, message):
        if session.ip != alice.host.ip:
            return
        world.trace('frame', session.index, type(message).__qualname__ if not isinstance(message, tuple) else 'undecodable')
        if state == 'burst' and plan.get('trigger', 'recv') == 'recv' and not ctx['action_fired'] \
                and session is alice_sessions()[0]:
            idx = burst_count[0]
            burst_count[0] += 1
            if idx == int(plan.get('index', 0)):
                fire_action('burst')
    server.observers.append(on_server_frame)

    write_count = [0]

    def on_client_write(conn):
        # the client has just handed its i-th frame of the first connection to the socket (0 = Login)
        if state != 'burst' or plan.get('trigger') != 'write' or ctx['action_fired']:
            return
        if conn is not alice_conns()[0]:
            return
        idx = write_count[0]
        write_count[0] += 1
        if idx == int(plan.get('index', 0)):
            fire_action('burst_write')
    tap.on_client_write = on_client_write

    # ------------------------------------------------------------------ helpers
    async def sleep_until(when):
        if when <= loop.time():
            return
        fut = loop.create_future()
        loop.call_at(when, lambda: fut.done() or fut.set_result(None))
        await fut

    async def wait_call(call, bound):
        if call.task is not None and not call.task.done():
            await asyncio.wait({call.task}, timeout=bound)
        return call.done

    async def wait_for(pred, bound, step=0.05):
        if bound > 60.0:
            step = max(step, 1.0)
        end = loop.time() + bound
        while not pred():
            if loop.time() >= end - EPS:
                return False
            await sleep_until(min(end, loop.time() + step))
        return True

    def after_hops(k, fn):
        if k <= 0:
            fn()
        else:
            loop.call_soon(after_hops, k - 1, fn)

    def last_frame_at(session):
        return session.received[-1][0] if session.received else None

    async def settle(session, abort_on_action=False):
        """2 virtual seconds without a frame on this session; returns the cut-off (None if a fault fired first)."""
        t0 = loop.time()
        t_end = t0 + 60.0
        while loop.time() < t_end:
            if abort_on_action and ctx['action_fired']:
                return None
            last = last_frame_at(session) or t0
            if loop.time() >= last + SILENCE - EPS:
                return loop.time()
            await sleep_until(min(last + SILENCE, loop.time() + 0.25))
        return None

    current_session = [None]

    # ------------------------------------------------------------------ clause (a)
    want_folders, want_files = expected_shares(trees)

    def check_burst(session, cutoff, tag):
        frames = [m for (t, m) in session.received if t <= cutoff + EPS]
        by_kind = collections.defaultdict(list)
        for m in frames:
            kind = JUDGED.get(type(m))
            if kind is not None:
                by_kind[kind].append(m)
        open_ports = {port for (ip, port) in world.net.listeners if ip == alice.host.ip}
        want_clear = clear_port if clear_port in open_ports else 0
        want_obf = obf_port if obf_port in open_ports else 0

        def stateful(kind, want, got_of):
            msgs = by_kind.get(kind)
            if not msgs:
                world.violate('C16.burst', kind=kind, diff='missing', at=tag)
                return
            got = got_of(msgs[-1])
            if got != want:
                world.violate('C16.burst', kind=kind, diff='value', at=tag, want=want, got=got)

        stateful('SetListenPort', [want_clear, want_obf], lambda m: [m.port, m.obfuscated_port or 0])
        stateful('SetStatus', 2, lambda m: m.status)
        if scan_done and scan_done[0] <= cutoff - 2 * lat_max - EPS:
            stateful('SharedFoldersFiles', [want_folders, want_files],
                     lambda m: [m.shared_folder_count, m.shared_file_count])
        else:
            # the start-up scan is still running: the index is in flux, only the presence of a report is judged
            world.probe('burst_checked_before_scan_end')
            if not by_kind.get('SharedFoldersFiles'):
                world.violate('C16.burst', kind='SharedFoldersFiles', diff='missing', at=tag)
        stateful('TogglePrivateRoomInvites', bool(s.get('invites')), lambda m: bool(m.enable))
        stateful('BranchLevel', 0, lambda m: m.level)
        stateful('BranchRoot', OWN, lambda m: m.username)
        stateful('ToggleParentSearch', True, lambda m: bool(m.enable))

        def additive(kind, want_items, got_items, optional=(), **extra_facts):
            want = collections.Counter(want_items)
            got = collections.Counter(got_items)
            for item in sorted(set(want) | set(got)):
                w, g = want.get(item, 0), got.get(item, 0)
                if item in optional and g <= 1:
                    continue
                if g < w:
                    world.violate('C16.burst', kind=kind, diff='missing', at=tag, **extra_facts)
                elif g > w:
                    world.violate('C16.burst', kind=kind, diff='extra', at=tag,
                                  dup=bool(w) or (item in optional), **extra_facts)

        optional = {OWN}
        if 'download' in pending and ctx.get('pending_applied'):
            optional.add(PEER)
        additive('AddUser', friends, [m.username for m in by_kind.get('AddUser', [])], optional=optional)
        additive('AddInterest', s.get('liked', []), [m.interest for m in by_kind.get('AddInterest', [])])
        additive('AddHatedInterest', s.get('hated', []), [m.hated_interest for m in by_kind.get('AddHatedInterest', [])])
        additive('JoinRoom', s.get('favorites', []) if s.get('auto_join') else [],
                 [m.room for m in by_kind.get('JoinRoom', [])], auto_join=bool(s.get('auto_join')))
        world.probe('burst_checked_' + tag)

    # ------------------------------------------------------------------ clause (b)
    async def no_session_probe(tag):
        call = world.call(alice, f'exec-{tag}', client.execute, C.GetUserStatusCommand('nobody'))
        await wait_call(call, 15.0)
        if not (call.outcome().startswith('raised:') and isinstance(call.exception, InvalidSessionError)):
            world.violate('C16.no_session', at=tag, outcome=call.outcome())
        world.probe('no_session_probed')

    # ------------------------------------------------------------------ clause (c)
    def check_reset(tag):
        facts = {'at': tag}
        # the user table holds its entries weakly: drop the harness's own references to past events first, so
        # that only what the library itself still holds is judged
        del alice.recorder.events[:]
        if client.session is not None:
            world.violate('C16.reset', what='session', **facts)
        names = sorted(client.users.users)
        if 'download' in pending and ctx.get('pending_applied'):
            # a queued download outlives the session and is a reason of its own to know (and track) its peer
            names = [n for n in names if n != PEER]
        if names:
            classes = sorted({'own' if n == OWN else 'friend' if n in friends else 'other' for n in names})
            world.violate('C16.reset', what='users', who=classes, **facts)
        rooms = client.rooms.rooms
        if rooms:
            joined = any(r.joined for r in rooms.values())
            occupied = any(r.users for r in rooms.values())
            world.violate('C16.reset', what='rooms', joined=joined, occupied=occupied, **facts)
        for name in friends:
            st = client.users.get_tracking_state(name)
            if st != TrackingState.UNTRACKED:
                world.violate('C16.reset', what='tracking', state=st.name, **facts)
        dn = client.distributed_network
        if dn.parent_min_speed is not None or dn.parent_speed_ratio is not None:
            world.violate('C16.reset', what='distributed_parameters', **facts)
        world.probe('reset_checked_' + tag)

    def closed_after(t):
        for (ct, st, reason) in conn_events:
            if st == 'CLOSED' and ct >= t - EPS:
                return (ct, reason)
        return None

    # ------------------------------------------------------------------ the fault
    def fire_action(where):
        if ctx['action_fired'] or action.get('kind', 'none') == 'none':
            return
        ctx['action_fired'] = True
        ctx['action_at'] = loop.time()
        world.trace('action', where, action.get('kind'), action.get('how'))
        if action['kind'] == 'stop':
            start_stop('stop')
            return
        how = action.get('how', 'rst')
        sessions = alice_sessions()
        conns = alice_conns()
        session = sessions[-1] if sessions else None
        conn = conns[-1] if conns else None
        loss = {'how': how, 'at': loop.time(), 'conn': conn, 'origin': where}
        fired = world.net.fired
        if how == 'requested':
            fired['requested_disconnect'] += 1
            world.call(alice, 'disconnect-server', client.network.disconnect_server)
        elif conn is None or conn.a._closed:
            world.probe('fault_without_link')
            return
        elif how == 'fin':
            if session is None or session.closed:
                # the accept callback has not run yet: close as soon as it does
                world.probe('fault_without_link')
                return
            fired['server_eof'] += 1
            session.close()
        elif how == 'rst':
            if session is None or session.closed:
                world.probe('fault_without_link')
                return
            fired['server_rst'] += 1
            session.abort()
        elif how == 'reset':
            conn.reset('link_reset')
        elif how == 'reset_send':
            conn.reset('link_reset')
            after_hops(int(action.get('k', 0)), lambda: world.call(
                alice, 'send-after-reset', client.network.send_server_messages, M.Ping.Request()))
        elif how == 'write_stall':
            if session is None:
                world.probe('fault_without_link')
                return
            fired['stall_reader'] += 1
            session.writer.transport.pause_reading()
            blob = b'\x00' * 60000
            for i in range(4):
                world.call(alice, f'bigsend-{i}', client.network.send_server_messages, blob)
        elif how == 'stall':
            conn.hold(650.0)
        ctx['losses'].append(loss)

    def start_stop(label):
        if ctx['stopped']:
            return
        ctx['stopped'] = True
        if init_window['open']:
            init_window['hit'] = True
        world.net.fired['client_stop'] += 1

        async def do_stop():
            try:
                await client.stop()
            finally:
                # same task step as the return of stop()
                ctx['stop_return'] = loop.time()
                ctx['stop_snapshot'] = {
                    'tasks': [t for t in loop.pending_tasks(alice.host) if not t.get_name().startswith('driver-')],
                    'transports': list(world.net.open_transports(alice.host)),
                    'listeners': sorted(port for (ip, port) in world.net.listeners if ip == alice.host.ip),
                    'nconns': len(world.net.conns), 'nattempts': len(world.net.connect_attempts),
                }
        ctx['stop_call'] = world.call(alice, label, do_stop)

    # ------------------------------------------------------------------ clause (e)
    def coro_name(task):
        coro = task.get_coro()
        return getattr(coro, '__qualname__', None) or type(coro).__name__

    def host_kind(name):
        return 'server' if name == 'server' else 'peer'

    async def stop_flow():
        call = ctx['stop_call']
        await wait_call(call, 120.0)
        if not call.done:
            world.probe('stop_never_returned')
            return
        if call.outcome() != 'returned':
            world.probe('stop_' + call.outcome())
        snap = ctx['stop_snapshot']
        t_ret = ctx['stop_return']
        for tr in snap['transports']:
            other = tr.conn.dst.name if tr.conn.src is alice.host else tr.conn.src.name
            world.violate('C16.after_stop_open', what='socket', to=host_kind(other))
        for port in snap['listeners']:
            world.violate('C16.after_stop_open', what='listener', port='clear' if port == CLEAR_PORT else 'obfuscated')
        await no_session_probe('after_stop')
        await asyncio.sleep(0.5)
        if not [a for a in world.net.connect_attempts[snap['nattempts']:] if a['src'] == OWN and a['dst'] == 'server']:
            check_reset('stop')     # (a reconnect after stop() is reported by C16.after_stop_connect)
        await sleep_until(t_ret + AFTER_STOP)
        for att in world.net.connect_attempts[snap['nattempts']:]:
            if att['src'] == OWN and att['time'] >= t_ret - EPS:
                world.violate('C16.after_stop_connect', what='connect_attempt', to=host_kind(att['dst']))
        for c in world.net.conns[snap['nconns']:]:
            if c.src is alice.host:
                world.violate('C16.after_stop_connect', what='connection_opened', to=host_kind(c.dst.name))
        for tr in world.net.open_transports(alice.host):
            if tr not in snap['transports']:
                other = tr.conn.dst.name if tr.conn.src is alice.host else tr.conn.src.name
                world.violate('C16.after_stop_open', what='socket_later', to=host_kind(other))
        for port in sorted(p for (ip, p) in world.net.listeners if ip == alice.host.ip):
            if port not in snap['listeners']:
                world.violate('C16.after_stop_open', what='listener_later', port='clear' if port == CLEAR_PORT else 'obfuscated')
        seen = set()
        for t in snap['tasks']:
            key = (coro_name(t), not t.done())
            if key in seen:
                continue
            seen.add(key)
            world.violate('C16.after_stop_task', coro=key[0], lingering=key[1])
        world.probe('stop_checked')

    # ------------------------------------------------------------------ clause (d)
    def classify(loss):
        """What the statement demands after this loss: 'reconnect' | 'none' | 'either' (may go both ways)."""
        how = loss['how']
        conn = loss.get('conn')
        if how == 'requested':
            return 'none'
        if how == 'fin':
            if conn is not None and (tap.lost.get(conn.id) or (None, None))[1] is not None:
                return 'either'     # FIN overtaken by an RST provoked by in-flight writes
            if conn is not None and conn.id not in tap.eof and tap.lost.get(conn.id):
                return 'either'     # the client closed before the FIN reached it
            return 'none'
        return 'reconnect'

    def logins_after(t):
        """Login frames on connections opened after t (frames of the lost connection still in flight do not count)."""
        out = []
        for sess in alice_sessions():
            conn = _conn_of(sess)
            if conn is None or conn.opened_at <= t + EPS:
                continue
            for (ft, m) in sess.received:
                if isinstance(m, M.Login.Request):
                    out.append((ft, sess))
        return out

    async def loss_flow(loss, stop_after=stop_after):
        how = loss['how']
        t_loss = loss['at']
        bound = {'stall': 660.0, 'write_stall': 25.0}.get(how, NOTICE_BOUND)
        had_session = client.session is not None
        await wait_for(lambda: closed_after(t_loss) is not None, bound)
        closed = closed_after(t_loss)
        if closed is None:
            world.probe('loss_not_noticed_' + how)
            if how == 'stall':
                return      # the link was never lost
            t_ref = t_loss
        else:
            t_ref = closed[0]
            world.probe('close_reason_%s_%s' % (how, closed[1]))
            if stop_after is None or float(stop_after) >= 0.5:
                await sleep_until(t_ref + 0.5)
                if not ctx['stopped']:
                    check_reset('loss')
                    await no_session_probe('after_loss')
        if ctx['stopped']:
            return
        if stop_after is not None:
            await sleep_until(t_ref + float(stop_after))
            if not ctx['stopped']:
                start_stop('stop')
            return
        expect = classify(loss)
        facts = {'how': how, 'login': login_mode, 'position': loss.get('origin'), 'noticed': closed is not None,
                 'had_session': had_session}
        if expect == 'reconnect' and reconnect_on:
            deadline = t_ref + timeout + RECONNECT_SLACK
            if down.get('attempts'):
                # every failed attempt costs one more waiting period (plus the connect timeout when black-holed)
                deadline += down['attempts'] * (timeout + (0.5 if down.get('how', 'refuse') == 'refuse' else 31.0))
            await wait_for(lambda: bool(logins_after(t_loss)), deadline - loop.time(), step=0.25)
            new = logins_after(t_loss)
            if not new:
                new_attempts = [a for a in world.net.connect_attempts
                                if a['src'] == OWN and a['dst'] == 'server' and a['time'] > t_loss + EPS]
                world.violate('C16.reconnect_missing', **facts, connected=bool(new_attempts))
                return
            world.probe('reconnected')
            if plan.get('relogin') == 'eof':
                # a server-side EOF never leads to a new connection - also when it answers the re-login
                await wait_for(lambda: 'at' in relogin_eof, 20.0)
                t_eof = relogin_eof.get('at', loop.time())
                await sleep_until(t_eof + 5.0 * timeout + 2.0)
                later = [a for a in world.net.connect_attempts
                         if a['src'] == OWN and a['dst'] == 'server' and a['time'] > t_eof + 0.5]
                if later:
                    world.violate('C16.reconnect_spurious', **facts, reconnect_setting=reconnect_on, after='eof_on_relogin',
                                  login_sent=logins_seen[0] > 2)
                start_stop('stop')
                await stop_flow()
                return
            sess = new[0][1]
            current_session[0] = sess
            await wait_for(lambda: len([e for e in session_events if e[1] == 'init' and e[0] >= new[0][0]]) > 0, 10.0)
            cutoff = await settle(sess)
            relogged = [e for e in session_events if e[1] == 'init' and e[0] >= new[0][0]]
            if cutoff is not None and relogged and link_up():
                check_burst(sess, cutoff, 'relogin')
            elif not relogged and sess.index in accepted:
                world.violate('C16.reconnect_missing', **facts, connected=True, login_sent=True, session=False)
        elif expect == 'none':
            window = 5.0 * timeout
            await sleep_until(t_ref + window)
            attempts = [a for a in world.net.connect_attempts
                        if a['src'] == OWN and a['dst'] == 'server' and a['time'] > t_loss + EPS]
            if attempts or logins_after(t_loss):
                world.violate('C16.reconnect_spurious', **facts, reconnect_setting=reconnect_on,
                              login_sent=bool(logins_after(t_loss)))
            world.probe('no_reconnect_checked')
        else:
            world.probe('reconnect_not_judged_' + expect)
            await asyncio.sleep(5.0)

    # ------------------------------------------------------------------ pending work
    async def apply_pending():
        ctx['pending_applied'] = True
        for item in pending:
            if item.startswith('parent_'):
                server.send_to(OWN, M.PotentialParents.Response([PotentialParent(PEER, peer.host.ip, peer.port)]))
            elif item == 'search':
                world.call(alice, 'search', client.searches.search, 'anything')
            elif item == 'search_reply':
                server.send_to(OWN, M.FileSearch.Response(username=PEER, ticket=4242, query='song'))
            elif item == 'download':
                world.call(alice, 'download', client.transfers.download, PEER, 'music\\file.mp3')
            elif item == 'peer_conn':
                port = clear_port or obf_port
                if port and (alice.host.ip, port) in world.net.listeners:
                    async def dial(port=port):
                        link = await peer.connect_direct(alice.host.ip, port, 'P', ticket=9,
                                                         obfuscated=(port == OBF_PORT))
                        while await link.read_some() is not None:
                            pass
                    peer.spawn(dial())

    # ------------------------------------------------------------------ scenario
    async def main():
        start = world.call(alice, 'start', client.start)
        await wait_call(start, 60.0)
        if start.outcome() != 'returned':
            world.probe('start_' + start.outcome())
            return
        await no_session_probe('before_login')
        if state == 'before_login':
            await asyncio.sleep(float(plan.get('delay', 0.0)))
            # server-side faults need the server's end of the connection (one trip behind the client's)
            await wait_for(lambda: bool(alice_sessions()), 2.0, step=0.001)
            fire_action('before_login')
            if ctx['stopped']:
                await stop_flow()
                return
            await asyncio.sleep(0.5)
        login = world.call(alice, 'login', client.login)
        await wait_call(login, 20.0)
        sessions = alice_sessions()
        current_session[0] = sessions[0] if sessions else None
        logged_in = login.outcome() == 'returned'
        world.trace('login', login.outcome())
        world.probe('login_' + login.outcome().replace(':', '_'))
        if login_mode == 'accept' and not logged_in and not ctx['action_fired']:
            world.probe('login_failed_unexpectedly')
        if logged_in and current_session[0] is not None:
            cutoff = await settle(current_session[0], abort_on_action=True)
            if cutoff is not None and not ctx['action_fired'] and link_up():
                check_burst(current_session[0], cutoff, 'login')
        elif login.done and not ctx['action_fired']:
            await no_session_probe('after_failed_login')
        if login_loss:
            # the loss caused by the login mode (EOF / RST on Login); a planned stop() follows it `delay` s
            # after the client noticed (possibly while the client waits to reconnect)
            sa = stop_after
            if sa is None and action.get('kind') == 'stop' and not ctx['stopped']:
                sa = float(plan.get('delay', 0.0))
                ctx['action_fired'] = True
                ctx['action_at'] = loop.time()
            await loss_flow(login_loss, stop_after=sa)
        elif state == 'steady' and not ctx['action_fired']:
            if pending and logged_in:
                await apply_pending()
            await asyncio.sleep(float(plan.get('delay', 0.0)))
            fire_action('steady')
        if state == 'burst' and not ctx['action_fired']:
            world.probe('burst_index_beyond_burst')
        for loss in list(ctx['losses']):
            if not ctx['stopped']:
                await loss_flow(loss)
        if ctx['stopped']:
            await stop_flow()

    world.run(main())

    # ------------------------------------------------------------------ clause (c): counting
    # "destroyed exactly once": per initialised session object, one SessionDestroyedEvent iff its connection was
    # lost (the order in which late listeners see the two events is not part of the statement)
    inits = []
    for (t, kind, sess) in session_events:
        if kind == 'init' and not any(sess is x for x in inits):
            inits.append(sess)
    for (t, kind, sess) in session_events:
        if kind == 'destroy' and not any(sess is x for x in inits):
            world.violate('C16.destroy_count', what='extra', detail='session never announced')
    for i, sess in enumerate(inits):
        n_init = len([e for e in session_events if e[1] == 'init' and e[2] is sess])
        n_destroy = len([e for e in session_events if e[1] == 'destroy' and e[2] is sess])
        last = i == len(inits) - 1
        lost = True
        if last and link_up():
            lost = False
        if n_init != 1:
            world.violate('C16.destroy_count', what='announced_twice')
        if lost and n_destroy == 0:
            if last:
                cs = alice_conns()
                lost_at = (tap.lost.get(cs[-1].id) or (None, None))[0] if cs else None
                if lost_at is not None and loop.time() - lost_at < 1.0:
                    continue    # lost in the last second of the run
            world.violate('C16.destroy_count', what='missing', stopped=ctx['stopped'], last=last)
        elif n_destroy > (1 if lost else 0):
            world.violate('C16.destroy_count', what='extra', n=n_destroy, lost=lost)

    # ------------------------------------------------------------------ bookkeeping
    n_init = len([e for e in session_events if e[1] == 'init'])
    reasons = tuple((st, r) for (_, st, r) in conn_events if st in ('CLOSING',))
    nontrivial = bool(ctx['action_fired'] or login_loss)
    shape = (s.get('ports'), s.get('bind_fail'), len(friends), tuple(sorted(f['beh'] for f in s.get('friends', []))),
             len(s.get('liked', [])), len(s.get('hated', [])), len(s.get('favorites', [])), bool(s.get('auto_join')),
             bool(s.get('invites')), reconnect_on, timeout if reconnect_on else None, len(trees))
    sig = [shape, login_mode, state, (plan.get('index'), plan.get('trigger')) if state == 'burst' else None, tuple(pending),
           action.get('kind'), action.get('how'), action.get('k'), stop_after, reasons, n_init,
           ctx['stop_return'] is not None]
    if init_window['hit']:
        world.probe('link_lost_during_session_initialisation')
        for v in world.violations:
            v['facts']['during_session_init'] = True
    return common.finish(world, nontrivial, sig)
