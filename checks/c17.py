"""C17 - transfers survive a restart: nothing lost, duplicated, or left 'in progress'.

Shape ``synthetic`` (DESIGN.md section 3 "C17", part (a)).  World: real, never started
``SoulSeekClient`` objects, one after the other, all created with a real ``TransferShelveCache``
on the same directory of the per-run tmpfs sandbox (``shelve``/``dbm`` run for real).  A plan is
a pool of 0..8 transfer descriptions over every state x direction x field draws (sizes,
progress, reasons, local paths, user / remote path strings including pairs whose concatenations
coincide and non-ASCII names), optional *legacy* records put into the database before the first
client looks at it (pickles lacking ``abort_reason``, carrying ``_offset``, optionally stored
under a key today's key function would not produce), and a history of <= 6 cache operations
(add / mutate / remove / write through ``write_cache()``, ``store_data()`` or
``client.stop()``) with restarts in between.  A restart abandons the client object without
``stop()`` (a crash: whatever was not written is lost) unless the step before it was a write
through ``stop()``; a new client object on the same directory then calls ``load_data()``.
Every plan ends with a restart.

Oracle (after every ``load_data()``): the model's durable image (= what the last write
persisted, models/transfer_graph.after_restart applied) against ``TransferManager.transfers``:
C17.set, C17.fields, C17.in_progress, C17.remote_flag; after the final load every loaded
transfer is sent through one accepted public operation (queue / abort / pause) and a recording
listener registered like the manager registers itself must see exactly that change, as must the
manager (C17.listener).  C17.schedule (live scheduling after the restart) belongs to the live
shape, which registers itself in ``SHAPES``; nothing in this file has to change for that.
"""
from __future__ import annotations

import copy
import hashlib
import importlib
import importlib.util
import os
import shelve

from sim.world import World
from models import transfer_graph as G
from . import common

PROPERTY = 'C17'
INFO = {
    'level': 'fault_enumeration',
    'rule': ('synthetic plans = pool of 0..8 transfers (state uniform over all ten states x both directions, also the '
             'combinations only a foreign writer could produce; filesize {None, 0, 1, 1000, 2^32+5}; progress {0, half, '
             'all, more than all}; fail / abort reasons incl. none; local path {none, existing file, missing file, '
             'non-ASCII}; remotely_queued; user / remote path from a vocabulary with pairs whose concatenations '
             'coincide, exact duplicates, non-ASCII) x 0..2 legacy records (lacking abort_reason, carrying _offset, 20 % '
             'of plans; key: today\'s / concatenation scheme / foreign) x <=6 steps from {add, write (write_cache / '
             'store_data / stop()), mutate (any field, any state), remove, restart (crash unless preceded by stop())}, '
             'always ending with a restart; the corpus enumerates every persisted state x direction x progress x way of '
             'writing; non-trivial = a load was judged that covers an in-progress state, a removal, a mutation after the '
             'last write, a pair with coinciding concatenation, or a legacy record; distinct = signature over (step '
             'kinds, per load the sorted (written state, direction, progress class, legacy, loaded state) tuples)'),
    'real': common.REAL + ['shelve / dbm database files of TransferShelveCache (tmpfs)', 'pickle'],
    'stub': common.STUB,
    'assumptions': [
        'a transfer is put into a state by assigning TransferState.init_from_state(...) (what Transfer.__setstate__ and '
        'read_cache do themselves); persistence, not the transitions, is the subject here (C03 covers those)',
        'the durable image is what the manager held at the last write (write_cache / store_data / stop()); a crash is '
        'a client object that is simply abandoned',
        'identity of a transfer = (username, remote path, direction); adding an equal transfer again returns the '
        'existing one (documented in TransferManager.add)',
        'compared fields: local_path, filesize, bytes_transfered, fail_reason, abort_reason, and the state for states '
        'that are not in progress (statement: "same ... local path, sizes, progress, reasons")',
        'an ABORTED transfer persisted without abort_reason (legacy record, or state.abort() called without a reason, '
        'which no library call site does) may be loaded with None or with the documented default "Requested"',
        'a legacy record is a pickle of today\'s field set minus abort_reason plus _offset; a missing abort_reason '
        'counts as None',
        'local paths lie inside the sandbox (the listener clause aborts loaded downloads, which removes their file)',
        'C17.listener is judged once, after the final load: one accepted operation per loaded transfer through '
        'TransferManager.queue/abort/pause, chosen by the plan\'s preference order among the operations the graph '
        'accepts in the loaded state',
    ],
}

STATE_NAMES = G.STATES
FIELDS = ('local_path', 'filesize', 'bytes_transfered', 'fail_reason', 'abort_reason')
USERS = ('ab', 'a', 'abc', 'bob', 'ユーザー', 'Zoë')
PATHS = ('c', 'bc', '', '@@x\\music\\song.mp3', '@@x\\müsic\\söng 東京.flac', 'b\\song.mp3', '\\song.mp3')
# pairs with coinciding user + path: (ab, c) (a, bc) (abc, '') ; (bob, \song.mp3)?? no - (ab, c) family is enough,
# plus (a, b\song.mp3) / (ab, \song.mp3)
FAIL_REASONS = (None, None, 'Cancelled', 'File not shared.', 'Überlastet')
ABORT_REASONS = (None, 'Requested', 'Blocked', 'File not shared')
SIZES = (None, 0, 1, 1000, 2 ** 32 + 5)
LOCALS = (None, None, 'dl/song.mp3', 'dl/missing.mp3', 'dl/söng 東京.flac', 'dl/sub/a.bin')
WRITE_VIAS = ('write_cache', 'store_data', 'stop')
POKES = ('queue', 'abort', 'pause')


# ----------------------------------------------------------------------------- generator (synthetic)

def _progress(rng, filesize, kind=None):
    kind = kind or rng.choice(('none', 'half', 'all', 'all', 'more'))
    if filesize is None:
        return rng.choice((0, 0, 5))
    if kind == 'none':
        return 0
    if kind == 'half':
        return filesize // 2
    if kind == 'all':
        return filesize
    return filesize + 3


def gen_transfer(rng, state=None, direction=None, user=None, path=None):
    filesize = rng.choice(SIZES)
    state = state or rng.choice(STATE_NAMES)
    rec = {
        'user': user if user is not None else rng.choice(USERS),
        'path': path if path is not None else rng.choice(PATHS),
        'dir': direction or rng.choice(G.DIRECTIONS),
        'state': state,
        'filesize': filesize,
        'bytes': _progress(rng, filesize),
        'fail_reason': rng.choice(FAIL_REASONS) if state == 'FAILED' or rng.random() < 0.2 else None,
        'abort_reason': rng.choice(ABORT_REASONS) if state == 'ABORTED' or rng.random() < 0.15 else None,
        'local': rng.choice(LOCALS),
        'remotely_queued': rng.random() < 0.4,
    }
    return rec


def gen_mutation(rng):
    out = {}
    for _ in range(rng.choice((1, 1, 2, 3))):
        f = rng.choice(('state', 'state', 'bytes', 'filesize', 'fail_reason', 'abort_reason', 'local', 'remotely_queued'))
        if f == 'state':
            out['state'] = rng.choice(STATE_NAMES)
        elif f == 'bytes':
            out['bytes'] = rng.choice((0, 1, 500, 1000, 2 ** 32 + 5))
        elif f == 'filesize':
            out['filesize'] = rng.choice(SIZES)
        elif f == 'fail_reason':
            out['fail_reason'] = rng.choice(FAIL_REASONS)
        elif f == 'abort_reason':
            out['abort_reason'] = rng.choice(ABORT_REASONS)
        elif f == 'local':
            out['local'] = rng.choice(LOCALS)
        else:
            out['remotely_queued'] = rng.random() < 0.5
    return out


def generate_synthetic(rng, index, tier):
    n = rng.choice((0, 1, 1, 2, 3, 4, 5, 6, 7, 8))
    pool = []
    collide = rng.random() < 0.35
    for i in range(n):
        rec = gen_transfer(rng)
        if collide and i == 1 and pool:
            # same concatenation as the first, split elsewhere; same direction in two of three cases
            first = pool[0]
            cat = first['user'] + first['path']
            cuts = [k for k in range(1, len(cat)) if k != len(first['user'])]
            if cuts:
                k = rng.choice(cuts)
                rec['user'], rec['path'] = cat[:k], cat[k:]
                if rng.random() < 0.67:
                    rec['dir'] = first['dir']
        elif i and rng.random() < 0.07:
            twin = rng.choice(pool)           # exact duplicate of the identity, other fields differ
            rec['user'], rec['path'], rec['dir'] = twin['user'], twin['path'], twin['dir']
        pool.append(rec)
    legacy = []
    if rng.random() < 0.2:
        for _ in range(rng.choice((1, 1, 2))):
            rec = gen_transfer(rng)
            rec['lacks'] = ['abort_reason'] if rng.random() < 0.8 else []
            rec['abort_reason'] = None if rec['lacks'] else rec['abort_reason']
            if rng.random() < 0.7:
                rec['offset'] = rng.choice((0, 5, 1000))
            rec['key'] = rng.choices((None, 'concat', 'foreign'), (60, 25, 15))[0]
            legacy.append(rec)
    steps = []
    order = list(range(n))
    rng.shuffle(order)
    late = [order.pop() for _ in range(rng.choice((0, 0, 1, 2))) if order]
    for t in order:
        steps.append({'op': 'add', 't': t})
    budget = rng.randint(1, 6)
    written = False
    while budget > 0:
        budget -= 1
        r = rng.random()
        if r < 0.4 or not written and r < 0.6:
            steps.append({'op': 'write', 'via': rng.choices(WRITE_VIAS, (40, 30, 30))[0]})
            written = True
            if steps[-1]['via'] == 'stop':
                steps.append({'op': 'restart'})
        elif r < 0.65 and n:
            steps.append({'op': 'mutate', 't': rng.randrange(n), 'set': gen_mutation(rng)})
        elif r < 0.77 and n:
            steps.append({'op': 'remove', 't': rng.randrange(n)})
        elif r < 0.8 and n >= 2:
            a, b = rng.sample(range(n), 2)
            steps.append({'op': 'remove2', 't': a, 't2': b})
        elif r < 0.9 and late:
            steps.append({'op': 'add', 't': late.pop()})
        else:
            steps.append({'op': 'restart'})
    return {
        'seed': rng.getrandbits(32), 'shape': 'synthetic',
        'exec': {'delay_ms': [5, 20] if any(st['op'] == 'remove2' for st in steps) else [0, 0]},
        'transfers': pool, 'legacy': legacy, 'steps': steps,
        'poke': rng.sample(POKES, 3),
    }


def _rec(user, path, direction, state, filesize=1000, nbytes=400, **extra):
    rec = {'user': user, 'path': path, 'dir': direction, 'state': state, 'filesize': filesize, 'bytes': nbytes,
           'fail_reason': 'Cancelled' if state == 'FAILED' else None,
           'abort_reason': 'Blocked' if state == 'ABORTED' else None,
           'local': 'dl/song.mp3' if direction == G.DOWNLOAD and state not in ('VIRGIN', 'QUEUED', 'ABORTED') else None,
           'remotely_queued': state in ('QUEUED', 'INITIALIZING', 'INCOMPLETE')}
    rec.update(extra)
    return rec


def _synthetic(pool, steps, legacy=(), **extra):
    plan = {'seed': 5, 'shape': 'synthetic', 'exec': {'delay_ms': [0, 0]}, 'transfers': list(pool),
            'legacy': list(legacy), 'steps': list(steps), 'poke': list(POKES)}
    plan.update(extra)
    return plan


def _adds(n):
    return [{'op': 'add', 't': i} for i in range(n)]


def _persisted_state_plans():
    """Exhaustive axis: every state x direction x progress class x way of writing, one transfer."""
    out = []
    for direction in G.DIRECTIONS:
        for state in STATE_NAMES:
            for filesize, nbytes in ((1000, 400), (1000, 1000), (None, 0), (0, 0)):
                for via in WRITE_VIAS:
                    pool = [_rec('bob', '@@x\\music\\song.mp3', direction, state, filesize, nbytes)]
                    out.append(_synthetic(pool, _adds(1) + [{'op': 'write', 'via': via}], _axis='persisted_state'))
    return out


def corpus_synthetic(tier):
    out = []
    out.extend(_persisted_state_plans())
    # every state x direction in three lists of at most 8, written and crashed; the same with a second generation
    combos = [(d, s) for d in G.DIRECTIONS for s in STATE_NAMES]
    for chunk in (combos[0:8], combos[8:16], combos[16:20]):
        pool = [_rec(f'user{i}', f'@@x\\dir\\file{i}.mp3', d, s, 1000, 1000 if i % 3 == 0 else 250)
                for i, (d, s) in enumerate(chunk)]
        out.append(_synthetic(pool, _adds(len(pool)) + [{'op': 'write', 'via': 'write_cache'}]))
        out.append(_synthetic(pool, _adds(len(pool)) + [{'op': 'write', 'via': 'stop'}, {'op': 'restart'},
                                                       {'op': 'write', 'via': 'store_data'}]))
    # empty list; nothing ever written; written then everything removed
    out.append(_synthetic([], [{'op': 'write', 'via': 'write_cache'}]))
    out.append(_synthetic([_rec('bob', 'a\\b', G.DOWNLOAD, 'QUEUED')], _adds(1)))
    out.append(_synthetic([_rec('bob', 'a\\b', G.DOWNLOAD, 'QUEUED'), _rec('bob', 'a\\c', G.UPLOAD, 'UPLOADING')],
                          _adds(2) + [{'op': 'write', 'via': 'write_cache'}, {'op': 'remove', 't': 0},
                                      {'op': 'remove', 't': 1}, {'op': 'write', 'via': 'write_cache'}]))
    # two overlapping removals (the one started first is the slower one and sits behind the other in the list)
    trio = [_rec('bob', 'a\\one', G.DOWNLOAD, 'QUEUED'), _rec('bob', 'a\\two', G.DOWNLOAD, 'INCOMPLETE'),
            _rec('carol', 'a\\three', G.UPLOAD, 'QUEUED'), _rec('dave', 'a\\four', G.DOWNLOAD, 'PAUSED')]
    for first, second in ((1, 0), (3, 0), (3, 1), (1, 2)):
        for tail in ([{'op': 'write', 'via': 'write_cache'}], [{'op': 'write', 'via': 'stop'}]):
            out.append(_synthetic(trio, _adds(4) + [{'op': 'write', 'via': 'write_cache'},
                                                    {'op': 'remove2', 't': first, 't2': second}] + tail + [{'op': 'restart'}],
                                  exec={'delay_ms': [5, 20]}))
    # removal: written before, not written after (crash loses the removal); written after (gone)
    for tail in ([], [{'op': 'write', 'via': 'store_data'}], [{'op': 'write', 'via': 'stop'}]):
        out.append(_synthetic([_rec('bob', 'a\\b', G.DOWNLOAD, 'INCOMPLETE'), _rec('carol', 'a\\b', G.DOWNLOAD, 'PAUSED')],
                              _adds(2) + [{'op': 'write', 'via': 'write_cache'}, {'op': 'remove', 't': 0}] + tail))
    # mutation after the last write is lost, before it is kept; state moves through the in-progress states
    for tail in ([], [{'op': 'write', 'via': 'write_cache'}]):
        out.append(_synthetic([_rec('bob', 'a\\b', G.DOWNLOAD, 'QUEUED', 1000, 0)],
                              _adds(1) + [{'op': 'write', 'via': 'write_cache'},
                                          {'op': 'mutate', 't': 0, 'set': {'state': 'DOWNLOADING', 'bytes': 1000,
                                                                            'local': 'dl/song.mp3',
                                                                            'remotely_queued': True}}] + tail))
    # same identity in both directions; same user, different paths
    out.append(_synthetic([_rec('bob', 'a\\b', G.DOWNLOAD, 'COMPLETE', 10, 10), _rec('bob', 'a\\b', G.UPLOAD, 'FAILED'),
                           _rec('bob', 'a\\b2', G.UPLOAD, 'ABORTED')], _adds(3) + [{'op': 'write', 'via': 'write_cache'}]))
    # pairs whose concatenations coincide: same direction (all splits of one string), other direction, three at once
    for a, b in ((('ab', 'c'), ('a', 'bc')), (('a', 'bc'), ('ab', 'c')), (('abc', ''), ('ab', 'c')),
                 (('ab', '\\song.mp3'), ('a', 'b\\song.mp3')), (('ユーザー', 'x'), ('ユーザ', 'ーx'))):
        for d2 in G.DIRECTIONS:
            pool = [_rec(a[0], a[1], G.DOWNLOAD, 'QUEUED'), _rec(b[0], b[1], d2, 'PAUSED', 77, 7)]
            out.append(_synthetic(pool, _adds(2) + [{'op': 'write', 'via': 'write_cache'}]))
            out.append(_synthetic(pool, _adds(2) + [{'op': 'write', 'via': 'write_cache'}, {'op': 'remove', 't': 1},
                                                    {'op': 'write', 'via': 'write_cache'}]))
            out.append(_synthetic(pool, [{'op': 'add', 't': 0}, {'op': 'write', 'via': 'write_cache'},
                                         {'op': 'restart'}, {'op': 'add', 't': 1}, {'op': 'write', 'via': 'stop'}]))
    out.append(_synthetic([_rec('ab', 'c', G.UPLOAD, 'QUEUED'), _rec('a', 'bc', G.UPLOAD, 'COMPLETE'),
                           _rec('abc', '', G.UPLOAD, 'FAILED')], _adds(3) + [{'op': 'write', 'via': 'store_data'}]))
    # exact duplicate identity: the first one added stays
    out.append(_synthetic([_rec('bob', 'a\\b', G.DOWNLOAD, 'QUEUED', 10, 1), _rec('bob', 'a\\b', G.DOWNLOAD, 'FAILED', 20, 2)],
                          _adds(2) + [{'op': 'write', 'via': 'write_cache'}]))
    # legacy records: every state x direction, lacking abort_reason and carrying _offset, loaded, written, loaded
    for direction in G.DIRECTIONS:
        for state in STATE_NAMES:
            legacy = [_rec('old', 'x\\y.mp3', direction, state, 1000, 1000, lacks=['abort_reason'], offset=5, key=None,
                           abort_reason=None)]
            out.append(_synthetic([], [], legacy=legacy))
            out.append(_synthetic([], [{'op': 'write', 'via': 'write_cache'}], legacy=legacy))
    # legacy record under another key: today's scheme / the plain concatenation scheme / a foreign key; then the
    # record is written again, changed, written again
    for key in (None, 'concat', 'foreign'):
        legacy = [_rec('old', 'x\\y.mp3', G.DOWNLOAD, 'PAUSED', 1000, 100, lacks=['abort_reason'], offset=5, key=key)]
        out.append(_synthetic([_rec('old', 'x\\y.mp3', G.DOWNLOAD, 'QUEUED')],
                              [{'op': 'write', 'via': 'write_cache'}, {'op': 'restart'},
                               {'op': 'mutate', 't': 0, 'set': {'bytes': 900, 'state': 'INCOMPLETE'}},
                               {'op': 'write', 'via': 'write_cache'}], legacy=legacy))
        out.append(_synthetic([_rec('old', 'x\\y.mp3', G.DOWNLOAD, 'QUEUED')],
                              [{'op': 'write', 'via': 'write_cache'}, {'op': 'remove', 't': 0},
                               {'op': 'write', 'via': 'write_cache'}], legacy=legacy))
    # non-ASCII everywhere
    out.append(_synthetic([_rec('ユーザー', '@@x\\müsic\\söng 東京.flac', G.DOWNLOAD, 'DOWNLOADING', 2 ** 32 + 5, 2 ** 32,
                                local='dl/söng 東京.flac', fail_reason='Überlastet'),
                           _rec('Zoë', '@@x\\müsic\\söng 東京.flac', G.UPLOAD, 'ABORTED', abort_reason='Blocked')],
                          _adds(2) + [{'op': 'write', 'via': 'stop'}]))
    return out


def axes_synthetic(tier):
    return {'persisted_state': {
        'size': len(_persisted_state_plans()), 'exhaustive': True,
        'what': ('every state (10) x direction (2) - also the combinations a client of this version would not produce '
                 '(upload/DOWNLOADING, download/UPLOADING) - x progress {partial, all bytes, size unknown, empty file} '
                 'x way of writing {write_cache, store_data, stop()}; one transfer, written, process ended, loaded by '
                 'a new client'),
    }}


# ----------------------------------------------------------------------------- shapes

SHAPES = {
    # name -> {'weight': %, 'generate': fn(rng, index, tier), 'corpus': fn(tier), 'run': fn(plan), 'axes': fn(tier)}
}


def generate(rng, index, tier):
    names = sorted(SHAPES)
    if len(names) == 1:
        shape = names[0]
    else:
        shape = rng.choices(names, [SHAPES[n].get('weight', 1) for n in names])[0]
    plan = SHAPES[shape]['generate'](rng, index, tier)
    plan.setdefault('shape', shape)
    return plan


def corpus(tier):
    out = []
    for name in sorted(SHAPES):
        fn = SHAPES[name].get('corpus')
        if fn is not None:
            for plan in fn(tier):
                plan.setdefault('shape', name)
                out.append(plan)
    return out


def enumerated_axes(tier):
    out = {}
    for name in sorted(SHAPES):
        fn = SHAPES[name].get('axes')
        if fn is not None:
            out.update(fn(tier))
    return out


def run(plan):
    return SHAPES[plan.get('shape', 'synthetic')]['run'](plan)


SHRINK_LISTS = ('steps', 'legacy')


def simplify(plan):
    if plan.get('shape', 'synthetic') != 'synthetic':
        fn = SHAPES.get(plan.get('shape'), {}).get('simplify')
        if fn is not None:
            yield from fn(plan)
        return
    used = {s['t'] for s in plan['steps'] if 't' in s}
    # drop pool entries no step refers to (the steps are re-indexed)
    for i in range(len(plan['transfers']) - 1, -1, -1):
        if i not in used:
            p = copy.deepcopy(plan)
            del p['transfers'][i]
            for s in p['steps']:
                if s.get('t', -1) > i:
                    s['t'] -= 1
            yield p
            break
    for i, rec in enumerate(plan['transfers']):
        if i in used and rec.get('state') != 'QUEUED':
            p = copy.deepcopy(plan)
            p['transfers'][i]['state'] = 'QUEUED'
            yield p
    for i, step in enumerate(plan['steps']):
        if step['op'] == 'write' and step.get('via') != 'write_cache':
            p = copy.deepcopy(plan)
            p['steps'][i]['via'] = 'write_cache'
            yield p
        if step['op'] == 'mutate' and len(step.get('set', {})) > 1:
            for k in step['set']:
                p = copy.deepcopy(plan)
                del p['steps'][i]['set'][k]
                yield p
    neutral = {'filesize': 1000, 'bytes': 400, 'fail_reason': None, 'abort_reason': None, 'local': None,
               'remotely_queued': False}
    for group in ('transfers', 'legacy'):
        for i, rec in enumerate(plan[group]):
            if group == 'transfers' and i not in used:
                continue
            for k, v in neutral.items():
                if rec.get(k) != v:
                    p = copy.deepcopy(plan)
                    p[group][i][k] = v
                    yield p
            if rec.get('key'):
                p = copy.deepcopy(plan)
                p[group][i]['key'] = None
                yield p
            if 'offset' in rec:
                p = copy.deepcopy(plan)
                del p[group][i]['offset']
                yield p


# ----------------------------------------------------------------------------- run (synthetic)

def run_synthetic(plan):
    world = World(plan, PROPERTY)
    try:
        return _run_synthetic(world, plan)
    finally:
        world.close()


class _Legacy:
    """Pickles as a ``Transfer`` with exactly the given state dict (what an older version wrote)."""

    def __init__(self, cls, state):
        self.cls = cls
        self.state = state

    def __reduce__(self):
        return (object.__new__, (self.cls,), self.state)


def _ident(rec):
    return (rec['user'], rec['path'], rec['dir'])


def _progress_class(rec):
    if rec['filesize'] is None:
        return 'unknown_size'
    if rec['bytes'] == rec['filesize']:
        return 'all'
    return 'partial' if rec['bytes'] < rec['filesize'] else 'more'


def _run_synthetic(world: World, plan):
    from aioslsk.exceptions import InvalidStateTransition
    from aioslsk.transfer.cache import TransferShelveCache
    from aioslsk.transfer.model import Transfer, TransferDirection
    from aioslsk.transfer.state import TransferState

    cache_dir = world.sandbox.sub('alice', 'cache')
    files_dir = world.sandbox.sub('alice', 'files')
    db_path = os.path.join(cache_dir, TransferShelveCache.DEFAULT_FILENAME)
    DIR = {G.DOWNLOAD: TransferDirection.DOWNLOAD, G.UPLOAD: TransferDirection.UPLOAD}
    DIR_NAME = {v: k for k, v in DIR.items()}
    pool = plan.get('transfers', [])

    def local_abs(rel):
        if rel is None:
            return None
        path = os.path.join(files_dir, *rel.split('/'))
        if 'missing' not in rel:
            os.makedirs(os.path.dirname(path), exist_ok=True)
            if not os.path.exists(path):
                with open(path, 'wb') as fh:
                    fh.write(b'x' * 16)
        return path

    def apply(tr, rec):
        """field values of a description onto a Transfer object"""
        if 'state' in rec:
            tr.state = TransferState.init_from_state(TransferState.State[rec['state']], tr)
        if 'filesize' in rec:
            tr.filesize = rec['filesize']
        if 'bytes' in rec:
            tr.bytes_transfered = rec['bytes']
        if 'fail_reason' in rec:
            tr.fail_reason = rec['fail_reason']
        if 'abort_reason' in rec:
            tr.abort_reason = rec['abort_reason']
        if 'local' in rec:
            tr.local_path = local_abs(rec['local'])
        if 'remotely_queued' in rec:
            tr.remotely_queued = bool(rec['remotely_queued'])

    def build(rec):
        tr = Transfer(rec['user'], rec['path'], DIR[rec['dir']])
        apply(tr, rec)
        return tr

    def model_rec(rec):
        """model record of a description: the compared fields plus bookkeeping for narrow facts"""
        return {'state': rec['state'], 'filesize': rec['filesize'], 'bytes': rec['bytes'],
                'fail_reason': rec['fail_reason'], 'abort_reason': rec['abort_reason'],
                'local': local_abs(rec['local']), 'remotely_queued': bool(rec['remotely_queued']),
                'legacy': False, 'legacy_key': None, 'writes': 0, 'dirty': True}

    def key_of(tr):
        return (tr.username, tr.remote_path, DIR_NAME[tr.direction])

    def observed(tr, like=None):
        """model record read back from a loaded object (the model goes on from what was loaded)"""
        rec = {'state': tr.state.VALUE.name, 'filesize': tr.filesize, 'bytes': tr.bytes_transfered,
               'fail_reason': tr.fail_reason, 'abort_reason': tr.abort_reason, 'local': tr.local_path,
               'remotely_queued': tr.remotely_queued, 'legacy': False, 'legacy_key': None, 'writes': 0, 'dirty': False}
        if like is not None:
            rec['legacy'], rec['legacy_key'], rec['writes'] = like['legacy'], like['legacy_key'], like['writes']
        return rec

    # ------------------------------------------------------------------ legacy records, written behind the library's back
    durable = {}        # identity -> model record: what the database holds since the last write
    if plan.get('legacy'):
        used_keys = set()
        with shelve.open(db_path, flag='c') as db:
            for i, rec in enumerate(plan['legacy']):
                ident = _ident(rec)
                if ident in durable:
                    continue                # one record per identity
                tr = build(rec)
                state = tr.__getstate__()
                for name in rec.get('lacks', []):
                    state.pop(name, None)
                if 'offset' in rec:
                    state['_offset'] = rec['offset']
                concat = hashlib.sha256(
                    (rec['user'] + rec['path'] + str(DIR[rec['dir']].value)).encode('utf-8')).hexdigest()
                if rec.get('key') == 'foreign':
                    key = f'legacy-{i}'
                elif rec.get('key') == 'concat':
                    key = concat
                else:
                    # today's key function, whatever it is: the real cache chooses the key in a scratch database
                    probe_dir = world.sandbox.sub('alice', f'keyprobe{i}')
                    TransferShelveCache(probe_dir).write([tr])
                    with shelve.open(os.path.join(probe_dir, TransferShelveCache.DEFAULT_FILENAME)) as pdb:
                        keys = list(pdb.keys())
                    key = keys[0] if len(keys) == 1 else concat
                if key in used_keys:
                    continue                # the older version could not have held both either
                used_keys.add(key)
                db[key] = _Legacy(Transfer, state)
                m = model_rec(rec)
                if 'abort_reason' in rec.get('lacks', []):
                    m['abort_reason'] = None
                m.update(legacy=True, legacy_key=rec.get('key'), dirty=False)
                durable[ident] = m
                world.trace('legacy', ident, rec['state'], rec.get('key'))

    # ------------------------------------------------------------------ model + driver state
    live = {}                       # identity -> model record: what the current manager holds
    ever_removed = set()
    removed_since_write = set()
    node = {'alice': None, 'stopped': False, 'generation': 0}
    loads = []
    sig_steps = []
    flags = {'nontrivial': False, 'mutated': False}
    seen = []

    def find(manager, ident):
        for tr in manager.transfers:
            if key_of(tr) == ident:
                return tr
        return None

    def colliding(ident, others):
        cat = ident[0] + ident[1]
        return any(o != ident and o[0] + o[1] == cat and o[2] == ident[2] for o in others)

    async def call(label, fn, *args):
        c = world.call(node['alice'], label, fn, *args)
        await c.task
        return c

    async def restart():
        """abandon the client (a crash, unless it was stopped), new client object on the same directory, load, judge"""
        crashed = node['alice'] is not None and not node['stopped']
        if node['alice'] is not None:
            world.keep_alive.append(node['alice'])          # abandoned, not collected
        node['generation'] += 1
        alice = world.add_client('alice', transfer_cache=TransferShelveCache(cache_dir))
        node['alice'] = alice
        node['stopped'] = False
        manager = alice.client.transfers
        world.trace('restart', node['generation'], crashed)
        if crashed:
            world.net.fired['crash_restart'] += 1
        if crashed and (any(rec['dirty'] for rec in live.values()) or removed_since_write):
            world.probe('crash_lost_unwritten_changes')
        c = await call(f"load{node['generation']}", manager.load_data)
        if c.outcome() != 'returned':
            world.violate('C17.set', what='load_raised', exc=type(c.exception).__name__ if c.exception else 'cancelled')
            live.clear()
            return
        judge(manager)
        removed_since_write.clear()

    def judge(manager):
        actual = list(manager.transfers)
        idents = [key_of(tr) for tr in actual]
        expected = {}
        for ident, rec in durable.items():
            exp = dict(rec)
            exp['written_state'] = rec['state']
            exp['state'] = G.after_restart(rec['state'], rec['filesize'], rec['bytes'])
            expected[ident] = exp
        # C17.set: same set, each once, removed ones absent
        counts = {}
        for ident in idents:
            counts[ident] = counts.get(ident, 0) + 1
        for ident in sorted(expected, key=repr):
            if ident not in counts:
                exp = expected[ident]
                world.violate('C17.set', what='missing', colliding=colliding(ident, expected), legacy=exp['legacy'],
                              legacy_key=exp['legacy_key'])
        for ident in sorted(counts, key=repr):
            if ident not in expected:
                world.violate('C17.set', what='extra', removed=ident in ever_removed,
                              removal_written=ident in ever_removed and ident not in removed_since_write,
                              colliding=colliding(ident, list(expected) + [ident]))
            if counts[ident] > 1:
                world.violate('C17.set', what='duplicate', n=counts[ident])
        this_load = []
        new_live = {}
        for tr in actual:
            ident = key_of(tr)
            if ident in new_live:
                continue
            exp = expected.get(ident)
            new_live[ident] = observed(tr, exp)
            if exp is None:
                continue
            loaded_state = tr.state.VALUE.name
            written = exp['written_state']
            facts = {'direction': ident[2], 'written_state': written, 'legacy': exp['legacy'],
                     'legacy_key': exp['legacy_key'], 'rewritten': exp['writes'] > 1}
            # C17.in_progress (and the state of everything else)
            if loaded_state in G.IN_PROGRESS:
                world.violate('C17.in_progress', what='still_in_progress', loaded_state=loaded_state, **facts)
            elif loaded_state != exp['state']:
                if written in G.IN_PROGRESS:
                    world.violate('C17.in_progress', what='wrong_repair', loaded_state=loaded_state,
                                  expected=exp['state'], progress=_progress_class(exp), **facts)
                else:
                    world.violate('C17.fields', field='state', loaded_state=loaded_state, **facts)
            # C17.fields
            got = {'local_path': tr.local_path, 'filesize': tr.filesize, 'bytes_transfered': tr.bytes_transfered,
                   'fail_reason': tr.fail_reason, 'abort_reason': tr.abort_reason}
            want = {'local_path': exp['local'], 'filesize': exp['filesize'], 'bytes_transfered': exp['bytes'],
                    'fail_reason': exp['fail_reason'], 'abort_reason': exp['abort_reason']}
            for f in FIELDS:
                if got[f] == want[f]:
                    continue
                if f == 'abort_reason' and want[f] is None and written == 'ABORTED' and got[f] == 'Requested':
                    world.probe('aborted_without_reason_loaded_as_requested')
                    continue
                world.violate('C17.fields', field=f, was_none=want[f] is None, is_none=got[f] is None, **facts)
            # C17.remote_flag
            if tr.remotely_queued is not False:
                world.violate('C17.remote_flag', value=repr(tr.remotely_queued)[:20], written_flag=exp['remotely_queued'],
                              **facts)
            this_load.append((written, ident[2], _progress_class(exp), exp['legacy'], loaded_state))
            if written in G.IN_PROGRESS:
                world.probe('in_progress_state_was_persisted')
            if exp['legacy']:
                world.probe('legacy_record_loaded')
            if written in G.IN_PROGRESS or exp['legacy'] or colliding(ident, expected) or exp['writes'] > 1:
                flags['nontrivial'] = True
        if expected and (ever_removed or flags['mutated']):
            flags['nontrivial'] = True
        live.clear()
        live.update(new_live)
        this_load.sort(key=repr)
        loads.append(this_load)
        world.trace('load', len(actual), this_load)

    async def do_step(i, step):
        op = step['op']
        if op == 'restart':
            await restart()
            sig_steps.append('restart')
            return
        if node['alice'] is None or node['stopped']:
            await restart()
        alice = node['alice']
        manager = alice.client.transfers
        if op == 'remove2' and max(step['t'], step['t2']) >= len(pool):
            return
        if op in ('add', 'mutate', 'remove') and step['t'] >= len(pool):
            return
        if op == 'add':
            rec = pool[step['t']]
            ident = _ident(rec)
            tr = build(rec)
            c = await call(f's{i}:add', manager.add, tr)
            if c.outcome() != 'returned':
                raise RuntimeError(f'add failed: {c.exception!r}')
            if ident not in live:
                live[ident] = model_rec(rec)
            sig_steps.append('add' if c.result is tr else 'add_existing')
        elif op == 'mutate':
            ident = _ident(pool[step['t']])
            tr = find(manager, ident)
            if tr is None or ident not in live:
                sig_steps.append('mutate_absent')
                return
            apply(tr, step.get('set', {}))
            rec = live[ident]
            for k, v in step.get('set', {}).items():
                rec[k] = local_abs(v) if k == 'local' else v
            rec['dirty'] = True
            flags['mutated'] = True
            sig_steps.append(('mutate', tuple(sorted(step.get('set', {})))))
        elif op == 'remove':
            ident = _ident(pool[step['t']])
            tr = find(manager, ident)
            if tr is None or ident not in live:
                sig_steps.append('remove_absent')
                return
            c = await call(f's{i}:remove', manager.remove, tr)
            if c.outcome() != 'returned':
                raise RuntimeError(f'remove failed: {c.exception!r}')
            del live[ident]
            ever_removed.add(ident)
            if ident in durable:
                removed_since_write.add(ident)
            sig_steps.append('remove')
        elif op == 'remove2':
            # two removals issued back-to-back and running concurrently: the first one (a download with a partial file,
            # deleted on a slow executor) is still busy while the second one completes
            idents = [_ident(pool[step['t']]), _ident(pool[step['t2']])]
            trs = [find(manager, ident) for ident in idents]
            if any(tr is None or ident not in live for tr, ident in zip(trs, idents)) or idents[0] == idents[1]:
                sig_steps.append('remove2_absent')
                return
            world.net.fired['concurrent_removals'] += 1
            calls = [world.call(node['alice'], f's{i}:remove2-{k}', manager.remove, tr) for k, tr in enumerate(trs)]
            for c in calls:
                await c.task
            for c in calls:
                if c.outcome() != 'returned':
                    world.violate('C17.set', what='remove_raised', exc=type(c.exception).__name__ if c.exception else 'cancelled')
            for ident in idents:
                del live[ident]
                ever_removed.add(ident)
                if ident in durable:
                    removed_since_write.add(ident)
            sig_steps.append('remove2')
        elif op == 'write':
            via = step.get('via', 'write_cache')
            if via == 'write_cache':
                async def fn():
                    manager.write_cache()
                c = await call(f's{i}:write_cache', fn)
            elif via == 'store_data':
                c = await call(f's{i}:store_data', manager.store_data)
            else:
                c = await call(f's{i}:stop', alice.client.stop)
                node['stopped'] = True
            if c.outcome() != 'returned':
                world.violate('C17.set', what='write_raised', via=via,
                              exc=type(c.exception).__name__ if c.exception else 'cancelled')
                return
            # what the manager holds becomes the durable image
            durable.clear()
            for ident, rec in live.items():
                rec['writes'] += 1
                rec['dirty'] = False
                rec['legacy'] = False       # rewritten by this version
                durable[ident] = dict(rec)
            removed_since_write.clear()
            sig_steps.append(('write', via))
        else:
            raise ValueError(op)
        world.trace('step', i, op)

    async def poke():
        """C17.listener: one accepted public operation per loaded transfer"""
        alice = node['alice']
        manager = alice.client.transfers
        manager_saw = []
        original = manager.on_transfer_state_changed

        async def spy(transfer, old, new):
            manager_saw.append((key_of(transfer), old.name, new.name))
            return await original(transfer, old, new)
        manager.on_transfer_state_changed = spy          # the manager object itself is the registered listener

        class Recorder:
            async def on_transfer_state_changed(self, transfer, old, new):
                seen.append((key_of(transfer), old.name, new.name))
        recorder = Recorder()
        order = [p for p in plan.get('poke', POKES) if p in POKES] or list(POKES)
        try:
            for tr in list(manager.transfers):
                ident = key_of(tr)
                state = tr.state.VALUE.name
                facts = {'direction': ident[2], 'loaded_state': state}
                registered = sum(1 for lst in tr.state_listeners if lst is manager)
                if registered != 1:
                    world.violate('C17.listener', **facts,
                                  what='manager_not_registered' if not registered else 'manager_registered_twice')
                tr.state_listeners.append(recorder)      # the way the library registers itself (TransferManager.add)
                accepted = [p for p in order if G.accepted(state, p, ident[2])]
                if not accepted:
                    continue
                op = accepted[0]
                want = (ident, state, G.target(op, ident[2]))
                n_rec, n_man = len(seen), len(manager_saw)
                c = await call(f'poke:{op}', getattr(manager, op), tr)
                if c.outcome() != 'returned':
                    refused = isinstance(c.exception, InvalidStateTransition)
                    world.violate('C17.listener', what='operation_refused' if refused else 'operation_raised', op=op,
                                  exc=type(c.exception).__name__ if c.exception else 'cancelled', **facts)
                    continue
                if seen[n_rec:] != [want]:
                    world.violate('C17.listener', op=op, **facts,
                                  what='listener_not_notified' if not seen[n_rec:] else 'listener_saw_other')
                if manager_saw[n_man:] != [want]:
                    world.violate('C17.listener', op=op, **facts,
                                  what='manager_not_notified' if not manager_saw[n_man:] else 'manager_saw_other')
                if tr.state.VALUE.name != want[2]:
                    world.violate('C17.listener', what='state_not_changed', op=op, **facts)
                world.trace('poke', op, state, tr.state.VALUE.name)
                world.probe('loaded_transfer_operated')
        finally:
            del manager.on_transfer_state_changed

    async def main():
        # the first client starts like every other: it loads what the directory holds (the legacy records)
        await restart()
        steps = plan.get('steps', [])
        for i, step in enumerate(steps):
            await do_step(i, step)
        if not steps or steps[-1]['op'] != 'restart':
            await restart()
        await poke()

    world.run(main())

    for rec in world.loop.exc_contexts:
        raise RuntimeError(f"loop exception handler called: {rec}")
    nontrivial = flags['nontrivial'] and any(loads)
    return common.finish(world, nontrivial, [sig_steps, loads, len(seen)])


SHAPES['synthetic'] = {'weight': 70, 'generate': generate_synthetic, 'corpus': corpus_synthetic,
                       'run': run_synthetic, 'axes': axes_synthetic}

# further shapes (live crash/restart runs) live in their own modules and register themselves in SHAPES on import
for _name in ('c17_live',):
    if importlib.util.find_spec(f'{__package__}.{_name}') is not None:
        importlib.import_module(f'{__package__}.{_name}')


if __name__ == '__main__':  # pragma: no cover
    import json
    import sys
    from sim import seams
    seams.install()
    rec = json.load(open(sys.argv[1]))
    res = run(rec.get('plan', rec))
    print(json.dumps(res['violations'], indent=1))
    print(res['probes'])

INFO['rule'] += ' Round-6 additions (live shape): the cache of the shares cannot be written during the graceful stop (shares_store_fails).'
