"""C17, live shape: a process end in the middle of a real transfer, then a new process.

Epoch 1 runs a real client with a TransferShelveCache against a scripted transfer peer.  At the
k-th state notification of the transfer the cache is made durable (explicit write_cache(), or
a graceful stop()), the run goes on for a while and the process is then killed at an exact
instant (SimCrash raised from a loop callback: no finally/__aexit__ of epoch 1 ever runs; file
objects still open get their descriptor pointed at /dev/null so buffered bytes are lost).
Epoch 2 is a fresh loop, server, peer and client on the same cache and download directories.
"""
from __future__ import annotations

import asyncio
import os

from aioslsk.events import TransferAddedEvent
from aioslsk.transfer.cache import TransferShelveCache
from aioslsk.transfer.model import TransferDirection

from sim.loop import SimCrash
from sim.world import World
from sim.xfer import XferPeer, pattern_bytes
from . import common
from . import c17

B_LIVE = 900.0
FIELDS = ('local_path', 'filesize', 'fail_reason', 'abort_reason')


def live_plan(direction='down', size=40000, crash_at=3, write='explicit', write_at=None, seed=1, **kw):
    plan = {'seed': seed, 'shape': 'live', 'net': {'base_ms': 5, 'jitter_ms': 0, 'segmentation': 'whole', 'coalesce': True},
            'exec': {'delay_ms': [0, 1]}, 'dir': direction, 'size': size, 'crash_at': crash_at, 'crash_plus': 0.0,
            'write': write, 'write_at': crash_at if write_at is None else write_at, 'downtime': 5.0,
            'cut': None, 'chunk_delay': 0.002}
    plan.update(kw)
    return plan


def corpus_live(tier):
    out = []
    for direction in ('down', 'up'):
        for k in range(0, 7):
            out.append(live_plan(direction, crash_at=k, write='explicit'))          # durable image = state k
            out.append(live_plan(direction, crash_at=k, write='stop'))              # graceful stop at state k
            if k in (1, 3):
                out.append(live_plan(direction, crash_at=k, write='stop', shares_store_fails=True))
            if k >= 1:
                out.append(live_plan(direction, crash_at=k, write='explicit', write_at=k - 1))   # image one state older
        out.append(live_plan(direction, crash_at=2, write='none'))
        out.append(live_plan(direction, crash_at=99, write='explicit'))
    # the peer is unreachable until the process ends (failed remote-queue attempts are part of the image); the new process
    # runs with the same clock / after a reboot
    for reboot in (False, True):
        for write in ('explicit', 'stop'):
            out.append(live_plan('down', crash_at=5 if write == 'explicit' else 0, write=write, unreachable=True, reboot=reboot))
    # an interrupted first attempt so that INCOMPLETE is reachable, then the crash
    for k in range(3, 8):
        out.append(live_plan('down', crash_at=k, write='explicit', cut=9000))
    return out


def generate_live(rng, index, tier):
    direction = rng.choice(('down', 'down', 'up'))
    k = rng.choice(list(range(0, 8)) + [99])
    write = rng.choice(('explicit', 'explicit', 'stop', 'none'))
    plan = live_plan(direction, size=rng.choice([1, 3000, 40000, 120000]), crash_at=k, write=write,
                     write_at=rng.randint(0, k if k != 99 else 6), seed=rng.getrandbits(32),
                     crash_plus=rng.choice([0.0, 0.0, 0.001, 0.05, 1.0]), downtime=rng.choice([0.0, 5.0, 700.0]),
                     cut=rng.choice([None, None, 100, 9000]) if direction == 'down' else None,
                     chunk_delay=rng.choice([0.0, 0.002, 0.02]))
    plan['net'] = common.draw_net(rng)
    plan['exec'] = {'delay_ms': [0, rng.choice([1, 5, 30])]}
    if direction == 'down' and rng.random() < 0.15:
        plan['unreachable'] = True
    if rng.random() < 0.2:
        plan['reboot'] = True
    if plan['write'] == 'stop' and rng.random() < 0.3:
        plan['shares_store_fails'] = True
    return plan


def axes_live(tier):
    return {'crash_at_state_notification': {'size': 2 * 7 * 2, 'exhaustive': True,
                                           'axes': 'direction x crash at the k-th state notification (k = 0..6) x image by explicit write / graceful stop'}}


def snapshot(transfers):
    out = []
    for t in transfers:
        out.append({'user': t.username, 'path': t.remote_path, 'direction': t.direction.name,
                    'state': t.state.VALUE.name, 'bytes': t.bytes_transfered,
                    **{f: getattr(t, f, None) for f in FIELDS}})
    return out


def run_live(plan):
    try:
        return _run_live(plan)
    finally:
        # the frames of the dead process are only unreachable now: finalise them quietly (their
        # finally blocks meet a closed loop, which CPython reports through sys.unraisablehook)
        import gc
        import sys
        hook = sys.unraisablehook
        sys.unraisablehook = lambda *a, **k: None
        try:
            gc.collect()
        finally:
            sys.unraisablehook = hook


def _run_live(plan):
    w1 = World(plan, 'C17')
    sandbox = w1.sandbox
    opened = []
    import aiofiles.threadpool as atp
    orig_open = atp.sync_open

    def tracking_open(*args, **kwargs):
        f = orig_open(*args, **kwargs)
        opened.append(f)
        return f
    atp.sync_open = tracking_open
    keep = [w1]
    try:
        image, info = _epoch1(w1, plan)
        # the dying process: buffered bytes of files it still had open are lost
        lost = 0
        if info.get('crashed'):
            devnull = os.open(os.devnull, os.O_WRONLY)
            for f in opened:
                try:
                    if not f.closed:
                        os.dup2(devnull, f.fileno())
                        lost += 1
                        f.close()
                except (OSError, ValueError):
                    pass
            os.close(devnull)
        opened.clear()
        t_resume = w1.now + plan.get('downtime', 5.0)
        fired1 = dict(w1.net.fired)
        probes1 = dict(w1.probes)
        # abandon epoch 1 without running any of its finally blocks now; keep it referenced until the end
        w1._sandbox = None
        import gc
        for task in asyncio.all_tasks(w1.loop):
            keep.append(task)
        plan2 = dict(plan, seed=plan['seed'] + 1)
        w2 = World(plan2, 'C17')
        w2._sandbox = sandbox
        if plan.get('reboot'):
            # the machine was rebooted: the monotonic clock of the new process starts far below the old one's readings
            t_resume = 50.0
            w2.net.fired['clock_restarted_below_old_readings'] += 1
        w2.loop._now = t_resume
        w2.loop.max_time = t_resume + 20000.0
        try:
            for k, v in probes1.items():
                w2.probe(k, v)
            res = _epoch2(w2, plan, image, info, lost, fired1)
        finally:
            w2.close()
        return res
    finally:
        atp.sync_open = orig_open
        if w1._sandbox is not None:
            # epoch 1 failed before the hand-over
            pass
        w1._sandbox = None
        # the coroutines of the dead process are finalised now: their finally blocks meet a closed loop
        import sys
        import gc
        hook = sys.unraisablehook
        sys.unraisablehook = lambda *a, **k: None
        try:
            w1.close(abandon=True)
            keep.clear()
            w1 = None
            gc.collect()
        except Exception:
            pass
        finally:
            sys.unraisablehook = hook
        if sandbox is not None:
            sandbox.cleanup()


def _world_setup(world, plan, epoch):
    server = world.add_server()
    size = plan['size']
    share_dir = world.sandbox.sub('alice', 'share')
    source = pattern_bytes(size, 5)
    path_up = os.path.join(share_dir, 'data.bin')
    if not os.path.exists(path_up):
        with open(path_up, 'wb') as fh:
            fh.write(source)
    cache_dir = world.sandbox.sub('alice', 'cache')
    alice = world.add_client('alice', overrides={
        'shares': {'scan_on_start': epoch == 2, 'directories': [{'path': share_dir}]},
    }, transfer_cache=TransferShelveCache(cache_dir))
    bob = XferPeer(world, 'bob')
    bob.attach(alice)
    if epoch == 1 and plan.get('unreachable'):
        # the peer cannot be reached during the whole first epoch: every remote-queue attempt fails
        def connect_hook(attempt):
            if attempt['src'] == 'alice' and attempt['dst'] == 'bob':
                world.net.fired['peer_unreachable_before_the_crash'] += 1
                return ('refuse', 0.02)
            return None
        world.net.connect_hook = connect_hook
    return server, alice, bob, source


def _epoch1(world: World, plan):
    loop = world.loop
    server, alice, bob, source = _world_setup(world, plan, 1)
    client = alice.client
    tm = client.transfers
    direction = plan['dir']
    state = {'n': 0, 'image': None, 'image_at': None, 'transfer': None, 'crash_armed': False, 'stopping': False}
    info = {'crashed': False, 'states': []}

    def crash():
        info['crashed'] = True
        info['crash_time'] = loop.time()
        world.net.fired['crash_restart'] += 1
        raise SimCrash()

    class Listener:
        async def on_transfer_state_changed(self, transfer, old, new):
            k = state['n']
            state['n'] += 1
            info['states'].append(new.name)
            if plan['write'] == 'explicit' and k == plan['write_at']:
                tm.write_cache()
                state['image'] = snapshot(tm.transfers)
                state['image_at'] = new.name
                world.probe('image_state_' + new.name)
            if k == plan['crash_at'] and not state['crash_armed']:
                state['crash_armed'] = True
                if plan['write'] == 'stop':
                    state['stopping'] = True
                else:
                    loop.call_later(plan.get('crash_plus', 0.0), crash)
    listener = Listener()
    world.keep_alive.append(listener)

    def hook(event):
        if isinstance(event, TransferAddedEvent) and state['transfer'] is None:
            state['transfer'] = event.transfer
            event.transfer.state_listeners.append(listener)
    alice.recorder.hooks.append(hook)
    remote = {}

    async def main():
        await world.start_client(alice)
        c = world.call(alice, 'scan', client.shares.scan)
        await c.task
        await asyncio.sleep(0.3)
        if direction == 'down':
            path = '@@bob\\music\\data.bin'
            remote['path'] = path
            beh = {'chunk': 4096, 'chunk_delay': plan.get('chunk_delay', 0.002)}
            if plan.get('cut') is not None:
                beh['send_bytes'] = plan['cut']
                beh['after_send'] = 'abort'
                beh['on_queue'] = 'start'
            bob.share(path, source, **beh)
            if plan.get('cut') is not None:
                # only the first attempt is cut
                orig = bob._ul_send_file

                async def once(ul, b, ticket, orig=orig):
                    await orig(ul, b, ticket)
                    bob.ul_beh[path].pop('send_bytes', None)
                    bob.ul_beh[path]['after_send'] = 'wait_close'
                bob._ul_send_file = once
            c = world.call(alice, 'download', tm.download, 'bob', path)
            await c.task
        else:
            item = next(iter(client.shares.shared_directories[0].items))
            remote['path'] = item.get_remote_path()
            bob.want(remote['path'])
            bob.peer.spawn(bob.request_file(remote['path']))
        t_end = loop.time() + 120.0
        while loop.time() < t_end:
            await asyncio.sleep(0.01 if state['stopping'] else 0.25)
            if state['stopping']:
                # graceful process end: stop() writes the cache
                if plan.get('shares_store_fails'):
                    # the disk is full for the cache of the shares (another service, stored by the same stop()): stop() fails,
                    # the transfers are stored all the same
                    def no_space(*a, **kw):
                        world.disk.fired['shares_cache_write_failed'] += 1
                        raise OSError(28, 'No space left on device')
                    client.shares.cache.write = no_space
                c = world.call(alice, 'stop', client.stop)
                await c.task
                state['image'] = None     # read below from what stop() persisted: the list at that time
                info['stopped'] = True
                return
            if plan['crash_at'] == 99 and state['transfer'] is not None and \
                    state['transfer'].state.VALUE.name in ('COMPLETE', 'FAILED'):
                if plan['write'] == 'explicit':
                    tm.write_cache()
                    state['image'] = snapshot(tm.transfers)
                loop.call_later(plan.get('crash_plus', 0.0), crash)
                await asyncio.sleep(5.0)
        # the crash trigger was never reached (fewer notifications than k): end the process now
        if plan['write'] == 'explicit' and state['image'] is None:
            tm.write_cache()
            state['image'] = snapshot(tm.transfers)
        loop.call_soon(crash)
        await asyncio.sleep(1.0)

    try:
        world.run(main())
    except SimCrash:
        pass
    if info.get('stopped'):
        state['image'] = snapshot(tm.transfers)
    info['remote'] = remote.get('path')
    info['source'] = source
    return state['image'], info


def _epoch2(world: World, plan, image, info, lost, fired1):
    loop = world.loop
    server, alice, bob, source = _world_setup(world, plan, 2)
    client = alice.client
    tm = client.transfers
    direction = plan['dir']
    results = {}
    watch = {'states': []}

    class Listener:
        async def on_transfer_state_changed(self, transfer, old, new):
            watch['states'].append((loop.time(), old.name, new.name))
    listener = Listener()
    world.keep_alive.append(listener)

    async def main():
        # the peer is ready before the client comes back
        path = info['remote']
        if direction == 'down' and path:
            bob.share(path, source, chunk=8192)
        # read the cache back first, on its own: this is the image the statement speaks about
        c = world.call(alice, 'load', tm.load_data)
        await c.task
        results['loaded'] = snapshot(tm.transfers)
        results['loaded_objs'] = list(tm.transfers)
        for t in tm.transfers:
            t.state_listeners.append(listener)
        results['remote_flags'] = [t.remotely_queued for t in tm.transfers]
        # then the normal start-up (the start-up scan makes the shared files known again)
        c = world.call(alice, 'start', client.start)
        await c.task
        c = world.call(alice, 'login', client.login)
        await c.task
        if direction == 'up' and path:
            bob.want(path)
            await asyncio.sleep(1.0)
            bob.peer.spawn(bob.request_file(path))
        t_end = loop.time() + B_LIVE
        while loop.time() < t_end:
            await asyncio.sleep(2.0)
            if tm.transfers and all(t.state.VALUE.name in ('COMPLETE', 'FAILED', 'ABORTED', 'PAUSED') for t in tm.transfers):
                break
        await asyncio.sleep(1.0)

    world.run(main())

    loaded = results.get('loaded', [])
    image = image or []
    facts0 = {'write': plan['write'], 'direction': direction}
    key = lambda r: (r['user'], r['path'], r['direction'])
    want = {key(r): r for r in image}
    got = {}
    for r in loaded:
        if key(r) in got:
            world.violate('C17.set', what='duplicate', **facts0)
        got[key(r)] = r
    for k in want:
        if k not in got:
            world.violate('C17.set', what='missing', image_state=want[k]['state'], **facts0)
    for k in got:
        if k not in want:
            world.violate('C17.set', what='extra', loaded_state=got[k]['state'], **facts0)
    for k, w in want.items():
        g = got.get(k)
        if g is None:
            continue
        exp_state = w['state']
        if exp_state == 'INITIALIZING':
            exp_state = 'QUEUED'
        elif exp_state in ('DOWNLOADING', 'UPLOADING'):
            exp_state = 'COMPLETE' if (w['filesize'] is not None and w['bytes'] == w['filesize']) else 'INCOMPLETE'
        if g['state'] in ('INITIALIZING', 'DOWNLOADING', 'UPLOADING'):
            world.violate('C17.in_progress', loaded_state=g['state'], image_state=w['state'], **facts0)
        elif g['state'] != exp_state:
            world.violate('C17.in_progress' if w['state'] in ('INITIALIZING', 'DOWNLOADING', 'UPLOADING') else 'C17.fields',
                          field='state', loaded_state=g['state'], image_state=w['state'], **facts0)
        for f in FIELDS:
            if g[f] != w[f]:
                world.violate('C17.fields', field=f, image_state=w['state'], **facts0)
        if g['bytes'] != w['bytes']:
            world.violate('C17.fields', field='bytes_transfered', image_state=w['state'], **facts0)
    if any(results.get('remote_flags', [])):
        world.violate('C17.remote_flag', **facts0)
    # liveness: what was loaded unfinished is picked up and finishes, byte-identical
    for t in results.get('loaded_objs', []):
        k = (t.username, t.remote_path, t.direction.name)
        loaded_state = got[k]['state']
        final = t.state.VALUE.name
        if loaded_state in ('QUEUED', 'INCOMPLETE'):
            if final != 'COMPLETE':
                world.violate('C17.schedule', loaded_state=loaded_state, final=final, **facts0,
                              image_state=want.get(k, {}).get('state'))
            elif t.direction == TransferDirection.DOWNLOAD:
                try:
                    with open(t.local_path, 'rb') as fh:
                        data = fh.read()
                except (OSError, TypeError):
                    data = None
                if data != info['source']:
                    world.violate('C17.schedule', what='finished file differs from the source', loaded_state=loaded_state,
                                  **facts0, shorter=(data is not None and len(data) < len(info['source'])))
    if results.get('loaded_objs') and not watch['states'] and any(
            got[(t.username, t.remote_path, t.direction.name)]['state'] in ('QUEUED', 'INCOMPLETE')
            for t in results['loaded_objs']):
        world.violate('C17.listener', what='no state change of a loaded transfer was reported', **facts0)
    for rec in world.loop.exc_contexts:
        world.violate('C17.schedule', what='loop exception handler', exc=rec.get('exc_type'), coro=rec.get('coro'))
        break
    if lost:
        world.probe('open_file_lost_its_buffer_at_crash')
    if image:
        world.probe('image_nonempty')
    for k, v in fired1.items():
        world.net.fired[k] += v
    sig = ['live', direction, plan['write'], [r['state'] for r in image], [r['state'] for r in loaded],
           [s[2] for s in watch['states']][:8], bool(plan.get('cut'))]
    return common.finish(world, True, sig)


def simplify_live(plan):
    if plan.get('cut') is not None:
        yield dict(plan, cut=None)
    if plan.get('crash_plus'):
        yield dict(plan, crash_plus=0.0)
    if plan.get('downtime') != 5.0:
        yield dict(plan, downtime=5.0)
    if plan.get('size') != 3000:
        yield dict(plan, size=3000)


c17.SHAPES['live'] = {'weight': 30, 'generate': generate_live, 'corpus': corpus_live, 'run': run_live,
                      'axes': axes_live, 'simplify': simplify_live}
