"""C18 - search results reach only live requests; removal and timeouts are exact.

Two plan shapes.

``search``  one real client logged in to the scripted server, 1..2 scripted peers that open a
fresh P connection per reply (the client closes a P connection after a search reply, by
design) and deliver ``PeerSearchReply`` frames.  The plan is a set of operations with symbolic
instants (absolute, or relative to the send / deadline instant of a request or to another
operation): ``search`` / ``search_room`` / ``search_user``, wishlist rounds driven by the
settings and the server's ``WishlistInterval``, ``remove_request``, replies (matching,
duplicate, stale, unknown ticket), a repeated ``WishlistInterval`` and settings changes.  The
oracle is the live-ticket model of DESIGN.md B.4 (``models/tickets.py``) evaluated over the
observed history.

``timer``  the public ``aioslsk.tasks.Timer`` driven directly on the virtual-time loop: start,
cancel, reschedule, cancel after reschedule, around the expiry iteration; judged by the
deadline model in ``models/tickets.py``.
"""
from __future__ import annotations

import asyncio
import gc

from aioslsk.protocol import messages as M
from aioslsk.protocol.primitives import FileData
from aioslsk.events import (
    MessageReceivedEvent,
    SearchRequestRemovedEvent,
    SearchRequestSentEvent,
    SearchResultEvent,
)
from aioslsk.network.connection import ServerConnection
from aioslsk.settings import WishlistSettingEntry
from aioslsk.tasks import Timer
import aioslsk.client  # noqa: F401  (everything imported before the heap is frozen below)

from sim import seams
from sim.world import World
from models.tickets import EPS, TicketModel, TimerModel
from . import common

PROPERTY = 'C18'
INFO = {
    'level': 'exploration',
    'rule': ('search plans = 1..4 explicit searches (network / room / user) + wishlist rounds (0..2 items, server '
             'interval 5..30 s or none) under request timeout {0, 1, 2, 5} s and wishlist timeout {-1 = server '
             'interval, 0, 1, 3} s x manual removals x replies U{matching 50, duplicate 15, after removal 15, unknown '
             'ticket 10, after timeout 10} x repeated WishlistInterval x settings changes; removal / expiry / reply '
             'placed 1 ns apart in all six orders and at one instant (0..3 loop iterations apart) as an enumerated '
             'corpus; timer plans = start / cancel / reschedule sequences placed around the expiry iteration. '
             'non-trivial = a reply was delivered for a request that had ended, or in the instant a live interval '
             'started/ended, or a request with a timer was removed by hand, or (timer) a deadline was superseded; '
             'distinct = signature over (request types and timeouts, per reply: status and whether it was reported, '
             'removal/expiry order, wishlist interval changes, timer expectations)'),
    'real': common.REAL,
    'stub': common.STUB,
    'assumptions': [
        'scripted server/peers encode frames with aioslsk message classes (codec is trusted base)',
        'a reply counts as delivered when MessageReceivedEvent for it reaches the event bus (a listener registered '
        'through the public EventBus.register with a priority ahead of the managers records the instant)',
        'the timeout of a request is the setting in force at the instant SearchRequestSentEvent is emitted; for '
        'wishlist_request_timeout = -1 the interval of the last WishlistInterval delivered (a change in the same '
        'instant makes both values admissible)',
        'events in the same virtual instant (<= 0.5 ns) as the send, a manual removal or an expiry may go either way '
        'for the event that ties',
        'remove_request for a request that is no longer registered may raise to its caller (not an error of C18)',
        'ticket wrap-around at 2**32 is out of reach of a simulated session and is not exercised',
    ],
}
INFO['rule'] += ' Later additions: (25 %) an application listener that is slow while a peer connection closes; a result is also judged at the instant it is reported.'

# The verdict needs one full collection per run ("exception never retrieved" of tasks caught in
# cycles).  A full collection walks every tracked object, most of which are import-time objects
# of pydantic / aioslsk (~30 ms); moving those to the permanent generation once per process keeps
# the per-run collection at ~1 ms.  Nothing created by a run is ever frozen.
gc.collect()
gc.freeze()

PEERS = ('bob', 'carol')
KINDS = ('net', 'room', 'user')
PROBE_USER = 'c18probe'
PRECISE_NET = {'base_ms': 5, 'jitter_ms': 0, 'segmentation': 'whole', 'coalesce': True}
NS = 1e-9
NO_DEADLINE_STANDIN = 2.0     # 'deadline' anchor of a request without timeout: sent + this


# ----------------------------------------------------------------------------- generator

def _reply(nid, target, when, peer=0, **kw):
    op = {'id': nid, 'op': 'reply', 'target': target, 'when': when, 'peer': peer}
    op.update(kw)
    return op


def generate(rng, index, tier):
    if rng.random() < 0.15:
        return _generate_timer(rng)
    precise = rng.random() < 0.6
    if precise:
        net = dict(PRECISE_NET, base_ms=rng.choice([1, 5, 20]), coalesce=rng.random() < 0.6)
    else:
        net = common.draw_net(rng)
    request_timeout = rng.choice([0, 1, 2, 5])
    wishlist_timeout = rng.choice([-1, -1, 0, 1, 3])
    interval = None if rng.random() < 0.08 else rng.choice([5, 7, 10, 30])
    wishlist = list(rng.choice([[], ['w0'], ['w0'], ['w0', 'w1']]))
    span = rng.choice([4.0, 8.0, 15.0])
    npeers = rng.randint(1, 2)
    ops = []
    counter = [0]

    def nid():
        counter[0] += 1
        return counter[0]

    keys = []
    for _ in range(rng.randint(1, 4)):
        at = rng.choice([0.0, 0.5, 1.0]) if rng.random() < 0.3 else round(rng.uniform(0.0, span), 3)
        i = nid()
        ops.append({'id': i, 'op': 'search', 'kind': rng.choice(KINDS), 'when': ['t0', at]})
        keys.append(['req', i])
    if wishlist and interval is not None:
        rounds = min(3, int((span + 1.0) // interval) + 1)
        for r in range(rounds):
            for q in wishlist:
                if rng.random() < 0.7:
                    keys.append(['wish', r, q])
    keys = keys[:6]

    for key in keys:
        removal = None
        if rng.random() < 0.4:
            shape = rng.choice(['early', 'early', 'before_ns', 'at', 'after_ns', 'after'])
            when = {
                'early': ['sent', key, rng.choice([0.0, 0.001, 0.3, 0.7, 1.5])],
                'before_ns': ['deadline', key, -NS],
                'at': ['deadline', key, 0.0],
                'after_ns': ['deadline', key, NS],
                'after': ['deadline', key, rng.choice([0.01, 0.5])],
            }[shape]
            removal = {'id': nid(), 'op': 'remove', 'target': key, 'when': when,
                       'hops': rng.randint(0, 3), 'by': rng.choice(['object', 'object', 'ticket'])}
            ops.append(removal)
        for _ in range(rng.choice([0, 1, 1, 2, 3])):
            r = rng.random()
            peer = rng.randrange(npeers)
            obf = rng.random() < 0.2
            if r < 0.50:        # matching
                ops.append(_reply(nid(), key, ['sent', key, rng.choice([0.01, 0.1, 0.4, 0.9])], peer, obf=obf))
            elif r < 0.65:      # duplicate
                when = ['sent', key, rng.choice([0.05, 0.5])]
                if rng.random() < 0.5:
                    ops.append(_reply(nid(), key, when, peer, burst=rng.randint(2, 3), obf=obf))
                else:
                    ops.append(_reply(nid(), key, when, peer, obf=obf))
                    ops.append(_reply(nid(), key, [when[0], when[1], when[2] + rng.choice([0.0, NS, 0.001, 0.3])],
                                      rng.randrange(npeers)))
            elif r < 0.80:      # after (or around) the manual removal
                if removal is not None:
                    ops.append(_reply(nid(), key, ['op', removal['id'], rng.choice([-NS, 0.0, NS, 0.01, 0.5, 2.0])],
                                      peer, obf=obf))
                else:
                    ops.append(_reply(nid(), key, ['sent', key, rng.choice([0.2, 1.2])], peer, obf=obf))
            elif r < 0.90:      # ticket nobody asked for
                ops.append(_reply(nid(), rng.choice([['unknown'], ['next'], ['literal', 0]]),
                                  ['sent', key, rng.choice([0.05, 0.6])], peer, obf=obf))
            else:               # around / after the timeout
                ops.append(_reply(nid(), key, ['deadline', key, rng.choice([-NS, 0.0, NS, 0.2, 1.0])], peer, obf=obf))
    if interval is not None and rng.random() < 0.3:
        ops.append({'id': nid(), 'op': 'interval', 'value': rng.choice([interval, interval, 5, 7]),
                    'when': ['t0', round(rng.uniform(0.2, span), 3)]})
    if interval is None and rng.random() < 0.7:
        ops.append({'id': nid(), 'op': 'interval', 'value': rng.choice([5, 7]),
                    'when': ['t0', round(rng.uniform(0.2, span / 2), 3)]})
    if rng.random() < 0.2:
        op = {'id': nid(), 'op': 'settings', 'when': ['t0', round(rng.uniform(0.2, span), 3) + 0.0137]}
        if rng.random() < 0.7:
            op['request_timeout'] = rng.choice([0, 1, 3])
        if rng.random() < 0.5:
            op['wishlist_timeout'] = rng.choice([-1, 0, 2])
        if rng.random() < 0.3:
            op['wishlist'] = list(rng.choice([[], ['w0'], ['w0', 'w1']]))
        ops.append(op)
    horizon = span + 7.0
    if wishlist and interval and wishlist_timeout == -1 and rng.random() < 0.5:
        horizon = max(horizon, interval + 2.0)
    relogin = {}
    if rng.random() < 0.15:
        relogin = {'relogin': round(rng.uniform(0.2, span), 3)}
    return {
        **relogin,
        'slow_close': rng.choice([0.05, 0.5, 2.0]) if rng.random() < 0.25 else 0,
        'slow_removed': rng.choice([0.05, 0.5, 2.0]) if rng.random() < 0.2 else 0,
        'slow_sent': rng.choice([0.05, 0.5, 1.5]) if rng.random() < 0.15 else 0,
        'shape': 'search', 'seed': rng.getrandbits(32), 'net': net, 'precise': precise,
        'settings': {'request_timeout': request_timeout, 'wishlist_timeout': wishlist_timeout,
                     'store': rng.random() < 0.8},
        'wishlist': wishlist, 'interval': interval, 'peers': npeers, 'ops': ops, 'horizon': horizon,
    }


def _generate_timer(rng):
    timeout = rng.choice([0.5, 1.0, 2.0])
    steps = [{'op': 'start', 'wait': ['rel', 0.1], 'hops': 0}]
    last = 'start'
    for _ in range(rng.randint(1, 6)):
        if rng.random() < 0.5:
            wait = ['deadline', rng.choice([-NS, 0.0, 0.0, NS, -0.3, 0.3])]
        else:
            wait = ['rel', rng.choice([0.0, 0.05, 0.25, 0.75, 1.5]) * timeout]
        if last == 'cancel' or (wait[0] == 'deadline' and wait[1] > 0):
            op = rng.choice(['start', 'start', 'reschedule', 'cancel'])
        else:
            op = rng.choice(['cancel', 'cancel', 'reschedule', 'reschedule', 'reschedule'])
        step = {'op': op, 'wait': wait, 'hops': rng.randint(0, 3)}
        if op == 'reschedule' and rng.random() < 0.5:
            step['timeout'] = rng.choice([0.5, 1.0, 3.0])
        steps.append(step)
        last = op
    cb = rng.choice(['instant', 'instant', 'instant', 'slow', 'rearm'])
    return {'shape': 'timer', 'seed': rng.getrandbits(32), 'timeout': timeout, 'steps': steps, 'cb': cb,
            'rearm': rng.randint(1, 2) if cb == 'rearm' else 0, 'cb_delay': 0.3}


# ------------------------------------------------------------------------------- corpus

def _tie_plan(kind, r_ns, p_ns, hops=0, wishlist_timeout=-1):
    """One request whose manual removal (R), expiry (E) and reply (P) are placed r_ns / 0 / p_ns
    nanoseconds around the deadline; a second, longer-lived request runs alongside."""
    if kind == 'wish':
        key = ['wish', 0, 'w0']
        settings = {'request_timeout': 0, 'wishlist_timeout': wishlist_timeout, 'store': True}
        ops = [{'id': 4, 'op': 'search', 'kind': 'net', 'when': ['t0', 0.7]}]
        wishlist, horizon = ['w0'], 8.0
    else:
        key = ['req', 1]
        settings = {'request_timeout': 2, 'wishlist_timeout': 0, 'store': True}
        ops = [{'id': 1, 'op': 'search', 'kind': kind, 'when': ['t0', 0.5]},
               {'id': 4, 'op': 'search', 'kind': 'net', 'when': ['t0', 1.7]}]
        wishlist, horizon = [], 6.0
    if r_ns is not None:
        ops.append({'id': 2, 'op': 'remove', 'target': key, 'when': ['deadline', key, r_ns * NS],
                    'hops': hops, 'by': 'object'})
    if p_ns is not None:
        ops.append(_reply(3, key, ['deadline', key, p_ns * NS]))
    # control traffic: a reply for the other request in the instant of the deadline and one later
    ops.append(_reply(5, ['req', 4], ['deadline', key, 0.0], 1))
    ops.append(_reply(6, key, ['deadline', key, 0.5], 1))
    return {'shape': 'search', 'seed': 7, 'net': dict(PRECISE_NET), 'precise': True, 'settings': settings,
            'wishlist': wishlist, 'interval': 5, 'peers': 2, 'ops': ops, 'horizon': horizon}


def _tie_grid(tier):
    out = []
    offsets = (-2, -1, 0, 1, 2)
    strict_orders = [(-2, -1), (-1, -2), (-1, 1), (1, -1), (1, 2), (2, 1)]   # (R, P) around E = 0
    for kind in ('net', 'wish'):
        for r in (None,) + offsets:
            for p in offsets:
                for hops in ((0, 1, 3) if r == 0 else (0,)):
                    out.append(_tie_plan(kind, r, p, hops))
    for kind in ('room', 'user'):
        for r, p in strict_orders + [(0, 0)]:
            out.append(_tie_plan(kind, r, p, 0))
    for r, p in strict_orders + [(0, 0)]:
        out.append(_tie_plan('wish', r, p, 0, wishlist_timeout=2))
    return out


def _timer_plan(steps, timeout=1.0, cb='instant', rearm=0):
    return {'shape': 'timer', 'seed': 3, 'timeout': timeout, 'steps': steps, 'cb': cb, 'rearm': rearm,
            'cb_delay': 0.3}


def _timer_corpus():
    S = {'op': 'start', 'wait': ['rel', 0.1], 'hops': 0}
    out = [
        _timer_plan([S]),
        _timer_plan([S, {'op': 'cancel', 'wait': ['rel', 0.5], 'hops': 0}]),
        _timer_plan([S, {'op': 'reschedule', 'wait': ['rel', 0.5], 'hops': 0}]),
        _timer_plan([S, {'op': 'reschedule', 'wait': ['rel', 0.5], 'hops': 0, 'timeout': 3.0}]),
        # cancel after reschedule (the new deadline must stay quiet)
        _timer_plan([S, {'op': 'reschedule', 'wait': ['rel', 0.5], 'hops': 0},
                     {'op': 'cancel', 'wait': ['rel', 0.5], 'hops': 0}]),
        _timer_plan([S, {'op': 'reschedule', 'wait': ['rel', 0.5], 'hops': 0},
                     {'op': 'cancel', 'wait': ['rel', 0.0], 'hops': 0}]),
        _timer_plan([S, {'op': 'reschedule', 'wait': ['rel', 0.5], 'hops': 0},
                     {'op': 'reschedule', 'wait': ['rel', 0.5], 'hops': 0},
                     {'op': 'cancel', 'wait': ['rel', 0.5], 'hops': 0}]),
        _timer_plan([S, {'op': 'cancel', 'wait': ['rel', 0.5], 'hops': 0},
                     {'op': 'start', 'wait': ['rel', 0.2], 'hops': 0}]),
        _timer_plan([S, {'op': 'cancel', 'wait': ['rel', 0.5], 'hops': 0},
                     {'op': 'reschedule', 'wait': ['rel', 0.2], 'hops': 0},
                     {'op': 'cancel', 'wait': ['rel', 0.2], 'hops': 0}]),
        # periodic use: the callback re-arms the timer, the user cancels later
        _timer_plan([S, {'op': 'cancel', 'wait': ['rel', 1.5], 'hops': 0}], cb='rearm', rearm=1),
        _timer_plan([S, {'op': 'cancel', 'wait': ['rel', 2.5], 'hops': 0}], cb='rearm', rearm=2),
        _timer_plan([S, {'op': 'reschedule', 'wait': ['rel', 1.2], 'hops': 0}], cb='slow'),
    ]
    for op in ('cancel', 'reschedule'):
        for delta in (-NS, 0.0, NS):
            for hops in (0, 1, 2, 3):
                steps = [S, {'op': op, 'wait': ['deadline', delta], 'hops': hops}]
                out.append(_timer_plan(steps))
                out.append(_timer_plan(steps + [{'op': 'cancel', 'wait': ['rel', 0.5], 'hops': 0}]))
                out.append(_timer_plan(steps + [{'op': 'start', 'wait': ['rel', 0.5], 'hops': 0},
                                                {'op': 'cancel', 'wait': ['rel', 0.5], 'hops': 0}]))
    return out


def _directed():
    base = {'shape': 'search', 'seed': 11, 'net': dict(PRECISE_NET), 'precise': True, 'peers': 2,
            'wishlist': [], 'interval': 10, 'horizon': 8.0}
    S2 = {'request_timeout': 2, 'wishlist_timeout': -1, 'store': True}
    S0 = {'request_timeout': 0, 'wishlist_timeout': 0, 'store': True}
    out = []
    for kind in KINDS:
        # matching reply, duplicate on a second connection, a burst on one connection, reply after the timeout
        out.append(dict(base, settings=S2, ops=[
            {'id': 1, 'op': 'search', 'kind': kind, 'when': ['t0', 0.5]},
            _reply(2, ['req', 1], ['sent', ['req', 1], 0.3]),
            _reply(3, ['req', 1], ['sent', ['req', 1], 0.3], 1),
            _reply(4, ['req', 1], ['sent', ['req', 1], 0.8], burst=3),
            _reply(5, ['req', 1], ['deadline', ['req', 1], 0.7])]))
        # timeout off: a late reply is still reported, nothing is ever removed
        out.append(dict(base, settings=S0, ops=[
            {'id': 1, 'op': 'search', 'kind': kind, 'when': ['t0', 0.5]},
            _reply(2, ['req', 1], ['sent', ['req', 1], 6.0])]))
        # manual removal, reply after it, then the old deadline passes
        for by in ('object', 'ticket'):
            out.append(dict(base, settings=S2, ops=[
                {'id': 1, 'op': 'search', 'kind': kind, 'when': ['t0', 0.5]},
                {'id': 2, 'op': 'remove', 'target': ['req', 1], 'when': ['sent', ['req', 1], 0.5], 'hops': 0, 'by': by},
                _reply(3, ['req', 1], ['op', 2, 0.3])]))
    # an application listener that is slow whenever a peer connection closes: the reply is delivered while the request is
    # live, the request goes away (user / timeout) while the connection of the reply is still being closed
    for kind in ('net', 'user'):
        for slow in (0.5, 2.0):
            out.append(dict(base, settings=S2, slow_close=slow, ops=[
                {'id': 1, 'op': 'search', 'kind': kind, 'when': ['t0', 0.5]},
                _reply(2, ['req', 1], ['sent', ['req', 1], 0.5]),
                {'id': 3, 'op': 'remove', 'target': ['req', 1], 'when': ['sent', ['req', 1], 0.7], 'hops': 0, 'by': 'object'}]))
            out.append(dict(base, settings=S2, slow_close=slow, ops=[
                {'id': 1, 'op': 'search', 'kind': kind, 'when': ['t0', 0.5]},
                _reply(2, ['req', 1], ['deadline', ['req', 1], -0.2]),
                _reply(3, ['req', 1], ['deadline', ['req', 1], -0.1], 1)]))
    # an application listener that is slow when a removal is reported: a reply / a user removal lands while it sleeps
    for kind in ('net', 'room'):
        out.append(dict(base, settings=S2, slow_removed=0.5, ops=[
            {'id': 1, 'op': 'search', 'kind': kind, 'when': ['t0', 0.5]},
            _reply(2, ['req', 1], ['deadline', ['req', 1], 0.2]),
            _reply(3, ['req', 1], ['deadline', ['req', 1], 0.7], 1)]))
        out.append(dict(base, settings=S2, slow_removed=0.5, ops=[
            {'id': 1, 'op': 'search', 'kind': kind, 'when': ['t0', 0.5]},
            {'id': 2, 'op': 'remove', 'target': ['req', 1], 'when': ['deadline', ['req', 1], 0.2], 'hops': 0, 'by': 'object'},
            _reply(3, ['req', 1], ['deadline', ['req', 1], 0.3])]))
    # an application listener that is slow when a request is reported sent: the user removes the request meanwhile
    for kind in ('net', 'room', 'user'):
        for by in ('object', 'ticket'):
            out.append(dict(base, settings=S2, slow_sent=0.5, ops=[
                {'id': 1, 'op': 'search', 'kind': kind, 'when': ['t0', 0.5]},
                {'id': 2, 'op': 'remove', 'target': ['req', 1], 'when': ['sent', ['req', 1], 0.1], 'hops': 0, 'by': by},
                _reply(3, ['req', 1], ['sent', ['req', 1], 1.0])]))
    # unknown tickets while another request is live; a reply for a ticket that is only issued later
    out.append(dict(base, settings=S2, ops=[
        {'id': 1, 'op': 'search', 'kind': 'net', 'when': ['t0', 0.5]},
        {'id': 2, 'op': 'search', 'kind': 'user', 'when': ['t0', 1.5]},
        _reply(3, ['unknown'], ['t0', 1.0]), _reply(4, ['next'], ['t0', 1.2], 1),
        _reply(5, ['literal', 0], ['t0', 1.3]), _reply(6, ['req', 2], ['t0', 2.0], 1),
        _reply(7, ['req', 1], ['t0', 3.0]), _reply(8, ['req', 2], ['t0', 3.2], 1)]))
    # two overlapping requests, replies crossed
    out.append(dict(base, settings=S0, ops=[
        {'id': 1, 'op': 'search', 'kind': 'net', 'when': ['t0', 0.5]},
        {'id': 2, 'op': 'search', 'kind': 'room', 'when': ['t0', 0.5]},
        _reply(3, ['req', 2], ['t0', 1.0]), _reply(4, ['req', 1], ['t0', 1.0], 1),
        {'id': 5, 'op': 'remove', 'target': ['req', 1], 'when': ['t0', 2.0], 'hops': 0, 'by': 'object'},
        _reply(6, ['req', 1], ['t0', 2.5]), _reply(7, ['req', 2], ['t0', 2.5], 1)]))
    # wishlist rounds under the three timeout regimes, replies for old and current rounds, removal of a wishlist request
    for wt in (-1, 0, 2):
        out.append(dict(base, interval=5, wishlist=['w0', 'w1'], horizon=14.0,
                        settings={'request_timeout': 0, 'wishlist_timeout': wt, 'store': True}, ops=[
            _reply(1, ['wish', 0, 'w0'], ['sent', ['wish', 0, 'w0'], 1.5]),
            _reply(2, ['wish', 0, 'w1'], ['sent', ['wish', 1, 'w1'], 0.5], 1),
            _reply(3, ['wish', 1, 'w0'], ['sent', ['wish', 1, 'w0'], 0.5]),
            {'id': 4, 'op': 'remove', 'target': ['wish', 1, 'w1'], 'when': ['sent', ['wish', 1, 'w1'], 1.0],
             'hops': 0, 'by': 'object'},
            _reply(5, ['wish', 1, 'w1'], ['op', 4, 0.5], 1),
            _reply(6, ['wish', 1, 'w0'], ['sent', ['wish', 2, 'w0'], 0.5])]))
    # a second WishlistInterval in the session (same / other value), rounds and replies afterwards
    for value in (5, 7):
        out.append(dict(base, interval=5, wishlist=['w0'], horizon=16.0,
                        settings={'request_timeout': 2, 'wishlist_timeout': -1, 'store': True}, ops=[
            {'id': 1, 'op': 'interval', 'value': value, 'when': ['t0', 1.5]},
            {'id': 2, 'op': 'search', 'kind': 'net', 'when': ['t0', 3.0]},
            _reply(3, ['req', 2], ['sent', ['req', 2], 0.5]),
            _reply(4, ['wish', 0, 'w0'], ['t0', 3.0], 1),
            _reply(5, ['wish', 1, 'w0'], ['sent', ['wish', 1, 'w0'], 1.0], 1)]))
    # no interval in the login burst, first one later
    out.append(dict(base, interval=None, wishlist=['w0'], horizon=12.0,
                    settings={'request_timeout': 0, 'wishlist_timeout': -1, 'store': False}, ops=[
        {'id': 1, 'op': 'interval', 'value': 5, 'when': ['t0', 1.0]},
        _reply(2, ['wish', 0, 'w0'], ['sent', ['wish', 0, 'w0'], 1.0]),
        _reply(3, ['wish', 0, 'w0'], ['deadline', ['wish', 0, 'w0'], 0.5])]))
    # the timeout setting changes while a request is pending: old request keeps its deadline
    out.append(dict(base, settings=S2, ops=[
        {'id': 1, 'op': 'search', 'kind': 'net', 'when': ['t0', 0.5]},
        {'id': 2, 'op': 'settings', 'when': ['t0', 1.0], 'request_timeout': 0},
        {'id': 3, 'op': 'search', 'kind': 'net', 'when': ['t0', 1.5]},
        _reply(4, ['req', 1], ['t0', 3.0]), _reply(5, ['req', 3], ['t0', 5.0], 1)]))
    # the server connection is lost while a request is live, the client logs in again and asks again: both requests are
    # live (distinct tickets), each reply goes to its own request, the first request's deadline is its own
    for settings in (S0, S2, {'request_timeout': 5, 'wishlist_timeout': -1, 'store': True}):
        for kind in ('net', 'user'):
            out.append(dict(base, settings=settings, relogin=1.0, horizon=10.0, ops=[
                {'id': 1, 'op': 'search', 'kind': kind, 'when': ['t0', 0.5]},
                {'id': 2, 'op': 'search', 'kind': kind, 'when': ['t0', 3.5]},
                _reply(3, ['req', 1], ['t0', 4.0]), _reply(4, ['req', 2], ['t0', 4.2], 1),
                _reply(5, ['req', 2], ['deadline', ['req', 2], -0.2])]))
    out.append(dict(base, wishlist=['w0'], interval=5, relogin=2.0, horizon=12.0,
                    settings={'request_timeout': 0, 'wishlist_timeout': -1, 'store': True}, ops=[
        {'id': 1, 'op': 'search', 'kind': 'net', 'when': ['t0', 0.5]},
        _reply(2, ['wish', 0, 'w0'], ['t0', 4.5]), _reply(3, ['wish', 1, 'w0'], ['sent', ['wish', 1, 'w0'], 0.5], 1),
        _reply(4, ['req', 1], ['t0', 6.0])]))
    return out


def corpus(tier):
    return _directed() + _tie_grid(tier) + _timer_corpus()


def enumerated_axes(tier):
    return {
        'tie_orders': {'size': len(_tie_grid(tier)), 'exhaustive': True,
                       'what': 'manual removal R in {none, -2..+2 ns} x reply P in {-2..+2 ns} around the expiry, '
                               'R = 0 with 0/1/3 loop iterations of delay, for network and wishlist requests; the six '
                               'strict orders and the all-equal case for room / user / wishlist with own timeout'},
        'timer_ties': {'size': 72, 'exhaustive': True,
                       'what': 'cancel / reschedule at deadline -1 ns, 0, +1 ns x 0..3 loop iterations, alone, '
                               'followed by cancel, followed by start + cancel'},
    }


SHRINK_LISTS = ('ops', 'steps', 'wishlist')


def simplify(plan):
    if plan.get('shape') == 'timer':
        for i, step in enumerate(plan['steps']):
            if step.get('hops'):
                cand = _copy(plan)
                cand['steps'][i]['hops'] = 0
                yield cand
            if 'timeout' in step:
                cand = _copy(plan)
                del cand['steps'][i]['timeout']
                yield cand
        if plan.get('cb') != 'instant':
            cand = _copy(plan)
            cand['cb'] = 'instant'
            cand['rearm'] = 0
            yield cand
        return
    if not plan.get('precise'):
        cand = _copy(plan)
        cand['precise'] = True
        cand['net'] = dict(PRECISE_NET)
        yield cand
    if plan.get('peers', 1) > 1:
        cand = _copy(plan)
        cand['peers'] = 1
        yield cand
    for i, op in enumerate(plan.get('ops', [])):
        for field, val in (('hops', 0), ('burst', 1), ('obf', False), ('peer', 0), ('by', 'object')):
            if op.get(field) not in (None, val):
                cand = _copy(plan)
                cand['ops'][i][field] = val
                yield cand
    if plan.get('horizon', 0) > 6.0:
        cand = _copy(plan)
        cand['horizon'] = max(6.0, plan['horizon'] / 2)
        yield cand


def _copy(plan):
    import copy
    return copy.deepcopy(plan)


# ------------------------------------------------------------------------------ helpers

def _until(loop, when):
    """Awaitable: resumes in the instant ``when`` (immediately if it has passed)."""
    fut = loop.create_future()
    if when <= loop.time():
        fut.set_result(None)
    else:
        loop.call_at(when, lambda: fut.done() or fut.set_result(None))
    return fut


def _is_library_coro(task):
    coro = task.get_coro()
    code = getattr(coro, 'cr_code', None) or getattr(coro, 'gi_code', None)
    return code is not None and '/aioslsk/' in code.co_filename.replace('\\', '/')


def install_task_registry(world):
    """Every task created on the loop reports its end; library tasks that ended with an
    exception are kept (strongly) so that the verdict does not depend on the collector."""
    loop = world.loop
    inner = loop.get_task_factory()
    failed = []

    def on_done(task):
        if task.cancelled():
            return
        if task._exception is not None and _is_library_coro(task):
            failed.append((loop.time(), task))

    def factory(loop_, coro, **kwargs):
        task = inner(loop_, coro, **kwargs)
        task.add_done_callback(on_done)
        return task

    loop.set_task_factory(factory)
    return failed


def check_errors(world, failed, harness_hosts=()):
    """C18.error: no library task ended with an exception nobody retrieved, the loop's exception
    handler stayed silent (after a collection), no ERROR record in the aioslsk log."""
    for _t, task in failed:
        if task._log_traceback:        # nobody retrieved the exception
            coro = task.get_coro()
            world.violate('C18.error', what='task exception', exc=type(task._exception).__name__,
                          coro=getattr(coro, '__qualname__', None))
    del failed[:]
    gc.collect()
    for rec in world.loop.exc_contexts:
        node = rec.get('node')
        if node is not None and node in harness_hosts:
            raise RuntimeError(f"scripted actor task failed: {rec}")
        if rec.get('task') is not None or rec.get('coro') is not None:
            world.violate('C18.error', what='task exception', exc=rec.get('exc_type'), coro=rec.get('coro'))
        else:
            world.violate('C18.error', what='loop exception handler', exc=rec.get('exc_type'),
                          message=str(rec.get('message'))[:80])
    for (_t, level, name, msg, exc) in seams.LOGS.records:
        if level in ('ERROR', 'CRITICAL') and name.startswith('aioslsk'):
            world.violate('C18.error', what='error logged', logger=name, exc=exc, msg=msg[:60])
            break


# --------------------------------------------------------------------------------- run

def run(plan):
    world = World(plan, PROPERTY)
    try:
        if plan.get('shape') == 'timer':
            return _run_timer(world, plan)
        return _run_search(world, plan)
    finally:
        world.close()


def _in_effect(history, t):
    """Values of a (time, value) history admissible at instant t: the last one set strictly
    before t plus everything set in the instant t itself."""
    before = [v for (when, v) in history if when < t - EPS]
    out = before[-1:]
    for (when, v) in history:
        if abs(when - t) <= EPS and v not in out:
            out.append(v)
    return out


def _run_search(world: World, plan):
    loop = world.loop
    failed = install_task_registry(world)
    cfg = {}
    if plan.get('interval') is None:
        cfg['burst_omit'] = ['wishlist_interval']
    else:
        cfg['wishlist_interval'] = plan['interval']
    server = world.add_server(cfg)
    peers = [world.add_peer(name) for name in PEERS[:max(1, min(2, plan.get('peers', 1)))]]
    st = plan.get('settings', {})
    overrides = {'searches': {
        'send': {'store_results': bool(st.get('store', True)),
                 'request_timeout': st.get('request_timeout', 0),
                 'wishlist_request_timeout': st.get('wishlist_timeout', -1)},
        'wishlist': [{'query': q, 'enabled': True} for q in plan.get('wishlist', [])],
    }}
    if plan.get('relogin') is not None:
        overrides['network'] = {'server': {'reconnect': {'auto': True, 'timeout': 1}}}
    alice = world.add_client('alice', overrides=overrides)
    client = alice.client
    ops = plan.get('ops', [])
    precise = bool(plan.get('precise'))
    base = plan.get('net', {}).get('base_ms', 5) / 1000.0
    lat = base if precise else 0.0
    lead = 4 * base + 0.02

    model = TicketModel()
    records = {}            # key -> record
    rec_list = []           # by index
    key_futs = {}           # key -> future(record)
    op_futs = {}            # op id -> future(instant)
    wish_rounds = {}        # query -> number of requests seen
    request_hist = [(-1.0, st.get('request_timeout', 0))]
    wishlist_hist = [(-1.0, st.get('wishlist_timeout', -1))]
    interval_hist = []      # (t, interval) as delivered
    deliveries = []         # (t, iteration, marker, ticket)
    removal_log = []
    probe_seen = []
    search_calls = {}
    remove_calls = {}
    sent_replies = {}       # marker -> (ticket, target kind)
    t0 = [None]

    def fut_for(table, key):
        fut = table.get(key)
        if fut is None:
            fut = table[key] = loop.create_future()
        return fut

    def ident_of(obj):
        for rec in rec_list:
            if rec['obj'] is obj:
                return rec['idx']
        return None

    # with a slow listener on the sent event the requests of one wishlist round go out over a stretch of time while the
    # library reads the timeout setting once per round: every value in force since the round can have begun is admissible
    round_span = float(plan.get('slow_sent') or 0) * max(len(plan.get('wishlist', [])), 1)

    def in_effect(history, now):
        if not round_span:
            return _in_effect(history, now)
        out = list(_in_effect(history, now - round_span))
        for (when, v) in history:
            if now - round_span - EPS <= when <= now + EPS and v not in out:
                out.append(v)
        return out

    def timeouts_for(typ, now):
        if typ == 'WISHLIST':
            out = []
            for w in in_effect(wishlist_hist, now):
                if w < 0:
                    vals = in_effect(interval_hist, now) or [None]
                else:
                    vals = [w]
                for v in vals:
                    v = v or None
                    if v not in out:
                        out.append(v)
            return out
        return [(v or None) for v in _in_effect(request_hist, now)]

    # listener ahead of the managers: the instant a message is delivered to the bus
    def pre_listener(event):
        msg = event.message
        now = loop.time()
        if isinstance(msg, M.PeerSearchReply.Request):
            deliveries.append((now, loop.iterations, msg.avg_speed, msg.ticket))
            model.reply(msg.avg_speed, msg.ticket, now)
            world.trace('deliver', msg.avg_speed, msg.ticket)
        elif isinstance(msg, M.WishlistInterval.Response) and isinstance(event.connection, ServerConnection):
            interval_hist.append((now, msg.interval))
            world.trace('interval', msg.interval)
        elif isinstance(msg, M.GetUserStatus.Response) and msg.username == PROBE_USER:
            probe_seen.append(now)

    world.keep_alive.append(pre_listener)
    client.events.register(MessageReceivedEvent, pre_listener, priority=-1000)

    def on_event(event):
        now = loop.time()
        if isinstance(event, SearchRequestSentEvent):
            req = event.query
            typ = req.search_type.name
            if typ == 'WISHLIST':
                n = wish_rounds.get(req.query, 0)
                wish_rounds[req.query] = n + 1
                key = ('wish', n, req.query)
            elif req.query.startswith('q') and req.query[1:].isdigit():
                key = ('req', int(req.query[1:]))
            else:
                key = ('other', len(rec_list))
            rec = {'idx': len(rec_list), 'key': key, 'obj': req, 'ticket': req.ticket, 'type': typ,
                   'query': req.query, 'sent_at': now, 'taus': timeouts_for(typ, now)}
            rec_list.append(rec)
            records.setdefault(key, rec)
            model.sent(rec['idx'], key, req.ticket, typ, now, rec['taus'])
            fut = fut_for(key_futs, key)
            if not fut.done():
                fut.set_result(rec)
        elif isinstance(event, SearchRequestRemovedEvent):
            model.removed(ident_of(event.query), now)
        elif isinstance(event, SearchResultEvent):
            model.result(event.result.avg_speed, ident_of(event.query), now)

    alice.recorder.hooks.append(on_event)

    if plan.get('slow_close'):
        # an application listener that takes its time whenever a peer connection is being closed (legitimate use of
        # the public bus): whatever the library awaits while closing a connection becomes a real suspension point
        from aioslsk.events import ConnectionStateChangedEvent
        from aioslsk.network.connection import ConnectionState, PeerConnection

        async def slow_close(event):
            if event.state == ConnectionState.CLOSING and isinstance(event.connection, PeerConnection):
                world.net.fired['slow_close_listener'] += 1
                await asyncio.sleep(plan['slow_close'])
        world.keep_alive.append(slow_close)
        client.events.register(ConnectionStateChangedEvent, slow_close)

    if plan.get('slow_sent'):
        # an application listener that takes its time when a request is reported sent
        async def slow_sent(event):
            world.net.fired['slow_sent_listener'] += 1
            await asyncio.sleep(plan['slow_sent'])
        world.keep_alive.append(slow_sent)
        client.events.register(SearchRequestSentEvent, slow_sent, priority=2000)

    if plan.get('slow_removed'):
        # an application listener that takes its time when a request is reported removed
        async def slow_removed(event):
            world.net.fired['slow_removed_listener'] += 1
            await asyncio.sleep(plan['slow_removed'])
        world.keep_alive.append(slow_removed)
        client.events.register(SearchRequestRemovedEvent, slow_removed, priority=2000)

    # ------------------------------------------------------------------ symbolic instants
    async def resolve_when(spec):
        kind = spec[0]
        if kind == 't0':
            return t0[0] + spec[1]
        if kind in ('sent', 'deadline'):
            rec = await fut_for(key_futs, _key(spec[1]))
            if kind == 'sent':
                return rec['sent_at'] + spec[2]
            tau = rec['taus'][-1] if rec['taus'] else None     # (a value set in the send instant comes last)
            return rec['sent_at'] + (tau if tau else NO_DEADLINE_STANDIN) + spec[2]
        if kind == 'op':
            return (await fut_for(op_futs, spec[1])) + spec[2]
        raise ValueError(spec)

    def announce(op, t):
        fut = fut_for(op_futs, op['id'])
        if not fut.done():
            fut.set_result(t)

    def resolve_ticket(target):
        kind = target[0]
        if kind in ('req', 'wish'):
            rec = records.get(_key(target))
            return (rec['ticket'], kind) if rec is not None else (6_000_000, 'unsent')
        if kind == 'next':
            return (max([r['ticket'] for r in rec_list] or [1]) + 1, 'next')
        if kind == 'literal':
            return (int(target[1]), 'literal')
        return (5_000_000, 'unknown')

    # ------------------------------------------------------------------ operations
    async def do_search(op):
        t = await resolve_when(op['when'])
        announce(op, t)
        await _until(loop, t)
        query = f"q{op['id']}"
        kind = op.get('kind', 'net')
        if kind == 'room':
            call = world.call(alice, f"search{op['id']}", client.searches.search_room, 'room1', query)
        elif kind == 'user':
            call = world.call(alice, f"search{op['id']}", client.searches.search_user, peers[0].name, query)
        else:
            call = world.call(alice, f"search{op['id']}", client.searches.search, query)
        search_calls[op['id']] = call

    async def do_remove(op):
        t = await resolve_when(op['when'])
        announce(op, t)
        rec = await fut_for(key_futs, _key(op['target']))
        hops = int(op.get('hops', 0))

        async def remove():
            await _until(loop, t)
            for _ in range(hops):
                await asyncio.sleep(0)
            now = loop.time()
            removal_log.append({'idx': rec['idx'], 't': now, 'op': op['id']})
            model.manual_remove(rec['idx'], now)
            world.trace('remove', rec['idx'])
            client.searches.remove_request(rec['ticket'] if op.get('by') == 'ticket' else rec['obj'])

        remove_calls[op['id']] = world.call(alice, f"remove{op['id']}", remove)

    async def do_reply(op):
        peer = peers[int(op.get('peer', 0)) % len(peers)]
        t = await resolve_when(op['when'])
        announce(op, t)
        await _until(loop, t - lat - lead)
        obf = bool(op.get('obf'))
        link = await peer.connect_direct(alice.host.ip, 60001 if obf else 60000, 'P', ticket=op['id'], obfuscated=obf)
        await _until(loop, t - lat)
        ticket, how = resolve_ticket(op['target'])
        for b in range(max(1, min(3, int(op.get('burst', 1))))):
            marker = op['id'] * 8 + b
            sent_replies[marker] = (ticket, how)
            link.send(M.PeerSearchReply.Request(
                username=peer.name, ticket=ticket,
                results=[FileData(1, f"music\\track{marker}.mp3", 1000 + marker, 'mp3', [])],
                has_slots_free=True, avg_speed=marker, queue_size=0, unknown=0, locked_results=[]))
        world.trace('reply', op['id'], ticket)
        await asyncio.sleep(1.0)
        link.close()

    async def do_interval(op):
        t = await resolve_when(op['when'])
        announce(op, t)
        await _until(loop, t - lat)
        server.send_to('alice', M.WishlistInterval.Response(int(op['value'])))

    async def do_settings(op):
        t = await resolve_when(op['when'])
        announce(op, t)
        await _until(loop, t)
        now = loop.time()
        send = alice.settings.searches.send
        if 'request_timeout' in op:
            send.request_timeout = int(op['request_timeout'])
            request_hist.append((now, int(op['request_timeout'])))
        if 'wishlist_timeout' in op:
            send.wishlist_request_timeout = int(op['wishlist_timeout'])
            wishlist_hist.append((now, int(op['wishlist_timeout'])))
        if 'wishlist' in op:
            alice.settings.searches.wishlist = [WishlistSettingEntry(query=q, enabled=True) for q in op['wishlist']]
        world.trace('settings', op['id'])

    async def do_relogin():
        # the server connection is lost and the client logs in again by itself (auto-reconnect): requests made in
        # the first session stay registered, their timers keep running, and requests of the second session are
        # live next to them
        await _until(loop, t0[0] + float(plan['relogin']))
        for sess in server.sessions:
            if not sess.closed and getattr(sess, 'username', None) == 'alice':
                world.net.fired['server_reset_then_relogin'] += 1
                sess.abort()

    runners = {'search': do_search, 'remove': do_remove, 'reply': do_reply, 'interval': do_interval,
               'settings': do_settings}
    t_end = [None]
    probe = {}

    async def main():
        await world.start_client(alice)
        await asyncio.sleep(1.0)
        t0[0] = loop.time()
        tasks = []
        for op in ops:
            fn = runners.get(op.get('op'))
            if fn is None or 'id' not in op:
                continue
            if op['op'] == 'reply':
                tasks.append(peers[int(op.get('peer', 0)) % len(peers)].spawn(fn(op)))
            else:
                tasks.append(asyncio.ensure_future(fn(op)))
        if plan.get('relogin') is not None:
            tasks.append(asyncio.ensure_future(do_relogin()))
        await _until(loop, t0[0] + float(plan.get('horizon', 8.0)))
        for task in tasks:
            if not task.done():
                task.cancel()
        await asyncio.gather(*tasks, return_exceptions=True)
        for task in tasks:
            if not task.cancelled() and task.exception() is not None:
                raise task.exception()
        for call in remove_calls.values():      # a removal placed beyond the horizon does not happen
            if not call.done:
                call.task.cancel()
        await asyncio.sleep(0.5)
        # the server connection still reads: a fresh notification is delivered
        conn = client.network.server_connection
        probe['session'] = server.send_to('alice', M.GetUserStatus.Response(PROBE_USER, 2, False))
        probe['state'] = getattr(getattr(conn, 'state', None), 'name', None)
        await asyncio.sleep(1.5)
        t_end[0] = loop.time()
        model.snapshot(t_end[0], {ident_of(obj) for obj in client.searches.requests.values()})

    world.run(main())

    # ------------------------------------------------------------------ oracle
    for entry in removal_log:
        call = remove_calls.get(entry['op'])
        if call is not None and call.exception is not None:
            world.probe('remove_request_refused')
            model.refused(entry['idx'], entry['t'])
    violations, stats = model.evaluate(t_end[0])
    for invariant, facts in violations:
        world.violate(invariant, **facts)
    # the ticket on the wire is the ticket of the request object
    wire = {}
    for cls in (M.FileSearch.Request, M.RoomSearch.Request, M.UserSearch.Request, M.WishlistSearch.Request):
        for _t, msg in server.frames(cls):
            wire.setdefault(msg.query, []).append(msg.ticket)
    nth = {}
    for rec in rec_list:
        k = nth.get(rec['query'], 0)
        nth[rec['query']] = k + 1
        seen = wire.get(rec['query'], [])
        if plan.get('relogin') is not None:
            # a request made while the server connection is down is registered and reported although its frame never
            # reaches the server: frames and requests of one query are then compared as sets, and only when none is lost
            mine = [r['ticket'] for r in rec_list if r['query'] == rec['query']]
            if len(seen) >= len(mine) and rec['ticket'] not in seen:
                world.violate('C18.result_iff', why='wire_ticket_differs', type=rec['type'])
            continue
        if k < len(seen) and seen[k] != rec['ticket']:     # (a frame still in flight at the end is not judged)
            world.violate('C18.result_iff', why='wire_ticket_differs', type=rec['type'])
    check_errors(world, failed, harness_hosts=[server.host] + [p.host for p in peers])
    if not probe_seen:
        if probe.get('session') and probe.get('state') == 'CONNECTED':
            world.violate('C18.error', what='server reader dead')
        else:
            world.violate('C18.error', what='server connection lost', state=probe.get('state'))

    # ------------------------------------------------------------------ coverage
    if stats['ties']:
        world.probe('event_in_instant_of_removal_or_expiry', stats['ties'])
    if stats['stale_replies']:
        world.probe('reply_for_ended_request', stats['stale_replies'])
    if stats['live_replies']:
        world.probe('reply_for_live_request', stats['live_replies'])
    if stats['reply_status'].count('unknown'):
        world.probe('reply_with_unknown_ticket', stats['reply_status'].count('unknown'))
    if stats['expired']:
        world.probe('request_expired', stats['expired'])
    if len(interval_hist) > 1:
        world.probe('repeated_wishlist_interval')
    manual_with_timer = 0
    order = []
    for r in model.requests:
        if r.manual and r.tau:
            manual_with_timer += 1
        ends = sorted([(r.manual_at, 'R')] * bool(r.manual) + [(r.deadline, 'E')] * bool(r.tau))
        order.append((r.typ, r.tau, tuple(k for _, k in ends),
                      bool(r.manual and r.tau and abs(r.manual_at - r.deadline) <= EPS)))
    if manual_with_timer:
        world.probe('manual_removal_of_request_with_timer', manual_with_timer)
    if len(wish_rounds) and max(wish_rounds.values()) > 1:
        world.probe('several_wishlist_rounds')
    reported = {m for (m, _i, _t) in model.results}
    replies = tuple((sent_replies.get(m, (None, '?'))[1], status, m in reported)
                    for (_t, _it, m, _tk), status in zip(deliveries, stats['reply_status']))
    nontrivial = bool(stats['ties'] or stats['stale_replies'] or manual_with_timer)
    return common.finish(world, nontrivial, ['search', sorted(order, key=repr), replies,
                                             tuple(v for _, v in interval_hist), len(removal_log)])


def _key(spec):
    return tuple(spec)


# ------------------------------------------------------------------------------- timer

def _run_timer(world: World, plan):
    loop = world.loop
    failed = install_task_registry(world)
    model = TimerModel(float(plan.get('timeout', 1.0)))
    callbacks = []
    rearm_left = [int(plan.get('rearm', 0)) if plan.get('cb') == 'rearm' else 0]
    holder = {}

    seq = [0]
    cb_seq = []                 # (time, seq) of every callback start
    op_seq = []                 # (time, seq, op) once a cancel / re-arm has returned

    def tick():
        seq[0] += 1
        return seq[0]

    async def callback():
        now = loop.time()
        callbacks.append(now)
        cb_seq.append((now, tick()))
        world.trace('callback', loop.iterations)
        if rearm_left[0] > 0:
            rearm_left[0] -= 1
            model.reschedule(now)
            holder['timer'].reschedule()
        elif plan.get('cb') == 'slow':
            await asyncio.sleep(float(plan.get('cb_delay', 0.3)))

    timer = holder['timer'] = Timer(timeout=float(plan.get('timeout', 1.0)), callback=callback)
    t_end = [None]
    longest = [float(plan.get('timeout', 1.0))]

    async def main():
        await asyncio.sleep(0.5)
        for step in plan.get('steps', []):
            wait = step.get('wait', ['rel', 0.1])
            if wait[0] == 'deadline':
                deadline = model.armed_deadline(loop.time())
                when = deadline + wait[1] if deadline is not None else loop.time() + 0.1
            else:
                when = loop.time() + float(wait[1])
            await _until(loop, when)
            for _ in range(int(step.get('hops', 0))):
                await asyncio.sleep(0)
            now = loop.time()
            op = step.get('op')
            world.trace('timer-op', op, loop.iterations)
            if op == 'start':
                model.start(now)
                timer.start()
            elif op == 'cancel':
                model.cancel(now)
                timer.cancel()
                op_seq.append((now, tick(), 'cancel'))
            elif op == 'reschedule':
                timeout = step.get('timeout')
                if timeout is not None:
                    longest[0] = max(longest[0], float(timeout))
                model.reschedule(now, timeout)
                timer.reschedule(timeout)
                if (timeout if timeout is not None else float(plan.get('timeout', 1.0))) > 0:
                    op_seq.append((now, tick(), 'reschedule'))
        await asyncio.sleep(longest[0] * (2 + int(plan.get('rearm', 0))) + 1.0)
        t_end[0] = loop.time()

    world.run(main())

    violations, stats = model.evaluate(callbacks, t_end[0])
    for invariant, facts in violations:
        world.violate(invariant, **facts)
    # inside one instant the order of events decides: once cancel() / reschedule() has returned, a callback that STARTS
    # later in that instant can only belong to the deadline that was just given up
    for (t_op, s_op, what) in op_seq:
        if any(abs(t_cb - t_op) <= EPS and s_cb > s_op for (t_cb, s_cb) in cb_seq):
            world.violate('C18.timer', what=('cancelled' if what == 'cancel' else 'superseded') +
                          ' deadline called back', rearmed=False, same_instant=True)
            break
    check_errors(world, failed)
    if stats['ties']:
        world.probe('timer_op_in_instant_of_deadline', stats['ties'])
    if stats['superseded']:
        world.probe('timer_deadline_superseded', stats['superseded'])
    sig = [(a.rearm, a.how, a.expectation()) for a in model.arms]
    return common.finish(world, bool(stats['superseded'] or stats['ties']),
                         ['timer', sig, len(callbacks), plan.get('cb')])

INFO['rule'] += ' Round-5 additions: the server session is aborted and the client logs in again by itself while requests are registered (relogin).'

INFO['rule'] += ' Round-6 additions (timer shape): events inside one instant are ordered - a callback that starts after cancel() / reschedule() returned belongs to the deadline that was given up.'
