"""C19 - room and user views equal the fold of the server's announcements.

World: one real client ('alice') logged in to the scripted server.  The plan is a sequence
(<= 12) of server notifications over 2 rooms x 3 users (alice included), pushed at
plan-chosen instants (back-to-back = one TCP segment, or spaced), with explicit gc steps
(users are held weakly).  After every delivered server message (hook on
MessageReceivedEvent; the recorder is the last listener, so every manager handler has
finished) the client's public view is compared with the reference replica of
models/rooms.py, and the chat / ticker / membership events emitted for that message are
compared with what the message announced.
"""
from __future__ import annotations

import asyncio
import gc

from aioslsk import events as E
from aioslsk.protocol import messages as M
from aioslsk.protocol.primitives import RoomTicker, UserStats
from aioslsk.network.connection import ServerConnection
from aioslsk.user.model import BlockingFlag

from sim.world import World
from models.rooms import Replica, RoomState, STAT_NAMES
from . import common

PROPERTY = 'C19'
INFO = {
    'level': 'exploration',
    'rule': ('plans = 2..12 server notifications drawn uniformly from a 25-kind alphabet (room list, own/other '
             'join/leave, private-room membership and operator grant/revoke for self and others, member/operator '
             'lists, tickers set/added/removed, status/stats/privilege updates, room/public/private chat with block '
             'flags) over 2 rooms x 3 users, 30 % of plans forced to contain one of six composition patterns; sent '
             'back-to-back (coalesced into one segment) or spaced, PRF segmentation, explicit gc steps; '
             'non-trivial = at least two plan notifications delivered and compared; distinct = signature over the '
             'abstracted notification history (kind, room, self/other, spacing class, gc) and the segmentation mode'),
    'real': common.REAL,
    'stub': common.STUB,
    'assumptions': [
        'scripted server encodes frames with aioslsk message classes; the neutral notification the replica folds '
        'is read from the decoded message the client delivered (codec is trusted base)',
        'a room absent from the client table counts as the default view; existence itself is not compared',
        'privacy flag is decided only by a room list and by the own join (owner announced => private); otherwise '
        'it is adopted at first observation and must then stay put',
        'where the property wording does not decide (operator flag after a membership revoke, rooms omitted by a '
        'room list, own join adds-or-replaces the user list, position of a re-added ticker) both outcomes pass',
        'the harness recorder is emptied after every event so that it does not keep User objects alive',
        'the pre-run heap is parked with gc.freeze() for the duration of a run, so the explicit gc steps traverse '
        'only objects created by the run (a full collection costs ~25 ms, twice the run)',
        'only the content of emitted chat/ticker/membership events is judged (room, user); a missing event is '
        'counted as a probe, not reported; duplicates are not judged',
        'block kinds: RoomChatMessage and PublicChatMessage <-> ROOM_MESSAGES, PrivateChatMessage <-> PRIVATE_MESSAGES',
    ],
}

ME = 'alice'
USERS = ('alice', 'bob', 'carol')
OTHERS = ('bob', 'carol')
ROOMS = ('r1', 'r2')
MAX_NOTIFICATIONS = 12

KINDS = (
    'room_list', 'join_self', 'leave_self', 'user_joined', 'user_left',
    'member_granted_self', 'member_revoked_self', 'op_granted_self', 'op_revoked_self',
    'member_granted', 'member_revoked', 'op_granted', 'op_revoked', 'members_list', 'operators_list',
    'tickers', 'ticker_added', 'ticker_removed',
    'user_status', 'user_stats', 'privileged_list', 'add_privileged',
    'room_chat', 'public_chat', 'private_chat',
)
SELF_KINDS = frozenset(('join_self', 'leave_self', 'member_granted_self', 'member_revoked_self',
                        'op_granted_self', 'op_revoked_self'))
CHAT_FLAG = {'room_chat': int(BlockingFlag.ROOM_MESSAGES), 'public_chat': int(BlockingFlag.ROOM_MESSAGES),
             'private_chat': int(BlockingFlag.PRIVATE_MESSAGES)}
GAPS = (0.0, 0.0, 0.0, 0.001, 0.05, 0.4, 1.5)
BLOCK_FLAGS = (0, 0, 0, 1, 2, 3, 4, 63)


def _stats(val):
    return (val, val + 1, val + 2, val + 3)


# ----------------------------------------------------------------------------- plan -> message

def build_message(op):
    k = op['k']
    if k == 'room_list':
        pub, own, mem = list(op.get('public', [])), list(op.get('owned', [])), list(op.get('member', []))
        return M.RoomList.Response(
            rooms=pub, rooms_user_count=[3] * len(pub),
            rooms_private_owned=own, rooms_private_owned_user_count=[2] * len(own),
            rooms_private=mem, rooms_private_user_count=[1] * len(mem),
            rooms_private_operated=list(op.get('operated', [])))
    if k == 'join_self':
        users = list(op.get('users', []))
        val = op.get('val', 1)
        kw = {}
        if op.get('owner') is not None:
            kw = {'owner': op['owner'], 'operators': list(op.get('operators') or [])}
        return M.JoinRoom.Response(
            op['room'], users=users, users_status=[(val + i) % 3 for i in range(len(users))],
            users_stats=[UserStats(*_stats(val * 10 + i)) for i in range(len(users))],
            users_slots_free=[1] * len(users), users_countries=['BE'] * len(users), **kw)
    if k == 'leave_self':
        return M.LeaveRoom.Response(op['room'])
    if k == 'user_joined':
        return M.UserJoinedRoom.Response(op['room'], op['user'], op.get('status', 2),
                                         UserStats(*_stats(op.get('val', 1))), 1, 'BE')
    if k == 'user_left':
        return M.UserLeftRoom.Response(op['room'], op['user'])
    if k == 'member_granted_self':
        return M.PrivateRoomMembershipGranted.Response(op['room'])
    if k == 'member_revoked_self':
        return M.PrivateRoomMembershipRevoked.Response(op['room'])
    if k == 'op_granted_self':
        return M.PrivateRoomOperatorGranted.Response(op['room'])
    if k == 'op_revoked_self':
        return M.PrivateRoomOperatorRevoked.Response(op['room'])
    if k == 'member_granted':
        return M.PrivateRoomGrantMembership.Response(op['room'], op['user'])
    if k == 'member_revoked':
        return M.PrivateRoomRevokeMembership.Response(op['room'], op['user'])
    if k == 'op_granted':
        return M.PrivateRoomGrantOperator.Response(op['room'], op['user'])
    if k == 'op_revoked':
        return M.PrivateRoomRevokeOperator.Response(op['room'], op['user'])
    if k == 'members_list':
        return M.PrivateRoomMembers.Response(op['room'], list(op.get('users', [])))
    if k == 'operators_list':
        return M.PrivateRoomOperators.Response(op['room'], list(op.get('users', [])))
    if k == 'tickers':
        return M.RoomTickers.Response(op['room'], [RoomTicker(t['u'], t['t']) for t in op.get('tickers', [])])
    if k == 'ticker_added':
        return M.RoomTickerAdded.Response(op['room'], op['user'], op.get('text', 't'))
    if k == 'ticker_removed':
        return M.RoomTickerRemoved.Response(op['room'], op['user'])
    if k == 'user_status':
        return M.GetUserStatus.Response(op['user'], op.get('status', 2), bool(op.get('priv', False)))
    if k == 'user_stats':
        return M.GetUserStats.Response(op['user'], UserStats(*_stats(op.get('val', 1))))
    if k == 'privileged_list':
        return M.PrivilegedUsers.Response(list(op.get('users', [])))
    if k == 'add_privileged':
        return M.AddPrivilegedUser.Response(op['user'])
    if k == 'room_chat':
        return M.RoomChatMessage.Response(op['room'], op['user'], op.get('text', 'm'))
    if k == 'public_chat':
        return M.PublicChatMessage.Response(op['room'], op['user'], op.get('text', 'm'))
    if k == 'private_chat':
        return M.PrivateChatMessage.Response(op.get('id', 1), 1_700_000_000, op['user'], op.get('text', 'm'), True)
    raise ValueError(k)


# ----------------------------------------------------------------------------- delivered message -> neutral note

def _st(us):
    return (us.avg_speed, us.uploads, us.shared_file_count, us.shared_folder_count)


def describe(msg):
    """Neutral description of a delivered server message (None = not part of the replica)."""
    c = type(msg)
    if c is M.RoomList.Response:
        return {'kind': 'room_list', 'public': list(msg.rooms), 'owned': list(msg.rooms_private_owned),
                'member': list(msg.rooms_private), 'operated': list(msg.rooms_private_operated)}
    if c is M.JoinRoom.Response:
        return {'kind': 'join_self', 'room': msg.room,
                'users': [{'name': n, 'status': msg.users_status[i], 'stats': _st(msg.users_stats[i])}
                          for i, n in enumerate(msg.users)],
                'owner': msg.owner or None,
                'operators': list(msg.operators) if msg.operators is not None else None}
    if c is M.LeaveRoom.Response:
        return {'kind': 'leave_self', 'room': msg.room}
    if c is M.UserJoinedRoom.Response:
        return {'kind': 'user_joined', 'room': msg.room, 'user': msg.username, 'status': msg.status,
                'stats': _st(msg.user_stats)}
    if c is M.UserLeftRoom.Response:
        return {'kind': 'user_left', 'room': msg.room, 'user': msg.username}
    simple_self = {
        M.PrivateRoomMembershipGranted.Response: 'member_granted_self',
        M.PrivateRoomMembershipRevoked.Response: 'member_revoked_self',
        M.PrivateRoomOperatorGranted.Response: 'op_granted_self',
        M.PrivateRoomOperatorRevoked.Response: 'op_revoked_self',
    }
    if c in simple_self:
        return {'kind': simple_self[c], 'room': msg.room}
    simple_other = {
        M.PrivateRoomGrantMembership.Response: 'member_granted',
        M.PrivateRoomRevokeMembership.Response: 'member_revoked',
        M.PrivateRoomGrantOperator.Response: 'op_granted',
        M.PrivateRoomRevokeOperator.Response: 'op_revoked',
        M.RoomTickerRemoved.Response: 'ticker_removed',
    }
    if c in simple_other:
        return {'kind': simple_other[c], 'room': msg.room, 'user': msg.username}
    if c is M.PrivateRoomMembers.Response:
        return {'kind': 'members_list', 'room': msg.room, 'users': list(msg.usernames)}
    if c is M.PrivateRoomOperators.Response:
        return {'kind': 'operators_list', 'room': msg.room, 'users': list(msg.usernames)}
    if c is M.RoomTickers.Response:
        return {'kind': 'tickers', 'room': msg.room, 'tickers': [(t.username, t.ticker) for t in msg.tickers]}
    if c is M.RoomTickerAdded.Response:
        return {'kind': 'ticker_added', 'room': msg.room, 'user': msg.username, 'text': msg.ticker}
    if c is M.GetUserStatus.Response:
        return {'kind': 'user_status', 'user': msg.username, 'status': msg.status, 'privileged': bool(msg.privileged)}
    if c is M.GetUserStats.Response:
        return {'kind': 'user_stats', 'user': msg.username, 'stats': _st(msg.user_stats)}
    if c is M.AddUser.Response:
        return {'kind': 'add_user', 'user': msg.username, 'exists': bool(msg.exists), 'status': msg.status,
                'stats': _st(msg.user_stats) if msg.user_stats is not None else None}
    if c is M.PrivilegedUsers.Response:
        return {'kind': 'privileged_list', 'users': list(msg.users)}
    if c is M.AddPrivilegedUser.Response:
        return {'kind': 'add_privileged', 'user': msg.username}
    if c is M.RoomChatMessage.Response:
        return {'kind': 'room_chat', 'room': msg.room, 'user': msg.username, 'text': msg.message}
    if c is M.PublicChatMessage.Response:
        return {'kind': 'public_chat', 'room': msg.room, 'user': msg.username, 'text': msg.message}
    if c is M.PrivateChatMessage.Response:
        return {'kind': 'private_chat', 'user': msg.username, 'text': msg.message}
    return None


# ----------------------------------------------------------------------------- events

# notification kind -> event class the documentation announces for it
EVENT_OF = {
    'room_chat': 'RoomMessageEvent', 'public_chat': 'PublicMessageEvent', 'private_chat': 'PrivateMessageEvent',
    'join_self': 'RoomJoinedEvent', 'user_joined': 'RoomJoinedEvent',
    'leave_self': 'RoomLeftEvent', 'user_left': 'RoomLeftEvent',
    'tickers': 'RoomTickersEvent', 'ticker_added': 'RoomTickerAddedEvent', 'ticker_removed': 'RoomTickerRemovedEvent',
    'member_granted_self': 'RoomMembershipGrantedEvent', 'member_granted': 'RoomMembershipGrantedEvent',
    'member_revoked_self': 'RoomMembershipRevokedEvent', 'member_revoked': 'RoomMembershipRevokedEvent',
    'op_granted_self': 'RoomOperatorGrantedEvent', 'op_granted': 'RoomOperatorGrantedEvent',
    'op_revoked_self': 'RoomOperatorRevokedEvent', 'op_revoked': 'RoomOperatorRevokedEvent',
    'members_list': 'RoomMembersEvent', 'operators_list': 'RoomOperatorsEvent',
}
EVENT_CLASSES = tuple(getattr(E, name) for name in sorted(set(EVENT_OF.values())))


def light_event(ev):
    """Names only: the check must not keep User / Room objects alive."""
    name = type(ev).__name__
    out = {'type': name, 'room': None, 'user': None, 'users': None, 'text': None}
    if name == 'RoomMessageEvent':
        out['room'] = ev.message.room.name
        out['user'] = ev.message.user.name
        out['text'] = ev.message.message
    elif name == 'PublicMessageEvent':
        out['room'] = ev.room.name
        out['user'] = ev.user.name
        out['text'] = ev.message
    elif name == 'PrivateMessageEvent':
        out['user'] = ev.message.user.name
        out['text'] = ev.message.message
    else:
        out['room'] = ev.room.name
        who = getattr(ev, 'user', None) if hasattr(ev, 'user') else getattr(ev, 'member', None)
        if who is not None:
            out['user'] = who.name
        if name == 'RoomTickersEvent':
            out['users'] = sorted(ev.tickers.keys())
        elif name == 'RoomMembersEvent':
            out['users'] = sorted(u.name for u in ev.members)
        elif name == 'RoomOperatorsEvent':
            out['users'] = sorted(u.name for u in ev.operators)
        elif name == 'RoomTickerAddedEvent':
            out['text'] = ev.ticker
    return out


# ----------------------------------------------------------------------------- generator

def _other(rng):
    return rng.choice(('bob', 'bob', 'carol', 'carol', 'alice'))


def _subset(rng, pool, p=0.5):
    return [x for x in pool if rng.random() < p]


def draw_op(rng, kind, ctr):
    ctr[0] += 1
    val = ctr[0]
    op = {'k': kind, 'gap': rng.choice(GAPS)}
    room = rng.choice(ROOMS)
    if kind == 'room_list':
        op.update(public=[], owned=[], member=[], operated=[])
        for r in ROOMS:
            cat = rng.choice(('public', 'owned', 'member', 'member', 'omit', 'omit'))
            if cat != 'omit':
                op[cat].append(r)
            if cat in ('owned', 'member') and rng.random() < 0.5:
                op['operated'].append(r)
            elif cat == 'omit' and rng.random() < 0.1:
                op['operated'].append(r)
    elif kind == 'join_self':
        users = _subset(rng, OTHERS, 0.5)
        if rng.random() < 0.85:
            users.insert(rng.randint(0, len(users)), ME)
        op.update(room=room, users=users, val=val)
        if rng.random() < 0.4:
            op['owner'] = rng.choice(USERS)
            op['operators'] = _subset(rng, USERS, 0.4)
    elif kind in SELF_KINDS:
        op['room'] = room
    elif kind == 'user_joined':
        op.update(room=room, user=_other(rng), status=rng.randint(0, 2), val=val)
    elif kind in ('user_left', 'member_granted', 'member_revoked', 'op_granted', 'op_revoked', 'ticker_removed'):
        op.update(room=room, user=_other(rng))
    elif kind in ('members_list', 'operators_list'):
        op.update(room=room, users=_subset(rng, USERS, 0.45))
    elif kind == 'tickers':
        names = _subset(rng, USERS, 0.5)
        rng.shuffle(names)
        op.update(room=room, tickers=[{'u': u, 't': f't{val}{u[0]}'} for u in names])
    elif kind == 'ticker_added':
        # (an empty ticker text is legal on the wire)
        op.update(room=room, user=_other(rng), text='' if rng.random() < 0.15 else f't{val}')
    elif kind == 'user_status':
        op.update(user=rng.choice(USERS), status=rng.randint(0, 2), priv=rng.random() < 0.5)
    elif kind == 'user_stats':
        op.update(user=rng.choice(USERS), val=val)
    elif kind == 'privileged_list':
        op['users'] = _subset(rng, USERS, 0.4)
    elif kind == 'add_privileged':
        op['user'] = rng.choice(USERS)
    elif kind in ('room_chat', 'public_chat'):
        op.update(room=room, user=rng.choice(OTHERS + ('alice',)), text=f'm{val}')
    elif kind == 'private_chat':
        op.update(user=rng.choice(OTHERS + ('server',)), text=f'm{val}', id=val)
    else:
        raise ValueError(kind)
    return op


def draw_pattern(rng, ctr):
    """The composition patterns of DESIGN.md appendix H."""
    r = rng.choice(ROOMS)
    u = rng.choice(OTHERS)
    which = rng.choice(('grant_revoke_list', 'leave_late_join', 'own_operator', 'ticker_absent',
                        'list_omits_joined', 'rejoin_after_privilege'))

    def op(kind, **kw):
        ctr[0] += 1
        o = {'k': kind, 'gap': rng.choice(GAPS)}
        o.update(kw)
        return o
    if which == 'grant_revoke_list':
        if rng.random() < 0.5:
            who = rng.choice((u, ME))
            seq = [op('member_granted_self', room=r) if who == ME else op('member_granted', room=r, user=u),
                   op('op_granted_self', room=r) if who == ME else op('op_granted', room=r, user=u),
                   op('member_revoked_self', room=r) if who == ME else op('member_revoked', room=r, user=u),
                   op(rng.choice(('members_list', 'operators_list')), room=r, users=_subset(rng, USERS, 0.5))]
        else:
            seq = [op('op_granted', room=r, user=u), op('op_revoked', room=r, user=u),
                   op('operators_list', room=r, users=_subset(rng, USERS, 0.5))]
    elif which == 'leave_late_join':
        seq = [op('join_self', room=r, users=[ME] + _subset(rng, OTHERS, 0.5), val=ctr[0]),
               op('leave_self', room=r),
               op('user_joined', room=r, user=u, status=rng.randint(0, 2), val=ctr[0])]
        if rng.random() < 0.5:
            seq.append(op('join_self', room=r, users=[ME] + _subset(rng, OTHERS, 0.5), val=ctr[0]))
    elif which == 'own_operator':
        seq = [op('op_granted_self', room=r)]
        if rng.random() < 0.5:
            seq.insert(0, op('member_granted_self', room=r))
        if rng.random() < 0.6:
            seq.append(op('op_revoked_self', room=r))
        if rng.random() < 0.4:
            seq.append(op('op_granted_self', room=r))
    elif which == 'ticker_absent':
        seq = [op('tickers', room=r, tickers=[{'u': x, 't': f't{ctr[0]}{x[0]}'} for x in USERS if x != u
                                              and rng.random() < 0.7]),
               op('ticker_removed', room=r, user=u)]
        if rng.random() < 0.5:
            seq.append(op('ticker_added', room=r, user=u, text=f't{ctr[0]}'))
    elif which == 'list_omits_joined':
        other_room = [x for x in ROOMS if x != r][0]
        seq = [op('join_self', room=r, users=[ME, u], val=ctr[0]),
               op('room_list', public=[other_room] if rng.random() < 0.5 else [], owned=[], member=[], operated=[]),
               op(rng.choice(('user_joined', 'user_left', 'ticker_added', 'leave_self')), room=r, user=rng.choice(OTHERS),
                  status=2, val=ctr[0], text='tx')]
    else:
        how = rng.choice(('add_privileged', 'user_status', 'privileged_list'))
        if how == 'add_privileged':
            ann = op('add_privileged', user=u)
        elif how == 'user_status':
            ann = op('user_status', user=u, status=rng.randint(0, 2), priv=rng.random() < 0.7)
        else:
            ann = op('privileged_list', users=[u] if rng.random() < 0.7 else [])
        seq = [op('user_joined', room=r, user=u, status=2, val=ctr[0]), ann, op('user_left', room=r, user=u)]
        if rng.random() < 0.5:
            seq.append({'k': 'gc', 'gap': 0.0})
        seq.append(op('user_joined', room=r, user=u, status=1, val=ctr[0]))
    return seq


def generate(rng, index, tier):
    net = common.draw_net(rng)
    ctr = [0]
    pattern = draw_pattern(rng, ctr) if rng.random() < 0.3 else []
    n_pattern = sum(1 for o in pattern if o['k'] != 'gc')
    total = rng.randint(max(2, n_pattern), MAX_NOTIFICATIONS)
    free = [draw_op(rng, rng.choice(KINDS), ctr) for _ in range(total - n_pattern)]
    # interleave, keeping the relative order of the pattern
    ops = list(free)
    pos = sorted(rng.randint(0, len(free)) for _ in pattern)
    for off, (p, o) in enumerate(zip(pos, pattern)):
        ops.insert(p + off, o)
    # gc steps
    for _ in range(rng.choice((0, 0, 1, 1, 2, 3))):
        ops.insert(rng.randint(0, len(ops)), {'k': 'gc', 'gap': rng.choice((0.0, 0.0, 0.05, 0.4))})
    if rng.random() < 0.25:
        # one burst: everything back-to-back
        for o in ops:
            o['gap'] = 0.0
    hold = False
    if rng.random() < 0.2:
        # the application tracks / untracks users meanwhile
        for _ in range(rng.randint(1, 3)):
            ops.insert(rng.randint(0, len(ops)), {'k': rng.choice(('track', 'track', 'untrack')), 'user': rng.choice(OTHERS),
                                                  'gap': rng.choice((0.0, 0.05, 0.4, 1.5))})
    if rng.random() < 0.12:
        # the server connection is lost once along the way; the application may keep the user objects it was given
        ops.insert(rng.randint(1, len(ops)), {'k': 'relogin', 'gap': rng.choice((0.05, 0.4))})
        hold = rng.random() < 0.7
    blocked = {}
    for u in OTHERS + ('server',):
        f = rng.choice(BLOCK_FLAGS)
        if f:
            blocked[u] = f
    plan = {
        'seed': rng.getrandbits(32), 'net': net,
        'blocked': blocked,
        'init_privileged': _subset(rng, USERS, 0.3) if rng.random() < 0.4 else [],
        'init_room_list': None,
        'ops': ops,
    }
    if hold:
        plan['hold_users'] = True
    if rng.random() < 0.3:
        rl = draw_op(rng, 'room_list', ctr)
        plan['init_room_list'] = {k: rl[k] for k in ('public', 'owned', 'member', 'operated')}
    return plan


def _directed_op(kind, room='r1', user='bob', val=1, gap=0.05):
    op = {'k': kind, 'gap': gap}
    if kind == 'room_list':
        op.update(public=['r1'], owned=[], member=['r2'], operated=['r2'])
    elif kind == 'join_self':
        op.update(room=room, users=[ME, 'bob'], val=val)
    elif kind in SELF_KINDS:
        op['room'] = room
    elif kind == 'user_joined':
        op.update(room=room, user=user, status=1, val=val)
    elif kind in ('user_left', 'member_granted', 'member_revoked', 'op_granted', 'op_revoked', 'ticker_removed'):
        op.update(room=room, user=user)
    elif kind in ('members_list', 'operators_list'):
        op.update(room=room, users=['carol'])
    elif kind == 'tickers':
        op.update(room=room, tickers=[{'u': 'carol', 't': f't{val}c'}, {'u': 'alice', 't': f't{val}a'}])
    elif kind == 'ticker_added':
        op.update(room=room, user=user, text=f't{val}')
    elif kind == 'user_status':
        op.update(user=user, status=1, priv=True)
    elif kind == 'user_stats':
        op.update(user=user, val=val)
    elif kind == 'privileged_list':
        op['users'] = ['carol']
    elif kind == 'add_privileged':
        op['user'] = user
    elif kind in ('room_chat', 'public_chat'):
        op.update(room=room, user=user, text=f'm{val}')
    elif kind == 'private_chat':
        op.update(user=user, text=f'm{val}', id=val)
    return op


def corpus(tier):
    out = []
    base = {'seed': 1, 'net': {'base_ms': 5, 'jitter_ms': 0, 'segmentation': 'whole', 'coalesce': True},
            'blocked': {}, 'init_privileged': [], 'init_room_list': None}
    # 1. every ordered pair of notification kinds on (r1, bob / self) after our own join: complete enumeration
    for a in KINDS:
        for b in KINDS:
            out.append(dict(base, ops=[_directed_op('join_self', val=1, gap=0.05),
                                       _directed_op(a, val=2, gap=0.05), _directed_op(b, val=3, gap=0.0)]))
    # 2. every kind alone on an unknown room
    for a in KINDS:
        out.append(dict(base, ops=[_directed_op(a, room='r2', user='carol', val=4)]))
    # 3. chat kinds x block flags x sender
    for kind in ('room_chat', 'public_chat', 'private_chat'):
        for flag in (0, 1, 2, 3, 4, 63):
            out.append(dict(base, blocked={'bob': flag} if flag else {},
                            ops=[_directed_op('join_self', val=1), _directed_op(kind, val=2),
                                 _directed_op(kind, user='carol', val=3, gap=0.0)]))
    # 3b. the application tracks and untracks a user who sits in a joined room; status / stats updates around it
    for kind in ('user_status', 'user_stats', 'room_chat', 'ticker_added'):
        out.append(dict(base, ops=[_directed_op('join_self', val=1), {'k': 'track', 'user': 'bob', 'gap': 0.3},
                                   _directed_op('user_status', val=2, gap=0.5), {'k': 'untrack', 'user': 'bob', 'gap': 0.5},
                                   _directed_op(kind, val=3, gap=0.5), {'k': 'gc', 'gap': 0.4},
                                   _directed_op('user_joined', user='carol', val=4, gap=0.2)]))
    # 3c. the server connection is lost and the client logs in again; the application kept the user objects it was given
    for hold in (False, True):
        for kind in ('user_status', 'room_chat', 'ticker_added', 'join_self', 'add_privileged'):
            out.append(dict(base, hold_users=hold, ops=[
                _directed_op('join_self', val=1), _directed_op('user_stats', user='alice', val=2),
                _directed_op('user_stats', user='bob', val=3), _directed_op('user_status', user='bob', val=4),
                {'k': 'relogin', 'gap': 0.3}, _directed_op(kind, val=5, gap=0.3), {'k': 'gc', 'gap': 0.2},
                _directed_op('user_status', user='alice', val=6, gap=0.2)]))
    # 3d. empty strings where the wire allows them: an empty ticker text (set, replaced, removed), an empty chat message
    for first in ('t1', ''):
        out.append(dict(base, ops=[_directed_op('join_self', val=1), dict(_directed_op('ticker_added', val=2), text=first),
                                   dict(_directed_op('ticker_added', val=3), text=''),
                                   dict(_directed_op('ticker_added', user='carol', val=4), text=''),
                                   _directed_op('ticker_removed', val=5), dict(_directed_op('room_chat', val=6), text='')]))
    # 4. the composition patterns, one fixed instance each
    g = lambda k, **kw: dict({'k': k, 'gap': 0.05}, **kw)   # noqa: E731
    out.append(dict(base, ops=[g('member_granted', room='r2', user='bob'), g('op_granted', room='r2', user='bob'),
                               g('member_revoked', room='r2', user='bob'),
                               g('operators_list', room='r2', users=['carol'])]))
    out.append(dict(base, ops=[g('join_self', room='r1', users=[ME, 'bob'], val=1), g('leave_self', room='r1'),
                               g('user_joined', room='r1', user='carol', status=2, val=2),
                               g('join_self', room='r1', users=[ME, 'bob'], val=3)]))
    out.append(dict(base, ops=[g('member_granted_self', room='r2'), g('op_granted_self', room='r2'),
                               g('op_revoked_self', room='r2'), g('op_granted_self', room='r2')]))
    out.append(dict(base, ops=[g('tickers', room='r1', tickers=[{'u': 'carol', 't': 'x'}]),
                               g('ticker_removed', room='r1', user='bob'),
                               g('ticker_added', room='r1', user='bob', text='y')]))
    out.append(dict(base, ops=[g('join_self', room='r1', users=[ME, 'bob'], val=1),
                               g('room_list', public=['r2'], owned=[], member=[], operated=[]),
                               g('user_joined', room='r1', user='carol', status=2, val=2)]))
    for ann in (g('add_privileged', user='bob'), g('user_status', user='bob', status=1, priv=True),
                g('privileged_list', users=['bob'])):
        for with_gc in (False, True):
            ops = [g('user_joined', room='r1', user='bob', status=2, val=1), dict(ann),
                   g('user_left', room='r1', user='bob')]
            if with_gc:
                ops.append({'k': 'gc', 'gap': 0.05})
            ops.append(g('user_joined', room='r1', user='bob', status=1, val=2))
            out.append(dict(base, ops=ops))
    # privilege revoked by a status notification after a list, then the user is re-created
    out.append(dict(base, init_privileged=['bob'],
                    ops=[g('user_joined', room='r1', user='bob', status=2, val=1),
                         g('user_status', user='bob', status=2, priv=False),
                         g('user_left', room='r1', user='bob'),
                         g('user_joined', room='r1', user='bob', status=1, val=2)]))
    # a whole history in one segment, byte-wise and prf segmentation
    burst = [dict(_directed_op(k, val=i + 1), gap=0.0) for i, k in enumerate(
        ('join_self', 'tickers', 'user_joined', 'member_granted', 'op_granted', 'ticker_added', 'user_status',
         'user_left', 'members_list', 'operators_list', 'ticker_removed', 'leave_self'))]
    for seg in ('whole', 'byte', 'prf'):
        out.append(dict(base, net={'base_ms': 2, 'jitter_ms': 3, 'segmentation': seg, 'coalesce': True}, ops=burst))
    return out


def enumerated_axes(tier):
    return {
        'ordered_pairs_of_notification_kinds': {
            'size': len(KINDS) ** 2, 'exhaustive': True,
            'note': 'every ordered pair of the 25 notification kinds on (r1, bob/self) after an own join of r1',
        },
        'chat_kind_x_block_flag': {'size': 18, 'exhaustive': True,
                                   'note': '3 chat kinds x flags {0,1,2,3,4,63}, blocked and unblocked sender'},
    }


SHRINK_LISTS = ('ops',)


def simplify(plan):
    if plan.get('blocked'):
        yield dict(plan, blocked={})
    if plan.get('init_privileged'):
        yield dict(plan, init_privileged=[])
    if plan.get('init_room_list'):
        yield dict(plan, init_room_list=None)
    net = plan.get('net') or {}
    simple = {'base_ms': 5, 'jitter_ms': 0, 'segmentation': 'whole', 'coalesce': True}
    if net != simple:
        yield dict(plan, net=simple)
    ops = plan.get('ops', [])
    if any(o.get('gap') != 0.05 for o in ops):
        yield dict(plan, ops=[dict(o, gap=0.05) for o in ops])
    for i, o in enumerate(ops):
        if o.get('owner') is not None:
            o2 = {k: v for k, v in o.items() if k not in ('owner', 'operators')}
            yield dict(plan, ops=ops[:i] + [o2] + ops[i + 1:])


# ----------------------------------------------------------------------------- run

def run(plan):
    # A full gc.collect() over the interpreter's long-lived heap costs ~25 ms, far more than the run
    # itself.  Everything alive before the run is parked in the permanent generation for its duration,
    # so the explicit collections of the plan (and the one at the end of the run) only traverse objects
    # created by this run - which is all they are meant to decide.  The last collection below runs when
    # the world is unreachable, so the run's own cycles are reclaimed before the heap is thawed.
    gc.freeze()
    try:
        return _run_world(plan)
    finally:
        gc.collect()
        gc.unfreeze()


def _run_world(plan):
    world = World(plan, PROPERTY)
    try:
        return _run(world, plan)
    finally:
        world.close()


def _who(name):
    if name is None:
        return None
    return 'self' if name == ME else 'other'


def _set_diff(expected, got):
    parts = []
    missing = sorted(set(expected) - set(got))
    extra = sorted(set(got) - set(expected))
    if missing:
        parts.append('missing_' + '+'.join(sorted({_who(x) for x in missing})))
    if extra:
        parts.append('extra_' + '+'.join(sorted({_who(x) for x in extra})))
    return ','.join(parts) or 'order'


def _run(world: World, plan):
    loop = world.loop
    cfg = {'privileged': list(plan.get('init_privileged') or [])}
    if plan.get('init_room_list'):
        rl = plan['init_room_list']
        cfg['room_list'] = {
            'rooms': list(rl.get('public', [])), 'rooms_user_count': [3] * len(rl.get('public', [])),
            'rooms_private_owned': list(rl.get('owned', [])),
            'rooms_private_owned_user_count': [2] * len(rl.get('owned', [])),
            'rooms_private': list(rl.get('member', [])), 'rooms_private_user_count': [1] * len(rl.get('member', [])),
            'rooms_private_operated': list(rl.get('operated', [])),
        }
    server = world.add_server(cfg)
    blocked = {u: BlockingFlag(int(f)) for u, f in sorted((plan.get('blocked') or {}).items())}
    overrides = {'users': {'blocked': blocked}} if blocked else {}
    if any(op['k'] == 'relogin' for op in plan.get('ops', [])):
        overrides['network'] = {'server': {'reconnect': {'auto': True, 'timeout': 1}}}
    alice = world.add_client(ME, overrides=overrides or None)
    held = []                            # User objects the application keeps (plan['hold_users'])
    client = alice.client
    replica = Replica(ME)
    ops = plan.get('ops', [])

    pending_events: list[dict] = []
    state = {'started': False, 'sent': 0, 'delivered': 0, 'compared': 0}
    gc_after: set[int] = set()
    delivered_log: list[tuple] = []      # (kind, iteration, time) of plan notifications
    hook_error: list[BaseException] = []
    announced_users: set[str] = set()
    alive: set[str] = set()              # names with a live User object at the last comparison
    recreated: set[str] = set()          # announced before, no live object when the current message arrived

    # ------------------------------------------------------------------ oracle pieces
    def snapshot_room(room) -> RoomState:
        return RoomState(
            joined=bool(room.joined), users=tuple(u.name for u in room.users), owner=room.owner,
            members=frozenset(room.members), operators=frozenset(room.operators),
            tickers=tuple(room.tickers.items()), private=bool(room.private))

    def compare(note):
        kind = note['kind'] if note else None
        note_room = note.get('room') if note else None
        note_user = note.get('user') if note else None
        rooms = client.rooms.rooms
        for name in sorted(set(rooms) | set(replica.room_names()) | set(ROOMS)):
            room = rooms.get(name)
            obs = snapshot_room(room) if room is not None else None
            diffs = replica.observe_room(name, obs)
            if not diffs:
                continue
            touched = (kind == 'room_list') or (note_room == name)
            hist = replica.room_history.get(name, [])
            prev = (hist[-2] if len(hist) >= 2 else None) if touched else (hist[-1] if hist else None)
            for field, expected, got in diffs:
                facts = {'last': kind, 'who': _who(note_user) if kind not in SELF_KINDS else 'self',
                         'prev': prev, 'same_room': bool(touched)}
                if field in ('members', 'operators', 'users'):
                    facts['diff'] = _set_diff(expected, got)
                    if field == 'users' and len(set(got)) != len(got):
                        facts['diff'] = 'duplicate'
                elif field == 'tickers':
                    facts['diff'] = _set_diff([u for u, _ in expected], [u for u, _ in got])
                    if facts['diff'] == 'order' and dict(expected) != dict(got):
                        facts['diff'] = 'text'
                elif field == 'owner':
                    facts['expected'] = _who(expected)
                    facts['got'] = _who(got)
                else:
                    facts['expected'] = expected
                    facts['got'] = got
                if obs is None:
                    facts['room_absent'] = True
                world.violate(f'C19.room.{field}', **facts)
        # users referenced by a room or the session
        seen = []
        for name in sorted(rooms):
            for u in rooms[name].users:
                if not any(u is s for s in seen):
                    seen.append(u)
        session = client.session
        if session is not None and not any(session.user is s for s in seen):
            seen.append(session.user)
        if plan.get('hold_users') and getattr(replica, 'after_reset', False):
            # the application kept the objects it was given.  In a new session, a name about which nothing has been
            # announced yet has no statistics: what the library's table shows for it can only stem from the old session
            for u in list(client.users.users.values()):
                if any(u is s for s in seen) or u.name in replica.users or u.name in announced_users:
                    continue
                stats = (u.avg_speed, u.uploads, u.shared_file_count, u.shared_folder_count)
                if any(v is not None for v in stats):
                    bad = [STAT_NAMES[i] for i in range(4) if stats[i] is not None]
                    world.violate('C19.user.stats', last=kind, who=_who(u.name), decided_by='session_reset',
                                  about_user=False, stat=bad[0])
        seen.sort(key=lambda u: u.name)
        names = [u.name for u in seen]
        if len(set(names)) != len(names):
            world.probe('two_objects_for_one_user')
        for u in seen:
            status = u.status.value if u.status is not None else None
            stats = (u.avg_speed, u.uploads, u.shared_file_count, u.shared_folder_count)
            diffs = replica.observe_user(u.name, status, stats, bool(u.privileged))
            for field, expected, got, src in diffs:
                facts = {'last': kind, 'who': _who(u.name), 'decided_by': src,
                         'about_user': note_user == u.name or kind in ('join_self', 'privileged_list')}
                if field == 'stats':
                    bad = [STAT_NAMES[i] for i in range(4) if expected[i] != got[i]]
                    facts['stat'] = bad[0] if bad else None
                elif field == 'privileged':
                    facts['expected'] = expected
                    facts['got'] = got
                    facts['recreated'] = u.name in recreated
                else:
                    facts['expected'] = expected
                    facts['got'] = got
                world.violate(f'C19.user.{field}', **facts)
        del seen
        alive.clear()
        alive.update(client.users.users)
        state['compared'] += 1

    def check_events(note, events):
        kind = note['kind']
        want = EVENT_OF.get(kind)
        base = {'kind': kind}
        if kind in CHAT_FLAG:
            flag = int((plan.get('blocked') or {}).get(note['user'], 0))
            if flag & CHAT_FLAG[kind]:
                world.probe('chat_from_blocked_sender')
                for ev in events:
                    if ev['type'] in ('RoomMessageEvent', 'PublicMessageEvent', 'PrivateMessageEvent'):
                        world.violate('C19.blocked_event', kind=kind, flag=flag, event=ev['type'])
                return
        # the statement constrains what an emitted event carries; whether an event is emitted at all,
        # or accompanied by events of other types, is not part of it
        if want is None:
            return
        mine = [ev for ev in events if ev['type'] == want]
        if not mine:
            world.probe('notification_without_its_event')
            return
        for ev in mine:
            if 'room' in note and ev['room'] != note['room']:
                world.violate('C19.event_identity', what='wrong_room', event=want, **base)
            if kind in SELF_KINDS:
                if ev['user'] not in (None, ME):
                    world.violate('C19.event_identity', what='wrong_user', event=want, **base)
            elif 'user' in note:
                if ev['user'] != note['user']:
                    world.violate('C19.event_identity', what='wrong_user', event=want, who=_who(note['user']), **base)
            if kind == 'tickers' and ev['users'] != sorted({u for u, _ in note['tickers']}):
                world.violate('C19.event_identity', what='wrong_users', event=want, **base)
            if kind in ('members_list', 'operators_list') and ev['users'] != sorted(set(note['users'])):
                world.violate('C19.event_identity', what='wrong_users', event=want, **base)
            if kind in ('room_chat', 'public_chat', 'private_chat', 'ticker_added') and ev['text'] != note['text']:
                world.violate('C19.event_identity', what='wrong_text', event=want, **base)

    def on_server_message(msg):
        note = describe(msg)
        events = list(pending_events)
        pending_events.clear()
        if state['started']:
            state['delivered'] += 1
        if note is None:
            for ev in events:
                world.violate('C19.event_identity', what='unannounced_event', event=ev['type'],
                              kind=type(msg).__qualname__)
            compare(None)
            return
        if state['started']:
            delivered_log.append((note['kind'], loop.iterations, loop.time()))
            world.trace('note', note['kind'], note.get('room'), note.get('user'))
            # probes for the rare compositions
            room_alts = replica.rooms.get(note.get('room')) or []
            if note['kind'] == 'ticker_removed' and room_alts and all(
                    all(u != note['user'] for u, _ in s.tickers) for s in room_alts):
                world.probe('ticker_removed_absent')
            if note['kind'] == 'user_joined' and not any(s.joined for s in room_alts):
                world.probe('user_joined_while_not_joined')
            if note['kind'] == 'room_list':
                listed = set(note['public']) | set(note['owned']) | set(note['member'])
                if any(any(s.joined for s in alts) and r not in listed for r, alts in replica.rooms.items()):
                    world.probe('room_list_omits_joined_room')
            if note['kind'] in ('op_granted_self', 'op_revoked_self'):
                world.probe('own_operator_change')
        mentioned = []
        if note.get('user'):
            mentioned.append(note['user'])
        if note['kind'] == 'join_self':
            mentioned.extend(u['name'] for u in note['users'])
        if note['kind'] == 'privileged_list':
            mentioned.extend(note['users'])
        recreated.clear()
        recreated.update(n for n in mentioned if n in announced_users and n not in alive)
        if recreated and state['started']:
            world.probe('user_object_recreated')
        announced_users.update(mentioned)
        replica.apply(note)
        check_events(note, events)
        compare(note)
        if plan.get('hold_users'):
            for u in list(client.users.users.values()):
                if not any(u is h for h in held):
                    held.append(u)
        if state['started'] and state['delivered'] in gc_after:
            gc_after.discard(state['delivered'])
            gc.collect()
            world.trace('gc', 'after', state['delivered'])
            compare(None)

    def on_event(event):
        # the recorder must not keep User objects alive (they are held weakly by the library)
        alice.recorder.events.clear()
        if hook_error:
            return
        try:
            if isinstance(event, E.SessionDestroyedEvent):
                # everything the server said belongs to the session that ended: the fold starts again
                replica.__init__(ME)
                replica.after_reset = True
                pending_events.clear()
                announced_users.clear()
                alive.clear()
                recreated.clear()
                world.trace('session_destroyed')
            elif isinstance(event, E.MessageReceivedEvent):
                if isinstance(event.connection, ServerConnection):
                    on_server_message(event.message)
            elif isinstance(event, EVENT_CLASSES):
                pending_events.append(light_event(event))
        except BaseException as exc:  # noqa - the event bus would swallow it
            hook_error.append(exc)

    alice.recorder.hooks.append(on_event)

    async def main():
        await world.start_client(alice)
        await asyncio.sleep(1.0)
        state['started'] = True
        notifications = 0
        for op in ops:
            gap = float(op.get('gap', 0.0) or 0.0)
            if gap > 0:
                await asyncio.sleep(gap)
            if op['k'] == 'gc':
                if state['sent'] > state['delivered']:
                    gc_after.add(state['sent'])
                else:
                    gc.collect()
                    world.trace('gc', 'now')
                    compare(None)
                continue
            if op['k'] in ('track', 'untrack'):
                # the application tracks / untracks a user (the server's answer is folded like every announcement)
                from aioslsk.user.model import TrackingFlag
                world.net.fired['user_' + op['k']] += 1
                fn = client.users.track_user if op['k'] == 'track' else client.users.untrack_user
                c = world.call(alice, f"{op['k']}-{op['user']}", fn, op['user'], TrackingFlag.REQUESTED)
                await c.task
                continue
            if op['k'] == 'relogin':
                # the server connection is lost, the client logs in again by itself
                for sess in server.sessions:
                    if not sess.closed and getattr(sess, 'username', None) == ME:
                        world.net.fired['server_reset_then_relogin'] += 1
                        sess.abort()
                for _ in range(200):
                    await asyncio.sleep(0.1)
                    if client.session is None:
                        break
                for _ in range(300):
                    await asyncio.sleep(0.1)
                    if client.session is not None:
                        break
                await asyncio.sleep(1.0)
                continue
            if notifications >= MAX_NOTIFICATIONS:
                continue
            notifications += 1
            server.send_to(ME, build_message(op))
            state['sent'] += 1
        await asyncio.sleep(3.0)
        gc.collect()
        compare(None)

    world.run(main())
    if hook_error:
        raise hook_error[0]
    local = any(op['k'] in ('track', 'untrack', 'relogin') for op in ops)
    if state['delivered'] != state['sent'] and not (local and state['delivered'] > state['sent']):
        if not any(op['k'] == 'relogin' for op in ops):      # (a notification sent into the dying session is lost)
            raise RuntimeError(f"harness: {state['sent']} notifications sent, {state['delivered']} delivered")

    # probes / coverage
    iters = [it for (_, it, _) in delivered_log]
    if len(set(iters)) != len(iters):
        world.probe('notifications_handled_in_one_iteration')
    times = [t for (_, _, t) in delivered_log]
    if len(set(times)) != len(times):
        world.probe('notifications_delivered_in_one_instant')
    for rec in common.error_logs(world, 'exception notifying listener'):
        world.probe('listener_exception_logged')
        break
    for rec in common.error_logs(world, 'error during callback'):
        world.probe('callback_error_logged')
        break

    def who_class(op):
        if op['k'] in SELF_KINDS:
            return 's'
        u = op.get('user')
        return None if u is None else ('s' if u == ME else u[0])
    sig = [(op['k'], op.get('room'), who_class(op), (op.get('gap') or 0) > 0) for op in ops]
    nontrivial = len(delivered_log) >= 2
    return common.finish(world, nontrivial, [sig, plan.get('net', {}).get('segmentation'),
                                             sorted((plan.get('blocked') or {}).items())])

INFO['rule'] += " Round-5 additions: local steps track / untrack (the server's AddUser answer is folded), step relogin with the application keeping the User objects it was given (hold_users); after a session reset a name about which nothing was announced has no statistics."

INFO['rule'] += ' Round-6 additions: empty ticker and chat texts.'
