"""C20 - configured bandwidth limits are never exceeded and never stall a transfer.

Limiter level (DESIGN.md section 3 "C20", part (a)).  World: one real, never started
``SoulSeekClient``; its real ``Network`` holds 1..4 real (never connected) file
``PeerConnection`` objects registered the way ``Network`` registers them
(``peer_connections`` + ``_finalize_peer_connection``).  Consumer tasks do what
``PeerConnection.send_file`` / ``receive_file`` do per chunk: read the limiter attribute of
their connection, ``await limiter.take_tokens()``, then spend a plan-chosen gap.  A controller
changes the limits through the public calls (``Network.set_upload_speed_limit`` /
``set_download_speed_limit`` / settings + ``load_speed_limits``) at plan instants or a planned
delay after a consumer got blocked inside ``take_tokens``.

Oracle: models/rate.py over (configured limit history, grant history), nothing else.
"""
from __future__ import annotations

import asyncio

from sim.world import World
from models import rate
from . import common

PROPERTY = 'C20'
INFO = {
    'level': 'exploration',
    'rule': ('plans = side(s) x initial limit {0,1,2,10,64,1000,10000} KiB/s x 1..4 consumers (one file connection '
             'each; gap regimes back-to-back / sub-ms / 10 ms aligned / seconds / one long idle; optional batches '
             'without yielding; staggered starts) x 0..6 limit changes (raise, lower, to/from unlimited, same value; '
             'via set_*_speed_limit or settings+load_speed_limits; at plan instants or a planned delay after the '
             'n-th time a consumer blocks inside take_tokens); non-trivial = some take_tokens call had to wait, or a '
             'limit change was applied between grants; distinct = signature over (limit sequence and change kinds, '
             'consumers waiting at each change, gap regimes, log2 grant counts per constant-limit piece, log2 '
             'number of waits)'),
    'real': common.REAL,
    'stub': common.STUB,
    'assumptions': [
        'the limiter clock (module attribute time in aioslsk.network.rate_limiter) is the virtual loop clock',
        'limit in force = last value the application configured through the public calls (sequence order within '
        'one virtual instant)',
        'the window [t_i, t_j] of two grants contains the grants between them in sequence order; "connections" in '
        'the slack term and n in the wait bound = consumers of that direction in the plan',
        'a take_tokens call that spans limit changes is held to the most lenient bound B of the positive limits in '
        'force during the call',
        'every real caller of take_tokens (send_file / receive_file) passes through the executor between two '
        'chunks, so "gap 0" is one loop iteration (sleep(0)); consumers that take tokens without yielding at all '
        'exist in plans only to get past the burst of limits >= 1000 KiB/s; a call of another consumer that '
        'waits meanwhile is held to the wait bound only over its longest stretch without such a caller',
        'per run at most ~1500 grant events (batches of grants obtained without yielding count as one event); the '
        'window check itself is exact for every pair of recorded grants',
    ],
}

LIMITS = (1, 2, 10, 64, 1000, 10000)
LIMIT_WEIGHTS = (4, 3, 3, 2, 1, 1)
SIDES = ('up', 'down')
MAX_EVENTS = 1500
MAX_RAW = 130_000
HORIZON = 3000.0
EPS_T = 1e-9

SETTER = {'up': 'set_upload_speed_limit', 'down': 'set_download_speed_limit'}
ATTR = {'up': 'upload_rate_limiter', 'down': 'download_rate_limiter'}
SETTING = {'up': 'upload_speed_kbps', 'down': 'download_speed_kbps'}


# ----------------------------------------------------------------------------- generator

def _draw_limit(rng, exclude=None):
    while True:
        v = rng.choices(LIMITS, LIMIT_WEIGHTS)[0]
        if v != exclude:
            return v


def _draw_gaps(rng, regime):
    if regime == 'b2b':
        return [0.0]
    if regime == 'subms':
        return [round(rng.uniform(0.00005, 0.00095), 6) for _ in range(rng.choice((1, 1, 2, 3)))]
    if regime == 'aligned':
        return rng.choice(([0.01], [0.02], [0.03], [0.0, 0.01], [0.01, 0.0, 0.0], [0.1]))
    if regime == 'seconds':
        return [round(rng.uniform(0.3, 3.0), 3) for _ in range(rng.choice((1, 2)))]
    raise ValueError(regime)


def _draw_start(rng):
    r = rng.random()
    if r < 0.35:
        return 0.0
    if r < 0.6:
        return round(rng.uniform(0.00002, 0.00099), 6)
    if r < 0.75:
        return rng.choice((0.0025, 0.005, 0.0075, 0.01, 0.02))
    return round(rng.uniform(0.0, 2.0), 4)


def generate(rng, index, tier):
    if rng.random() < 0.08:
        from . import c20_pair
        return c20_pair.generate(rng, index, tier)
    mode = rng.choices(('up', 'down', 'both'), (0.6, 0.2, 0.2))[0]
    sides = list(SIDES) if mode == 'both' else [mode]
    initial = {}
    for side in SIDES:
        initial[side] = (0 if rng.random() < 0.15 else _draw_limit(rng)) if side in sides else 0
    n = rng.randint(1, 4)
    per = MAX_EVENTS // (n * len(sides))
    consumers = []
    cid = 0
    raw = 0
    for side in sides:
        for k in range(n):
            regime = rng.choice(('b2b', 'b2b', 'subms', 'aligned', 'seconds', 'idle'))
            spec = {'id': cid, 'conn': k, 'side': side, 'start': _draw_start(rng)}
            cid += 1
            base = regime
            if regime == 'idle':
                base = rng.choice(('b2b', 'subms', 'aligned'))
            spec['gaps'] = _draw_gaps(rng, base)
            if base == 'seconds':
                count = rng.choice((4, 10, 25))
            else:
                count = rng.choice((8, 20, 60, 150, 400))
            spec['count'] = min(count, per)
            if regime == 'idle':
                spec['idle_at'] = rng.randrange(spec['count'])
                spec['idle_s'] = rng.choice((30.0, 61.5, 120.0, 600.0))
            if initial[side] >= 1000 and rng.random() < 0.25 and raw < MAX_RAW // 2:
                # past the burst of a high limit only with grants that do not yield in between
                spec['batch'] = rng.choice((64, 512, 2048))
                spec['count'] = min(spec['count'], rng.choice((8, 20, 40)))
                raw += spec['batch'] * spec['count']
            if rng.random() < 0.1:
                spec['late'] = True      # connection registered only when the consumer starts
            consumers.append(spec)
    # rough duration of the active part, for placing timed changes
    est = 1.0
    for side in sides:
        lim = initial[side] or 10000
        tot = sum(c['count'] * c.get('batch', 1) * 128 for c in consumers if c['side'] == side)
        est = max(est, min(300.0, tot / (1024.0 * lim)))
    changes = []
    cur = dict(initial)
    for _ in range(rng.randint(0, 6)):
        side = rng.choice(sides)
        prev = cur[side]
        kind = rng.choice(('raise', 'lower', 'to_unlimited', 'from_unlimited', 'same'))
        if prev == 0:
            new = _draw_limit(rng) if kind != 'same' and kind != 'to_unlimited' else 0
            if kind == 'to_unlimited':
                new = _draw_limit(rng)
        elif kind == 'same':
            new = prev
        elif kind == 'to_unlimited' or kind == 'from_unlimited':
            new = 0
        elif kind == 'raise':
            higher = [v for v in LIMITS if v > prev]
            new = rng.choice(higher) if higher else _draw_limit(rng, prev)
        else:
            lower = [v for v in LIMITS if v < prev]
            new = rng.choice(lower) if lower else _draw_limit(rng, prev)
        cur[side] = new
        ch = {'side': side, 'kbps': new, 'via': 'settings' if rng.random() < 0.2 else 'set'}
        mine = [c['id'] for c in consumers if c['side'] == side]
        if rng.random() < 0.3:
            ch['trigger'] = {'consumer': rng.choice(mine), 'nth': rng.choice((1, 1, 2, 3, 5, 10, 30)),
                             'delay': rng.choice((0.0, 0.0, 0.001, 0.005, 0.0099, 0.01, 0.0101, 0.05, 0.5))}
        else:
            r = rng.random()
            if r < 0.1:
                at = 0.0
            elif r < 0.2:
                at = round(rng.uniform(0.00002, 0.00099), 6)
            elif r < 0.4:
                at = 0.01 * rng.randint(1, 200)
            elif r < 0.6:
                at = round(rng.uniform(0.0, 2.0), 4)
            else:
                at = round(rng.uniform(0.0, est), 4)
            ch['at'] = at
        changes.append(ch)
    return {'seed': rng.getrandbits(32), 'initial': initial, 'consumers': consumers, 'changes': changes}


def _consumers(side, n, count, gaps=(0.0,), starts=None, **extra):
    out = []
    for k in range(n):
        spec = {'id': k if side == 'up' else 10 + k, 'conn': k, 'side': side,
                'start': (starts[k] if starts else 0.0), 'gaps': list(gaps), 'count': count}
        spec.update(extra)
        out.append(spec)
    return out


def _saturating(limit, n=2):
    """Consumers that get past the burst of ``limit`` and keep asking; returns (consumers, seconds the
    saturated phase lasts)."""
    if limit == 0:
        return _consumers('up', n, 40, gaps=(0.01,)), 0.4
    if limit <= 64:
        post = 60
        return _consumers('up', n, limit * 8 // n + post), n * post * 128 / (1024.0 * limit)
    batch, post = (512, 12) if limit == 1000 else (4096, 3)
    return (_consumers('up', n, (limit * 8) // (batch * n) + post, batch=batch),
            n * post * batch * 128 / (1024.0 * limit))


def _transition_plans():
    """Exhaustive axis: every ordered pair of limit values x {timed while saturated, inside a wait}."""
    values = (0,) + LIMITS
    out = []
    for a in values:
        for b in values:
            for placement in ('timed', 'trigger'):
                if a == 0 and placement == 'trigger':
                    continue        # nobody ever waits under "no limit"
                cons, lasts = _saturating(a)
                # connections opened after the change get the limiter in force
                more = _consumers('up', 2, 40, late=True)
                for c in more:
                    c['id'] += 4
                    c['conn'] += 2
                    c['start'] = round(lasts + 3.0, 3)
                ch = {'side': 'up', 'kbps': b, 'via': 'set'}
                if placement == 'timed':
                    ch['at'] = round(lasts / 2, 3) + 0.0005
                else:
                    ch['trigger'] = {'consumer': 0, 'nth': 2, 'delay': 0.005}
                out.append({'seed': 7, 'initial': {'up': a, 'down': 0}, 'consumers': cons + more, 'changes': [ch],
                            '_axis': 'transition'})
    return out


def corpus(tier):
    from . import c20_pair
    out = list(c20_pair.corpus(tier))
    # 1. constant limit, one and four saturating consumers
    for lim in (0,) + LIMITS:
        for n in (1, 4):
            out.append({'seed': 1, 'initial': {'up': lim, 'down': 0}, 'consumers': _saturating(lim, n)[0],
                        'changes': []})
    # 2. low limits, staggered starts (sub-ms and 10 ms aligned phases), long runs
    for lim in (1, 2):
        for starts in ((0.0, 0.0001, 0.0002, 0.0003), (0.0, 0.0025, 0.005, 0.0075), (0.0, 0.01, 0.02, 0.03)):
            for n in (2, 4):
                out.append({'seed': 2, 'initial': {'up': lim, 'down': 0},
                            'consumers': _consumers('up', n, 360, starts=starts), 'changes': []})
    # 3. gap regimes at a low limit
    for gaps in ([0.0], [0.0004], [0.01], [0.0, 0.01], [1.5]):
        out.append({'seed': 3, 'initial': {'up': 2, 'down': 0},
                    'consumers': _consumers('up', 3, 25 if gaps == [1.5] else 200, gaps=gaps,
                                            starts=(0.0, 0.0003, 0.005)), 'changes': []})
    # 4. long idle then burst, then a change right after the idle period
    for lim, new in ((1, 10000), (10000, 1), (10, 10), (64, 0)):
        cons = _consumers('up', 2, 120, idle_at=40, idle_s=120.0)
        out.append({'seed': 4, 'initial': {'up': lim, 'down': 0}, 'consumers': cons,
                    'changes': [{'side': 'up', 'kbps': new, 'via': 'set', 'at': 100.0}]})
    # 5. lowering a full bucket (never used) and asking at once
    for lim in (10000, 1000, 64):
        for new in (1, 2, 10):
            out.append({'seed': 5, 'initial': {'up': lim, 'down': 0},
                        'consumers': _consumers('up', 1, 300, starts=(0.5,)),
                        'changes': [{'side': 'up', 'kbps': new, 'via': 'set', 'at': 0.25}]})
    # 6. the same value again and again while saturated
    for lim in (1, 10):
        out.append({'seed': 6, 'initial': {'up': lim, 'down': 0}, 'consumers': _consumers('up', 2, 200),
                    'changes': [{'side': 'up', 'kbps': lim, 'via': 'set', 'at': 2.0 + 0.01 * k} for k in range(6)]})
        out.append({'seed': 6, 'initial': {'up': lim, 'down': 0}, 'consumers': _consumers('up', 2, 200),
                    'changes': [{'side': 'up', 'kbps': lim, 'via': 'set',
                                 'trigger': {'consumer': 0, 'nth': 3 + k, 'delay': 0.005}} for k in range(6)]})
    # 7. download side and settings reload (replaces both limiters)
    out.append({'seed': 7, 'initial': {'up': 2, 'down': 1},
                'consumers': _consumers('up', 2, 150) + _consumers('down', 2, 150),
                'changes': [{'side': 'down', 'kbps': 10, 'via': 'settings', 'at': 1.0},
                            {'side': 'up', 'kbps': 1, 'via': 'settings', 'at': 2.0},
                            {'side': 'down', 'kbps': 0, 'via': 'set', 'at': 4.0},
                            {'side': 'down', 'kbps': 2, 'via': 'set', 'at': 4.5}]})
    # 8. connection registered after a change
    out.append({'seed': 8, 'initial': {'up': 64, 'down': 0},
                'consumers': _consumers('up', 2, 200, starts=(0.0, 1.0), late=True),
                'changes': [{'side': 'up', 'kbps': 1, 'via': 'set', 'at': 0.5}]})
    # 9. exhaustive transition axis
    out.extend(_transition_plans())
    return out


def enumerated_axes(tier):
    return {'limit_transition': {
        'size': 91, 'exhaustive': True,
        'what': ('every ordered pair (from, to) of {0,1,2,10,64,1000,10000} KiB/s with the change at a plan instant '
                 'while two consumers saturate the old limit (49), and for from > 0 also 5 ms after a consumer '
                 'blocked inside take_tokens (42); two connections opened later pick up the limiter in force'),
    }}


SHRINK_LISTS = ('consumers', 'changes')


def simplify(plan):
    if plan.get('shape') == 'pair':
        return
    for i, c in enumerate(plan.get('consumers', [])):
        if c.get('batch', 1) > 1:
            for nb in (1, c['batch'] // 2):
                p = _copy(plan)
                p['consumers'][i]['batch'] = nb
                yield p
        if c['count'] > 1:
            for nc in (c['count'] // 2, c['count'] - 1):
                if nc >= 1:
                    p = _copy(plan)
                    p['consumers'][i]['count'] = nc
                    if 'idle_at' in c and c['idle_at'] >= nc:
                        p['consumers'][i]['idle_at'] = nc - 1
                    yield p
        if 'idle_at' in c:
            p = _copy(plan)
            del p['consumers'][i]['idle_at']
            p['consumers'][i].pop('idle_s', None)
            yield p
        if c.get('late'):
            p = _copy(plan)
            del p['consumers'][i]['late']
            yield p
        if c['gaps'] != [0.0]:
            p = _copy(plan)
            p['consumers'][i]['gaps'] = [0.0]
            yield p
            if len(c['gaps']) > 1:
                p = _copy(plan)
                p['consumers'][i]['gaps'] = c['gaps'][:1]
                yield p
        if c['start'] != 0.0:
            p = _copy(plan)
            p['consumers'][i]['start'] = 0.0
            yield p
    for i, ch in enumerate(plan.get('changes', [])):
        if ch.get('via') == 'settings':
            p = _copy(plan)
            p['changes'][i]['via'] = 'set'
            yield p
    for side in SIDES:
        if plan['initial'].get(side) and not any(c['side'] == side for c in plan.get('consumers', [])):
            p = _copy(plan)
            p['initial'][side] = 0
            yield p


def _copy(plan):
    import copy
    return copy.deepcopy(plan)


# ----------------------------------------------------------------------------- run

def run(plan):
    if plan.get('shape') == 'pair':
        from . import c20_pair
        return c20_pair.run(plan)
    world = World(plan, PROPERTY)
    try:
        return _run(world, plan)[0]
    finally:
        world.close()


class _Call:
    __slots__ = ('cid', 'side', 'seq', 't', 'it', 'limit', 'end_seq', 'end_t', 'counted')

    def __init__(self, cid, side, seq, t, it, limit):
        self.cid, self.side, self.seq, self.t, self.it, self.limit = cid, side, seq, t, it, limit
        self.end_seq = None
        self.end_t = None
        self.counted = False


def _run(world: World, plan, detail=False):
    from aioslsk.network.connection import PeerConnection, PeerConnectionType

    loop = world.loop
    initial = {side: int(plan['initial'].get(side, 0)) for side in SIDES}
    alice = world.add_client('alice', overrides={'network': {'limits': {
        'upload_speed_kbps': initial['up'], 'download_speed_kbps': initial['down']}}})
    network = alice.client.network
    settings = alice.settings
    specs = plan.get('consumers', [])
    changes = plan.get('changes', [])
    n_side = {side: sum(1 for c in specs if c['side'] == side) for side in SIDES}
    max_events = plan.get('max_events', MAX_EVENTS)

    seq = [0]
    t0 = [loop.time()]
    force = dict(initial)                     # limit in force = last configured value
    events = {side: [] for side in SIDES}     # ('g', t, bytes, cid, seq, iteration, count) | ('c', t, kbps, seq)
    waits = {side: [] for side in SIDES}      # _Call objects that did not return in the iteration they started in
    current = {}                              # cid -> _Call in flight
    blocked_count = {}
    change_log = {side: [] for side in SIDES}   # (seq, t, prev, new, waiting consumers)
    totals = {'events': 0, 'raw': 0, 'immediate': 0}
    # calls issued without yielding since the previous grant of the same consumer: [t, first seq, last seq]
    noyield = {side: [] for side in SIDES}
    stop = [False]
    conns = {}

    def next_seq():
        seq[0] += 1
        return seq[0]

    def connection(k):
        conn = conns.get(k)
        if conn is None:
            conn = PeerConnection(f'10.0.0.{k + 1}', 2234, network, username=f'peer{k}',
                                  connection_type=PeerConnectionType.FILE)
            network.peer_connections.append(conn)
            network._finalize_peer_connection(conn)
            conns[k] = conn
            world.trace('register', k)
        return conn

    def apply_change(ch):
        side = ch['side']
        kbps = int(ch['kbps'])
        waiting = sum(1 for c in current.values() if c.side == side and c.it < loop.iterations)
        touched = [side]
        if ch.get('via') == 'settings':
            setattr(settings.network.limits, SETTING[side], kbps)
            network.load_speed_limits()
            touched = ['down', 'up']          # both limiters are replaced
        else:
            getattr(network, SETTER[side])(kbps)
        for s in touched:
            # load_speed_limits configures both directions with what the settings hold
            new = kbps if s == side else int(getattr(settings.network.limits, SETTING[s]))
            if s != side and n_side[s] == 0:
                continue
            w = waiting if s == side else sum(1 for c in current.values() if c.side == s and c.it < loop.iterations)
            sq = next_seq()
            change_log[s].append((sq, loop.time(), force[s], new, w))
            events[s].append(('c', loop.time(), new, sq))
            world.trace('change', s, new, w)
            if w:
                world.probe('change_while_consumer_waits')
            force[s] = new

    triggers = {}
    for ch in changes:
        trig = ch.get('trigger')
        if trig:
            triggers.setdefault((trig['consumer'], trig['nth']), []).append(ch)

    def monitor():
        it = loop.iterations
        for cid, call in current.items():
            if not call.counted and call.it < it:
                call.counted = True
                k = blocked_count[cid] = blocked_count.get(cid, 0) + 1
                for ch in triggers.get((cid, k), ()):
                    delay = ch['trigger'].get('delay', 0.0)
                    if delay <= 0:
                        loop.call_soon(apply_change, ch)
                    else:
                        loop.call_later(delay, apply_change, ch)

    if triggers:
        loop.monitors.append(monitor)

    async def sleep_until(when):
        if when <= loop.time():
            return
        fut = loop.create_future()
        loop.call_at(when, lambda: fut.done() or fut.set_result(None))
        await fut

    async def consumer(spec):
        cid, side = spec['id'], spec['side']
        attr = ATTR[side]
        await sleep_until(t0[0] + spec['start'])
        conn = connection(spec['conn'])
        gaps = spec['gaps'] or [0.0]
        batch = spec.get('batch', 1)
        log = events[side]
        for step in range(spec['count']):
            for b in range(batch):
                if stop[0] or totals['events'] >= max_events or totals['raw'] >= MAX_RAW:
                    return
                call = _Call(cid, side, next_seq(), loop.time(), loop.iterations, force[side])
                if b:
                    marks = noyield[side]
                    if marks and marks[-1][0] == call.t:
                        marks[-1][2] = call.seq
                    else:
                        marks.append([call.t, call.seq, call.seq])
                current[cid] = call
                try:
                    granted = await getattr(conn, attr).take_tokens()
                finally:
                    del current[cid]
                now, it = loop.time(), loop.iterations
                call.end_seq = next_seq()
                call.end_t = now
                totals['raw'] += 1
                if it != call.it:
                    waits[side].append(call)
                else:
                    totals['immediate'] += 1
                last = log[-1] if log else None
                if (last is not None and last[0] == 'g' and last[3] == cid and last[5] == it == call.it
                        and last[4] == call.seq - 1):
                    # back-to-back grant of the same consumer in one loop iteration and no other event
                    # (grant, call, change) in between: one event; exact for the window check
                    log[-1] = ('g', now, last[2] + granted, cid, call.end_seq, it, last[6] + 1)
                else:
                    log.append(('g', now, granted, cid, call.end_seq, it, 1))
                    totals['events'] += 1
                    world.trace('grant', side, cid, granted)
            if spec.get('idle_at') == step:
                await asyncio.sleep(spec.get('idle_s', 60.0))
            else:
                await asyncio.sleep(gaps[step % len(gaps)])

    async def controller():
        timed = sorted((ch for ch in changes if 'trigger' not in ch), key=lambda ch: ch['at'])
        for ch in timed:
            await sleep_until(t0[0] + ch['at'])
            apply_change(ch)

    in_flight = []
    t_end = [None]

    async def main():
        nonlocal in_flight
        t0[0] = loop.time()
        for spec in specs:
            if not spec.get('late'):
                connection(spec['conn'])
        tasks = [alice.spawn(consumer(spec), name=f"consumer-{spec['id']}") for spec in specs]
        ctl = alice.spawn(controller(), name='controller')
        while loop.time() < t0[0] + HORIZON:
            pending = [t for t in tasks if not t.done()]
            if not pending:
                break
            await asyncio.wait(pending, timeout=1.0)
            now = loop.time()
            late = False
            for call in current.values():
                if call.limit <= 0:
                    late = late or now - call.t > 6.0
                    continue
                since = call.t
                marks = noyield[call.side]
                if marks and marks[-1][2] > call.seq:
                    since = max(since, marks[-1][0])
                lims = [call.limit] + [c[3] for c in change_log[call.side] if c[0] > call.seq]
                pos = [v for v in lims if v > 0]
                if now - since > rate.wait_bound(min(pos), n_side[call.side]) + 1.0:
                    late = True
            if late and not plan.get('full'):
                break      # verdict is settled; 'full': true in a plan lets the run go on (triage)
        stop[0] = True
        in_flight = sorted(current.values(), key=lambda c: c.seq)
        t_end[0] = loop.time()
        for t in tasks + [ctl]:
            if not t.done():
                t.cancel()
        res = await asyncio.gather(*tasks, ctl, return_exceptions=True)
        for r in res:
            if isinstance(r, BaseException) and not isinstance(r, asyncio.CancelledError):
                raise r

    world.run(main())

    # ------------------------------------------------------------------ oracle
    nontrivial = False
    sig = []
    details = []
    for side in SIDES:
        if not n_side[side]:
            continue
        n = n_side[side]
        log = events[side]
        model_events = [(e[0], e[1], e[2], e[3]) if e[0] == 'g' else ('c', e[1], e[2]) for e in log]
        findings, stats = rate.window_findings(initial[side], t0[0], model_events, n)
        for f in findings:
            world.violate('C20.window', side=side, changes=min(f['changes'], 3), direction=f['direction'],
                          after=f['after'])
            details.append(('C20.window', side, f))
        if stats['tightest'] >= 0.9:
            world.probe('window_bound_reached_90pct')
        if stats['grants'] and stats['pieces'] > stats['segments']:
            world.probe('window_spans_change')

        # calls that had to wait
        clog = change_log[side]
        all_waits = list(waits[side]) + [c for c in in_flight if c.side == side]
        for call in all_waits:
            during = [c for c in clog if call.seq < c[0] and (call.end_seq is None or c[0] < call.end_seq)]
            seen = [call.limit] + [c[3] for c in during]
            if call.limit == 0:
                before = [c for c in clog if c[0] < call.seq]
                opened = rate.classify(before[-1][2], before[-1][3]) if before else 'start'
                end_t = call.end_t if call.end_t is not None else t_end[0]
                world.violate('C20.unlimited_throttled', side=side, after=opened,
                              clock_advanced=bool(end_t > call.t), returned=call.end_t is not None)
                details.append(('C20.unlimited_throttled', side, {'t': call.t - t0[0], 'end': end_t - t0[0]}))
                continue
            pos = [v for v in seen if v > 0]
            bound = rate.wait_bound(min(pos), n)
            end_t = call.end_t if call.end_t is not None else t_end[0]
            waited = end_t - call.t
            # Stretches of the wait during which another consumer kept asking without ever yielding to the
            # loop (harness-only regime, see INFO) carry no claim: judge the longest stretch without one.
            marks = [m[0] for m in noyield[side]
                     if m[2] > call.seq and (call.end_seq is None or m[1] < call.end_seq)]
            if marks:
                world.probe('wait_overlaps_noyield_consumer')
                edges = [call.t] + [min(max(t, call.t), end_t) for t in marks] + [end_t]
                waited = max(b - a for a, b in zip(edges, edges[1:]))
            if waited > bound + EPS_T:
                # bandwidth handed to the other connections of this direction while the call waited
                others = sum(e[2] for e in log if e[0] == 'g' and e[3] != call.cid and e[4] > call.seq
                             and (call.end_seq is None or e[4] < call.end_seq))
                world.violate('C20.wait', side=side, limit_kbps=min(pos), consumers=n,
                              others_served=bool(others >= 2 * rate.CHUNK),
                              returned=call.end_t is not None, spans_change=bool(during),
                              spans_unlimited=any(v == 0 for v in seen))
                details.append(('C20.wait', side, {'cid': call.cid, 't': call.t - t0[0], 'waited': waited,
                                                  'bound': bound, 'seen': seen, 'bytes_to_others': others}))
            elif waited > 0.5 * bound:
                world.probe('wait_over_half_bound')
        if waits[side]:
            nontrivial = True
            world.probe('take_tokens_waited', len(waits[side]))
        grants_seq = [e[4] for e in log if e[0] == 'g']
        for c in clog:
            if grants_seq and grants_seq[0] < c[0] < grants_seq[-1]:
                nontrivial = True
                break
        pieces = []
        cnt = 0
        for e in log:
            if e[0] == 'c':
                pieces.append(cnt.bit_length())
                cnt = 0
            else:
                cnt += e[6]
        pieces.append(cnt.bit_length())
        sig.append((side, initial[side],
                    tuple((rate.classify(c[2], c[3]), c[3], c[4] > 0) for c in clog),
                    tuple(sorted((_regime(s), s.get('batch', 1) > 1, 'idle_at' in s) for s in specs if s['side'] == side)),
                    tuple(pieces), len(waits[side]).bit_length()))
    for rec in world.loop.exc_contexts:
        # a consumer or library callback died: harness problem, not a verdict
        raise RuntimeError(f"loop exception handler called: {rec}")
    world.trace('totals', totals['events'], totals['raw'], totals['immediate'])
    result = common.finish(world, nontrivial, sig)
    return result, {'details': details, 'events': events, 'waits': waits, 'in_flight': in_flight,
                    'change_log': change_log, 't0': t0[0], 'totals': totals}


def _regime(spec):
    gaps = spec['gaps']
    if all(g == 0.0 for g in gaps):
        return 'b2b'
    if max(gaps) < 0.001:
        return 'subms'
    if all(abs(g * 100 - round(g * 100)) < 1e-9 for g in gaps):
        return 'aligned'
    return 'seconds'


# ----------------------------------------------------------------------------- triage helper

def explain(plan, cross_check=False):
    """Run a plan and print what the oracle saw (python -m checks.c20 REPLAY.json)."""
    world = World(plan, PROPERTY)
    try:
        result, info = _run(world, plan, detail=True)
    finally:
        world.close()
    print('violations:', result['violations'])
    print('probes:', result['probes'], 'totals:', info['totals'], 'sim_time:', round(result['sim_time'], 3))
    for side in SIDES:
        log = info['events'][side]
        if not log:
            continue
        print(f"-- {side}: {sum(1 for e in log if e[0] == 'g')} grant events, changes:",
              [(round(c[1] - info['t0'], 6), c[2], c[3], c[4]) for c in info['change_log'][side]])
        if cross_check:
            n = sum(1 for c in plan['consumers'] if c['side'] == side)
            ev = [(e[0], e[1], e[2], e[3]) if e[0] == 'g' else ('c', e[1], e[2]) for e in log]
            print('   brute force (count, worst excess):',
                  rate.brute_force_findings(plan['initial'].get(side, 0), info['t0'], ev, n))
    for d in info['details'][:12]:
        print('  ', d)
    return result, info


if __name__ == '__main__':  # pragma: no cover
    import json
    import sys
    from sim import seams
    seams.install()
    rec = json.load(open(sys.argv[1]))
    explain(rec.get('plan', rec), cross_check='--brute' in sys.argv)
