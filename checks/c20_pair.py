"""C20, transfer level: two real clients move a file under upload / download limits that change at
run time; the bytes moved are the per-iteration deltas of the public Transfer.bytes_transfered
counters, judged by the same window oracle as the limiter-level shape (models/rate.py)."""
from __future__ import annotations

import asyncio
import os

from aioslsk.events import TransferAddedEvent
from aioslsk.transfer.model import TransferDirection

from models import rate as R
from sim.world import World
from sim.xfer import pattern_bytes
from . import common

LIMITS = (1, 2, 10, 64)


def pair_plan(side='up', limit=10, seconds=4.0, changes=(), seed=1, **kw):
    plan = {'seed': seed, 'shape': 'pair', 'side': side, 'limit': limit,
            'size': int(limit * 1024 * seconds) + 1024 * limit,       # burst + a few seconds of rate
            'changes': [dict(c) for c in changes],
            'net': {'base_ms': 2, 'jitter_ms': 0, 'segmentation': 'whole', 'coalesce': True},
            'exec': {'delay_ms': [0, 1]}}
    plan.update(kw)
    return plan


def corpus(tier):
    out = []
    for side in ('up', 'down'):
        for limit in LIMITS:
            out.append(pair_plan(side, limit))
        out.append(pair_plan(side, 10, changes=[{'at': 1.5, 'kbps': 64}]))
        out.append(pair_plan(side, 64, changes=[{'at': 1.0, 'kbps': 2}], seconds=1.5))
        out.append(pair_plan(side, 10, changes=[{'at': 1.0, 'kbps': 0}]))
        out.append(pair_plan(side, 10, changes=[{'at': 1.0, 'kbps': 10}, {'at': 2.0, 'kbps': 1}, {'at': 3.0, 'kbps': 64}]))
        # a limit set at run time (not in the settings), then the server connection is lost and the client logs in again
        out.append(pair_plan(side, 10, seconds=8.0, runtime_limit=True, relogin=1.5))
        out.append(pair_plan(side, 10, seconds=8.0, changes=[{'at': 0.5, 'kbps': 2}], relogin=1.5))
    return out


def generate(rng, index, tier):
    side = rng.choice(('up', 'down'))
    limit = rng.choice(LIMITS)
    changes = []
    t = 0.0
    for _ in range(rng.choice([0, 0, 1, 2, 3])):
        t += rng.choice([0.3, 1.0, 2.5])
        changes.append({'at': round(t, 3), 'kbps': rng.choice(LIMITS + (0,))})
    plan = pair_plan(side, limit, seconds=rng.choice([1.0, 3.0, 6.0]), changes=changes, seed=rng.getrandbits(32))
    net = common.draw_net(rng)
    plan['net'] = net
    plan['exec'] = {'delay_ms': [0, rng.choice([1, 5])]}
    if rng.random() < 0.2:
        plan['runtime_limit'] = rng.random() < 0.5
        plan['relogin'] = rng.choice([0.5, 1.5, 3.0])
    return plan


def run(plan):
    world = World(plan, 'C20')
    try:
        return _run(world, plan)
    finally:
        world.close()


def _run(world: World, plan):
    loop = world.loop
    side = plan['side']
    size = min(plan['size'], 600_000)
    source = pattern_bytes(size, 11)
    server = world.add_server()
    share_dir = world.sandbox.sub('alice', 'share')
    with open(os.path.join(share_dir, 'data.bin'), 'wb') as fh:
        fh.write(source)
    alice = world.add_client('alice', overrides={
        'shares': {'scan_on_start': False, 'directories': [{'path': share_dir}]},
        'network': {'limits': {'upload_speed_kbps': plan['limit'] if side == 'up' and not plan.get('runtime_limit') else 0},
                    'server': {'reconnect': {'auto': True, 'timeout': 1}}}})
    bob = world.add_client('bob', overrides={
        'network': {'limits': {'download_speed_kbps': plan['limit'] if side == 'down' and not plan.get('runtime_limit') else 0},
                    'server': {'reconnect': {'auto': True, 'timeout': 1}}}})
    limited = alice if side == 'up' else bob
    tr = {'up': None, 'down': None}
    events = []          # ('g', t, nbytes, tag) | ('c', t, kbps)
    last = {'bytes': 0, 'id': None}
    inflight = {}
    current = {'kbps': plan['limit']}

    def hook_a(event):
        if isinstance(event, TransferAddedEvent) and event.transfer.direction == TransferDirection.UPLOAD:
            tr['up'] = event.transfer

    def hook_b(event):
        if isinstance(event, TransferAddedEvent) and event.transfer.direction == TransferDirection.DOWNLOAD:
            tr['down'] = event.transfer
    alice.recorder.hooks.append(hook_a)
    bob.recorder.hooks.append(hook_b)

    def monitor():
        t = tr[side]
        if t is None:
            return
        # a new attempt restarts the counter at the resume offset: only count increases within an attempt
        b = t.bytes_transfered
        if t.state.VALUE.name not in ('UPLOADING', 'DOWNLOADING'):
            last['bytes'] = b
            return
        if b > last['bytes']:
            delta = b - last['bytes']
            fl = inflight.pop('rec', None)
            if fl is not None:
                # the chunk that was between its grant and the counter when the limit changed was granted under the
                # previous limit: it is booked at the instant of the change, before the change
                pre = min(delta, fl['cap'])
                if fl['prev'] == 0:
                    events.insert(fl['idx'], ('g', fl['t'], pre, side))     # no limit before: nothing to judge it against
                # under a positive previous limit the grant may have happened shortly before or (the consumer was still
                # waiting inside the replaced limiter) shortly after the change: it is attributed to neither side
                delta -= pre
                world.probe('pair_chunk_in_flight_at_change')
            if delta:
                events.append(('g', loop.time(), delta, side))
        last['bytes'] = b
    loop.monitors.append(monitor)
    results = {}

    async def main():
        await world.start_client(alice)
        await world.start_client(bob)
        c = world.call(alice, 'scan', alice.client.shares.scan)
        await c.task
        item = next(iter(alice.client.shares.shared_directories[0].items))
        await asyncio.sleep(0.3)
        if plan.get('runtime_limit'):
            # the limit is set through the public call (not through the settings) before the transfer starts
            if side == 'up':
                limited.client.network.set_upload_speed_limit(plan['limit'])
            else:
                limited.client.network.set_download_speed_limit(plan['limit'])
        results['t_begin'] = loop.time()
        c = world.call(bob, 'download', bob.client.transfers.download, 'alice', item.get_remote_path())
        await c.task
        t0 = loop.time()
        async def relogin():
            # the limited client loses its server connection and logs in again by itself (auto-reconnect): limits that
            # were set at run time have to survive the new session
            rl = plan.get('relogin')
            if rl is None:
                return
            await asyncio.sleep(max(t0 + float(rl) - loop.time(), 0.0))
            for sess in server.sessions:
                if not sess.closed and getattr(sess, 'username', None) == limited.name:
                    world.net.fired['server_reset_then_relogin'] += 1
                    sess.abort()
        relog = asyncio.ensure_future(relogin())
        for ch in plan.get('changes', []):
            await asyncio.sleep(max(t0 + ch['at'] - loop.time(), 0.0))
            world.net.fired['limit_change'] += 1
            if side == 'up':
                limited.client.network.set_upload_speed_limit(ch['kbps'])
            else:
                limited.client.network.set_download_speed_limit(ch['kbps'])
            t = tr[side]
            if 'rec' not in inflight and t is not None and t.state.VALUE.name in ('UPLOADING', 'DOWNLOADING'):
                # one grant per connection can be in flight: 8192 bytes without a limit, at most one second's worth
                # of the limit otherwise
                inflight['rec'] = {'idx': len(events), 't': loop.time(), 'prev': current['kbps'],
                                   'cap': 8192 if current['kbps'] == 0 else 128}
            current['kbps'] = ch['kbps']
            events.append(('c', loop.time(), ch['kbps']))
        t_end = loop.time() + 900.0
        while loop.time() < t_end:
            await asyncio.sleep(1.0)
            if tr['down'] is not None and tr['down'].state.VALUE.name == 'COMPLETE' and \
                    tr['up'] is not None and tr['up'].state.VALUE.name == 'COMPLETE':
                break
        await asyncio.sleep(0.5)

    world.run(main())

    findings, stats = R.window_findings(plan['limit'], results['t_begin'], events, 1)
    for f in findings:
        world.violate('C20.window', side=side, level='transfer', changes=min(f['changes'], 3), direction=f['direction'],
                      after=f['after'])
    done = tr['down'] is not None and tr['down'].state.VALUE.name == 'COMPLETE'
    if not done:
        world.violate('C20.wait', side=side, level='transfer', what='transfer did not complete within 900 s under a positive or no limit',
                      final_limit=(plan['changes'][-1]['kbps'] if plan.get('changes') else plan['limit']))
    else:
        try:
            with open(tr['down'].local_path, 'rb') as fh:
                if fh.read() != source:
                    world.violate('C20.window', side=side, level='transfer', what='file differs')
        except OSError:
            pass
    if stats.get('tightest', 0) >= 0.9:
        world.probe('pair_window_bound_reached_90pct')
    world.probe('pair_grant_events', stats.get('grants', 0))
    sig = ['pair', side, plan['limit'], [c['kbps'] for c in plan.get('changes', [])], done, min(stats.get('grants', 0) // 50, 20)]
    return common.finish(world, True, sig)
