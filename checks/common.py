"""Helpers shared by the per-property checks."""
from __future__ import annotations

import asyncio
import hashlib

from sim import seams
from sim.loop import SimBudget, SimStall
from sim.world import World, FrameTap

REAL = [
    'aioslsk (client, managers, network, connections, codec, obfuscation, rate limiter, caches)',
    'asyncio streams/tasks/locks/queues/timeouts (stock BaseEventLoop._run_once)', 'async_timeout',
    'aiofiles', 'pydantic settings', 'filesystem (tmpfs sandbox)',
]
STUB = [
    'kernel TCP (sim.net.SimTransport)', 'OS clock and selector (virtual time)',
    'thread pool (inline executor with planned delays)', 'SoulSeek server and remote peers (scripted actors)',
    'UPnP (disabled in settings)',
]

NET_REGIMES = [
    {'base_ms': 1, 'jitter_ms': 0, 'segmentation': 'whole'},
    {'base_ms': 5, 'jitter_ms': 10, 'segmentation': 'whole'},
    {'base_ms': 5, 'jitter_ms': 20, 'segmentation': 'prf'},
    {'base_ms': 40, 'jitter_ms': 150, 'segmentation': 'prf'},
    {'base_ms': 2, 'jitter_ms': 3, 'segmentation': 'byte'},
]


def draw_net(rng):
    cfg = dict(rng.choice(NET_REGIMES))
    cfg['coalesce'] = rng.random() < 0.7
    return cfg


def signature(parts) -> str:
    h = hashlib.blake2b(digest_size=8)
    for p in parts:
        h.update(repr(p).encode())
        h.update(b'|')
    return h.hexdigest()


def finish(world: World, nontrivial: bool, sig_parts, extra_fired=None) -> dict:
    fired = dict(world.net.fired)
    fired.update(world.disk.fired)
    if extra_fired:
        for k, v in extra_fired.items():
            if v:
                fired[k] = fired.get(k, 0) + v
    # plain segmentation is schedule, not fault
    return {
        'violations': [dict(v) for v in world.violations],
        'fired': fired,
        'probes': dict(world.probes),
        'sim_time': world.now - 1000.0,
        'signature': signature(sig_parts),
        'nontrivial': nontrivial,
        'digest': world.digest(),
        'iterations': world.loop.iterations,
    }


def library_task_failures(world: World, node=None):
    """Contexts handed to the loop exception handler (task died / never retrieved)."""
    out = []
    for rec in world.loop.exc_contexts:
        out.append(rec)
    return out


def error_logs(world: World, needle=None):
    out = []
    for (t, level, name, msg, exc) in seams.LOGS.records:
        if needle is None or needle in msg:
            out.append((t, level, name, msg, exc))
    return out
