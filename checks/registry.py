"""Which properties are claimed, with the texts that go to MANIFEST.json
(regenerate with: /venv/bin/python tools/mkmanifest.py)."""

NOT_APPLICABLE = {
    'C01': ('pure function of its input (serialize/deserialize/obfuscate): no schedule, clock, fault, interleaving '
            'or second party enters the statement, so there is nothing for a simulator to decide; '
            'see DESIGN.md section 3 (C01) and section 4'),
}

PENDING_REASON = 'check not built yet in this round; not claimed until its command exists (DESIGN.md section 3)'

CHECKS = {
    'C12': {
        'category': 'exploration',
        'text': ('seeded search over plans of 1-4 concurrent pending requests (execute / wait_for_*_message / '
                 'response futures with external cancel) and scripted incoming message sequences, arrivals placed '
                 '1 ns before, at and 1 ns after deadlines and k loop iterations around cancellations; every run is '
                 'judged against a small waiter reference model over the delivered-message history. A clean batch is '
                 'evidence, not proof.'),
        'design_ref': 'DESIGN.md section 3 (C12), appendix B.2',
        'note': ('trusted: scripted server/peers encode with aioslsk message classes; deadline = invoke + timeout; '
                 'events in the same virtual instant as a deadline/cancel may go either way'),
        'technique': 'deterministic simulation (virtual-time asyncio loop, simulated TCP, scripted server/peers) + reference-model history check',
    },
}
