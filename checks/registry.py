"""Which properties are claimed, with the texts that go to MANIFEST.json
(regenerate with: /venv/bin/python tools/mkmanifest.py)."""

NOT_APPLICABLE = {
    'C01': ('pure function of its input (serialize/deserialize/obfuscate): no schedule, clock, fault, interleaving '
            'or second party enters the statement, so there is nothing for a simulator to decide; '
            'see DESIGN.md section 3 (C01) and section 4'),
}

PENDING_REASON = 'check not built yet in this round; not claimed until its command exists (DESIGN.md section 3)'

CHECKS = {
    'C12': {
        'category': 'exploration',
        'text': ('seeded search over plans of 1-4 concurrent pending requests (execute / wait_for_*_message / '
                 'response futures with external cancel) and scripted incoming message sequences, arrivals placed '
                 '1 ns before, at and 1 ns after deadlines and k loop iterations around cancellations; every run is '
                 'judged against a small waiter reference model over the delivered-message history. A clean batch is '
                 'evidence, not proof.'),
        'design_ref': 'DESIGN.md section 3 (C12), appendix B.2',
        'note': ('trusted: scripted server/peers encode with aioslsk message classes; deadline = invoke + timeout; '
                 'events in the same virtual instant as a deadline/cancel may go either way'),
        'technique': 'deterministic simulation (virtual-time asyncio loop, simulated TCP, scripted server/peers) + reference-model history check',
    },
    'C11': {
        'category': 'fault_enumeration',
        'text': ('every cell of the outcome matrix mode x direct-outcome x indirect-outcome x ports-offered x '
                 'port-preference (400 cells) and of the connect-back matrix is run in every batch (complete '
                 'enumeration of that finite fault axis); the seeded search varies delays, relative order of the two '
                 'outcomes down to loop-iteration alignment inside one virtual instant, connection type, a second '
                 'concurrent request and cancellation of the caller at drawn points. Each run is judged by an outcome '
                 'table (can a path work?) and by residue checks 8 s and 100 s after the call ended.'),
        'design_ref': 'DESIGN.md section 3 (C11)',
        'note': ('direct works iff accepted within 10 s and not reset at connect; indirect works iff server link up and '
                 'pierce within 60 s; a connection announced via PeerInitializedEvent before the caller was cancelled may '
                 'remain; private waiter tables are read for one clause only (behavioural residue test is independent)'),
        'technique': 'deterministic simulation with enumerated connect-outcome matrix + seeded timing/cancellation search',
    },
    'C10': {
        'category': 'exploration',
        'text': ('seeded search over 1-6 concurrent connection episodes (incoming / outgoing direct / outgoing indirect / '
                 'connect-back; clear or obfuscated; P/D/F) each ended in one way of the quantifier (local disconnect by '
                 '1-3 concurrent callers, remote FIN/RST before or after the init message, reset in mid-frame, read and '
                 'write timeout, garbage/unknown/truncated init, unknown pierce ticket, refused/black-holed/reset connect, '
                 'cancellation of the connecting call at swept loop iterations), optionally with a suspending application '
                 'listener; a directed corpus walks every (kind x type x end) once. A monitor registered as first listener '
                 'follows every reported state; registry and sockets are compared at quiescent moments.'),
        'design_ref': 'DESIGN.md section 3 (C10)',
        'note': ('idle file connections have no reader, so remote ends after the init message are out of scope for type F here '
                 '(C04 breaks file connections inside transfers); messages handled while CLOSING are not counted, only after CLOSED'),
        'technique': 'deterministic simulation with injected connection faults + per-connection monitor automaton and registry/socket comparison',
    },
    'C19': {
        'category': 'exploration',
        'text': ('seeded histories (<= 12 notifications over 2 rooms x 3 users incl. the logged-in user, every ordered pair '
                 'of the 25 notification kinds in the directed corpus) are sent by the scripted server through the real '
                 'reader loop, event bus and weak user table, with TCP segmentation/coalescing and explicit gc steps as '
                 'schedule dimensions; after every delivered notification the public room/user view is compared with a '
                 'replica folded from the same notifications (models/rooms.py), and emitted chat/ticker/membership events '
                 'are checked for identity and block flags.'),
        'design_ref': 'DESIGN.md section 3 (C19), appendix B.5',
        'note': ('the schedule dimension is small for this property (stated in DESIGN.md): deciding dimension is the generated '
                 'history; where the wording leaves a choice both outcomes pass (see INFO.assumptions in checks/c19.py)'),
        'technique': 'deterministic simulation (scripted server, real client) + replica fold compared after every delivered notification',
    },
    'C20': {
        'category': 'exploration',
        'text': ('limiter level: a real Network with 1-4 registered file connections whose consumer tasks call take_tokens() on '
                 'the limiter their connection currently holds, with gaps from 0 to minutes on the virtual clock, while a '
                 'controller changes the limits (raise, lower, to/from unlimited, same value) at plan instants and while a '
                 'consumer is blocked; every ordered pair of limit values is enumerated in the corpus. The grant history is '
                 'judged exactly for every window (sliding-window byte bound incl. changes), for unlimited-not-throttled and '
                 'for the bounded-wait clause.'),
        'design_ref': 'DESIGN.md section 3 (C20), appendix B.8',
        'note': ('bytes moved are the grants of take_tokens (what send_file/receive_file then move); the transfer-level variant '
                 '(two real clients) is exercised by C04 with limits but judged there only for completion; slack term as stated in DESIGN.md'),
        'technique': 'deterministic simulation on the virtual clock (real limiter/network objects, scripted consumers) + exact window oracle',
    },
}
