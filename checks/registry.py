"""Which properties are claimed, with the texts that go to MANIFEST.json
(regenerate with: /venv/bin/python tools/mkmanifest.py)."""

NOT_APPLICABLE = {
    'C01': ('pure function of its input (serialize/deserialize/obfuscate): no schedule, clock, fault, interleaving '
            'or second party enters the statement, so there is nothing for a simulator to decide; '
            'see DESIGN.md section 3 (C01) and section 4'),
}

PENDING_REASON = 'check not built yet in this round; not claimed until its command exists (DESIGN.md section 3)'

CHECKS = {
    'C12': {
        'category': 'exploration',
        'text': ('seeded search over plans of 1-4 concurrent pending requests (execute / wait_for_*_message / '
                 'response futures with external cancel) and scripted incoming message sequences, arrivals placed '
                 '1 ns before, at and 1 ns after deadlines and k loop iterations around cancellations; every run is '
                 'judged against a small waiter reference model over the delivered-message history. A clean batch is '
                 'evidence, not proof.'),
        'design_ref': 'DESIGN.md section 3 (C12), appendix B.2',
        'note': ('trusted: scripted server/peers encode with aioslsk message classes; deadline = invoke + timeout; '
                 'events in the same virtual instant as a deadline/cancel may go either way'),
        'technique': 'deterministic simulation (virtual-time asyncio loop, simulated TCP, scripted server/peers) + reference-model history check',
    },
    'C11': {
        'category': 'fault_enumeration',
        'text': ('every cell of the outcome matrix mode x direct-outcome x indirect-outcome x ports-offered x '
                 'port-preference (400 cells) and of the connect-back matrix is run in every batch (complete '
                 'enumeration of that finite fault axis); the seeded search varies delays, relative order of the two '
                 'outcomes down to loop-iteration alignment inside one virtual instant, connection type, a second '
                 'concurrent request and cancellation of the caller at drawn points. Each run is judged by an outcome '
                 'table (can a path work?) and by residue checks 8 s and 100 s after the call ended.'),
        'design_ref': 'DESIGN.md section 3 (C11)',
        'note': ('direct works iff accepted within 10 s and not reset at connect; indirect works iff server link up and '
                 'pierce within 60 s; a connection announced via PeerInitializedEvent before the caller was cancelled may '
                 'remain; private waiter tables are read for one clause only (behavioural residue test is independent)'),
        'technique': 'deterministic simulation with enumerated connect-outcome matrix + seeded timing/cancellation search',
    },
    'C10': {
        'category': 'exploration',
        'text': ('seeded search over 1-6 concurrent connection episodes (incoming / outgoing direct / outgoing indirect / '
                 'connect-back; clear or obfuscated; P/D/F) each ended in one way of the quantifier (local disconnect by '
                 '1-3 concurrent callers, remote FIN/RST before or after the init message, reset in mid-frame, read and '
                 'write timeout, garbage/unknown/truncated init, unknown pierce ticket, refused/black-holed/reset connect, '
                 'cancellation of the connecting call at swept loop iterations), optionally with a suspending application '
                 'listener; a directed corpus walks every (kind x type x end) once. A monitor registered as first listener '
                 'follows every reported state; registry and sockets are compared at quiescent moments.'),
        'design_ref': 'DESIGN.md section 3 (C10)',
        'note': ('idle file connections have no reader, so remote ends after the init message are out of scope for type F here '
                 '(C04 breaks file connections inside transfers); messages handled while CLOSING are not counted, only after CLOSED'),
        'technique': 'deterministic simulation with injected connection faults + per-connection monitor automaton and registry/socket comparison',
    },
    'C19': {
        'category': 'exploration',
        'text': ('seeded histories (<= 12 notifications over 2 rooms x 3 users incl. the logged-in user, every ordered pair '
                 'of the 25 notification kinds in the directed corpus) are sent by the scripted server through the real '
                 'reader loop, event bus and weak user table, with TCP segmentation/coalescing and explicit gc steps as '
                 'schedule dimensions; after every delivered notification the public room/user view is compared with a '
                 'replica folded from the same notifications (models/rooms.py), and emitted chat/ticker/membership events '
                 'are checked for identity and block flags.'),
        'design_ref': 'DESIGN.md section 3 (C19), appendix B.5',
        'note': ('the schedule dimension is small for this property (stated in DESIGN.md): deciding dimension is the generated '
                 'history; where the wording leaves a choice both outcomes pass (see INFO.assumptions in checks/c19.py)'),
        'technique': 'deterministic simulation (scripted server, real client) + replica fold compared after every delivered notification',
    },
    'C20': {
        'category': 'exploration',
        'text': ('limiter level: a real Network with 1-4 registered file connections whose consumer tasks call take_tokens() on '
                 'the limiter their connection currently holds, with gaps from 0 to minutes on the virtual clock, while a '
                 'controller changes the limits (raise, lower, to/from unlimited, same value) at plan instants and while a '
                 'consumer is blocked; every ordered pair of limit values is enumerated in the corpus. The grant history is '
                 'judged exactly for every window (sliding-window byte bound incl. changes), for unlimited-not-throttled and '
                 'for the bounded-wait clause. Transfer level (checks/c20_pair.py): two real clients move a file under an upload '
                 'or download limit changed at run time; the per-iteration deltas of the public bytes_transfered counters go '
                 'through the same window oracle and the transfer must still complete.'),
        'design_ref': 'DESIGN.md section 3 (C20), appendix B.8',
        'note': ('limiter level: bytes moved are the grants of take_tokens; transfer level: what the application consumed or handed '
                 'to the socket (not arrival times at the far end); slack term as stated in DESIGN.md'),
        'technique': 'deterministic simulation on the virtual clock (real limiter/network objects, scripted consumers) + exact window oracle',
    },
    'C18': {
        'category': 'exploration',
        'text': ('seeded sequences of search / room search / user search / wishlist rounds (server WishlistInterval, repeated), '
                 'manual removals, incoming PeerSearchReply frames from scripted peers (matching, duplicate, after removal, after '
                 'timeout, unknown ticket) and timer expiries, with timeouts off / small / server-provided and removal, expiry and '
                 'reply placed 1 ns apart in all six orders and in one instant; judged by a live-ticket reference model '
                 '(models/tickets.py). A second plan shape drives the public tasks.Timer directly (start/cancel/reschedule '
                 'around the expiry iteration, slow and re-arming callbacks).'),
        'design_ref': 'DESIGN.md section 3 (C18), appendix B.4',
        'note': ('ticket wrap-around at 2^32 is out of reach; store_results is varied but not judged; events in the same virtual '
                 'instant as a removal/expiry may go either way for the tying event only'),
        'technique': 'deterministic simulation (virtual clock, scripted server/peers) + live-ticket reference model over the event history',
    },
    'C07': {
        'category': 'exploration',
        'text': ('seeded histories (<= 8 steps) of add / remove / update / scan-all / scan-one / file create-delete-rename-touch / '
                 'explicit gc over generated trees (<= 30 files, colliding vocabulary, accents, CJK, nested shared directories), '
                 'with share operations overlapping pending scan jobs on the simulated executor and files vanishing between '
                 'listing and stat; at scanned and settled points the real index, stats and query results are compared with an '
                 'independent reference index and matcher (models/shares.py); between scans only the unambiguous clauses.'),
        'design_ref': 'DESIGN.md section 3 (C07), appendix B.6',
        'note': ('the query predicate on a fixed index is a pure function: that half is sampled along the simulated histories, not '
                 'decided (DESIGN.md section 4); names are restricted to characters with one-to-one case mapping; reading of the '
                 'matching rule is documented in models/shares.py'),
        'technique': 'deterministic simulation (inline executor with planned delays, tmpfs tree, gc as a scheduled event) + differential against a reference index/matcher',
    },
    'C15': {
        'category': 'exploration',
        'text': ('seeded sequences (<= 8) of track_user/untrack_user with flags REQUESTED/FRIEND/TRANSFER on 1-2 users, issued at '
                 'plan instants and on triggers k = 0..4 loop iterations after the worker\'s observable steps (AddUser/RemoveUser '
                 'reaching the scripted server, tracking-state events, attempt timeouts) - the full k sweep of the '
                 '"untrack last flag -> track" pattern is in the directed corpus - against per-attempt server behaviour exists / '
                 'not-exists / silent and server loss (close, abort, reset) at drawn points; horizon 1500 virtual s so 600 s '
                 'retries are seen. Judged by a flag-fold reference model (models/tracking.py): wire word, retry rule, final '
                 'flags/state, silence after loss.'),
        'design_ref': 'DESIGN.md section 3 (C15), appendix B.3',
        'note': ('a send failure before any loss cannot be produced (aioslsk skips sends on a closed link); reconnect is off; '
                 'calls coinciding with the loss instant are accepted either way'),
        'technique': 'deterministic simulation with iteration-relative triggers + reference-model check of the server-side frame history',
    },
    'C06': {
        'category': 'exploration',
        'text': ('1-3 transfers (downloads from / uploads to scripted transfer peers) under fast / slow / black-holed / dead / refused '
                 'peer connects, server status notifications and other transfers driving management cycles; abort / pause / remove is '
                 'placed on a trigger at the k-th negotiation event of the target transfer (k = 0..15 enumerated for every base '
                 'scenario in the corpus) plus j loop iterations; after the call returned the peers go silent about the file and a '
                 '300 s window is observed with a sender-side wire tap (frames, address lookups, connects) and a field snapshot; a '
                 'per-iteration monitor counts pending negotiation tasks per transfer and kind.'),
        'design_ref': 'DESIGN.md section 3 (C06)',
        'note': ('refusals sent in answer to peer frames already in flight are not counted; negotiation tasks are identified by '
                 'coroutine name and bound transfer (private naming, collected through the task factory); a stop call that never '
                 'returns within 200 virtual s is reported'),
        'technique': 'deterministic simulation with event-indexed triggers and slow/hanging connects + silence-window history check',
    },
    'C05': {
        'category': 'exploration',
        'text': ('one real uploader with 1-5 scripted downloader users (status online/away/offline/unknown, friend, privileged; '
                 '1-3 files each), slot limit 0..4 changed at run time, <= 14 events (queue requests in any order, reset mid-file, '
                 'refusing / silent downloader, user abort, status / privilege / friend changes) with gaps straddling the 50 ms '
                 'management-cycle spacing, upload speed limited so that uploads overlap. Monitors at every state notification '
                 'and after every loop iteration: active <= limit in force, <= 1 per user, rank class at stable-rank instants, '
                 'offline never; bounded liveness (120 s) in the cooperative tail.'),
        'design_ref': 'DESIGN.md section 3 (C05)',
        'note': ('rank knowledge = what the client was told (frames it processed); status classes are compared only when both '
                 'statuses were learnt for the uploads in question; limit in force = max over the preceding 0.3 s'),
        'technique': 'deterministic simulation with scripted downloaders and settings changes + per-iteration invariants and bounded liveness',
    },
    'C03': {
        'category': 'exploration',
        'text': ('micro world: a real Transfer in the real TransferManager with a recording state listener, a real local file and '
                 'negotiation tasks that take plan-chosen virtual time to honour cancellation, file removal slowed through the '
                 'simulated executor so the state lock is held across many loop iterations; from each of the 18 reachable start '
                 'states 1-6 operations (queue/pause/abort/fail/complete/incomplete/initialize/start_transferring, through the state '
                 'object as the library\'s call sites do and through the public manager API), 1-3 of them concurrent with offsets of '
                 '0-6 loop iterations. Two axes are enumerated completely per batch (start state x operation x way of issuing; '
                 'start state x leader x follower behind the lock). Oracle: notified edges are a chained path in the hand-transcribed '
                 'graph (models/transfer_graph.py), result/notification agreement, no side effect of refused operations. '
                 'Live shape (checks/c03_live.py): a real download / upload against a scripted peer; the library\'s own negotiation '
                 'and transfer tasks ask for the state changes while the peer injects messages about the file around a slow file '
                 'connection and the user stops / re-queues; same graph oracle plus: reasons and timestamps of a transfer that rests '
                 'in FAILED / ABORTED / PAUSED / COMPLETE do not change.'),
        'design_ref': 'DESIGN.md section 3 (C03), appendix B.1, section 8.6 (round 5)',
        'note': ('the graph is data in /verif, transcribed from the state classes and USAGE.rst (no disagreement found)'),
        'technique': 'deterministic simulation (virtual clock, slow cancellation and slow executor jobs, iteration-offset concurrent callers) + graph-path oracle',
    },
    'C17': {
        'category': 'fault_enumeration',
        'text': ('synthetic histories through the real TransferShelveCache on tmpfs: every state x direction x progress class x way '
                 'of writing is enumerated completely per batch (240 plans); seeded lists of 0-8 transfers with colliding user/path '
                 'concatenations, non-ASCII names, legacy pickles (no abort_reason, _offset, foreign keys) and write / mutate / remove '
                 '/ write sequences; the first client is abandoned without stop() (process end after the last write) or stopped; a '
                 'new client loads the same directory. Live shape (checks/c17_live.py): a real download / upload against a scripted '
                 'transfer peer, the cache made durable at the k-th state notification (explicit write_cache or graceful stop(); '
                 'k = 0..6 enumerated per batch for both directions) and the process killed at an exact instant (SystemExit raised '
                 'from a loop callback: no finally of the dying process runs, open files lose their buffers), then a fresh loop, '
                 'server, peer and client on the same cache and download directories. Oracle: set equality with the last durable '
                 'image, field equality, no in-progress state, cleared remote-queue marks, loaded transfers notify listeners and '
                 'accept operations; in the live shape loaded QUEUED/INCOMPLETE transfers finish byte-identically within 900 s.'),
        'design_ref': 'DESIGN.md section 3 (C17)',
        'note': ('the cache is only written by explicit write_cache()/stop(), so the durable image is exactly the last write; in the '
                 'synthetic shape a crash is abandoning the first client object; a file whose last bytes were still buffered when '
                 'the cache said "all bytes arrived" is outside what is judged'),
        'technique': 'deterministic simulation of process end at every persisted state (enumerated) + reload in a fresh client and reference-image comparison',
    },
    'C02': {
        'category': 'exploration',
        'text': ('one logged-in client with four inbound byte sources (server link, accepted clear P link, accepted obfuscated P '
                 'link, accepted D link); per source 1-12 frames, each valid (all 87 message classes of the three families, built '
                 'from the field metadata, stateful notifications repeated) or malformed with a correct length prefix (random, '
                 'truncated, bit-flipped, lying counts, invalid UTF-8/cp1252, corrupt zlib, unknown code, empty, wrong family), '
                 'under every TCP segmentation from 1-byte dribble to the whole list in one segment, interleaved sources, and '
                 'teardown faults (truncated frame + EOF / silence, RST between frames, bad first frame). Oracle over the public '
                 'event bus: valid frames delivered once, in order, equal; malformed frames yield <= 1 event and disturb nothing; '
                 'a final probe frame proves the reader alive (or the link reached CLOSED within the read timeout); no task died; '
                 'a wall-clock watchdog bounds one loop iteration (parse termination).'),
        'design_ref': 'DESIGN.md section 3 (C02)',
        'note': ('bodies <= 4 KiB; no F connections; server-link silence (600 s timeout shifted by pings) not injected; an '
                 'unretrieved write error of a queued reply on a just-reset link is counted as a probe, not a violation'),
        'technique': 'deterministic simulation (scripted byte sources over simulated TCP with segmentation and teardown faults) + delivery-history oracle',
    },
    'C16': {
        'category': 'exploration',
        'text': ('settings draw (0-2 listening ports, friends, liked/hated interests, favourite rooms x auto_join, invites, reconnect '
                 'on/off with timeout 1/3/10, 0-2 shared directories scanned at start) x login accepted / rejected / garbled / EOF / '
                 'silence x ONE server loss (FIN, RST, stall, write error/timeout, requested disconnect) or stop() per run, placed by '
                 'trigger before login, at every frame index of the post-login burst, while idle, and with a search / a '
                 'potential-parent connect / a queued download pending. Oracle: post-login frame multiset == f(settings, open '
                 'listeners, share index); commands refused without session; one SessionDestroyedEvent per session and cleared '
                 'server-derived state; reconnect iff auto and unrequested non-EOF loss; after stop() no socket, no listener, no '
                 'later connect, no pending library task.'),
        'design_ref': 'DESIGN.md section 3 (C16)',
        'note': ('two open findings are listed in known_findings.json (failed login leaves the link unread; loss/stop during the '
                 'SessionInitializedEvent dispatch) and matched by narrow facts; the 600 s server read timeout is never reached '
                 'because every sent ping shifts it (counted as a probe, outside the statement)'),
        'technique': 'deterministic simulation with frame-indexed fault/stop triggers + settings-derived reference for the login burst and post-stop residue checks',
    },
    'C13': {
        'category': 'exploration',
        'text': ('one real client with 3-4 scripted distributed peers; event sequences (<= 10) over potential-parent lists, outgoing and '
                 'incoming D connections (direct, pierced, firewalled), branch level / root announcements in either order, repeated, '
                 'level 0, from candidate / parent / child, disconnects of parent / child / candidate, own-speed answers around the '
                 'thresholds, ParentMinSpeed / ParentSpeedRatio changes, ResetDistributed and session loss, interleaved by latency with '
                 'the sends they trigger. Structural invariants are checked continuously, admission against the documented '
                 'max-children formula, and at quiescence the last values told to the server and to every child against the derived '
                 'position (models/tree.py).'),
        'design_ref': 'DESIGN.md section 3 (C13), appendix B.7',
        'note': ('advertised-value clauses are skipped while the session is gone (reading note 29 is counted by probes); a parent never '
                 'advertises our own name as root; by-user parent/child overlap is judged once it lasted 1 virtual second'),
        'technique': 'deterministic simulation with scripted distributed peers + tree reference model (invariants per event, advertised == derived at quiescence)',
    },
    'C14': {
        'category': 'exploration',
        'text': ('tree shapes (parent yes/no, 0-3 children, 0-2 candidates, a closed child) with children joining/leaving between '
                 'requests; search requests over the three carriers (server, distributed, wrapped legacy) with arbitrary user / ticket / '
                 'query incl. the own name, against a small scanned share tree with visible and locked files; oracle from the frames '
                 'every actor received: exactly-once fan-out to current children only, nothing for own-name requests, exactly one '
                 'PeerSearchReply with ticket, own name and the reference matcher\'s visible/locked sets, none without matches.'),
        'design_ref': 'DESIGN.md section 3 (C14), appendix B.6/B.7',
        'note': ('reply content uses the reference matcher of models/shares.py; only requests from the server (no parent) or from the '
                 'parent are judged; askers unknown to the server are judged for fan-out only'),
        'technique': 'deterministic simulation with scripted parent/children/asker + per-request history check against tree and share models',
    },
    'C04': {
        'category': 'fault_enumeration',
        'text': ('pair shape: two real clients (uploader and downloader) and the scripted server as relay, position-dependent file '
                 'content; sizes {0,1,127,128,129,8191,8192,8193,24581,~100 KiB}, limits off/64/1 KiB/s, race/fallback, correct partial '
                 'file on disk; network faults only: reset of the file connection after exactly k file bytes (k enumerated 0..size '
                 'for every size <= 129 in every batch, chunk edges for the larger ones), resets of P connections during the '
                 'negotiation, partitions of 30-400 s, 1-3 faults before success, five latency/segmentation regimes. scripted shape: '
                 'one real client against a dishonest scripted peer on either side (short/long sender, lying filesize, offset beyond '
                 'size, early close/reset at every k, never close). Safety at every state notification and loop iteration '
                 '(COMPLETE => identical bytes and size, local file always a prefix, resume offset == local size, upload COMPLETE '
                 'only if all bytes were handed to the socket and the peer ended the connection) and bounded liveness (900 s after '
                 'the last network fault, no driver call) in the pair shape.'),
        'design_ref': 'DESIGN.md section 3 (C04)',
        'note': ('one open liveness finding is listed in known_findings.json (lost re-queue when the uploader is still busy with the '
                 'broken connection); disk write errors on the downloader are not injected; for a sender that lies about the size the '
                 '"remote file" is its announced prefix'),
        'technique': 'deterministic simulation of two real clients with byte-exact connection faults (enumerated cut axis) + byte-equality/prefix/offset monitors and bounded liveness',
    },
    'C08': {
        'category': 'exploration',
        'text': ('seeded histories (<= 12 steps) of requests by three scripted users (searches over the server, FileSearch, '
                 'distributed and legacy carriers, shares and directory-content requests, queue / transfer requests for exact, '
                 'locked, unknown, case- and separator-variant paths) interleaved with configuration changes made through the '
                 'public settings / shares API (friends, block flags by assignment and in place, share mode and user list, add / '
                 'remove / rescan a directory, a new server excluded-phrase list in any letter case) and user aborts / pauses, '
                 'with gaps straddling the 1 s settings poll and the management cycle; everything the client writes is read at a '
                 'sender-side wire tap and judged against the union of the configurations in force over the observation window by '
                 'a reference entitlement model (models/entitlement.py); settle clauses (not permitted -> ABORTED with the '
                 'matching reason, permitted again -> re-queued, user-aborted stays aborted) are evaluated 8 virtual s after the '
                 'last change and at the end.'),
        'design_ref': 'DESIGN.md section 3 (C08)',
        'note': ('refusal frames and replies to users blocked for shares are probes only (the statement does not constrain them); '
                 'a case / separator / alias variant of a path denotes the file it was derived from; file bytes are judged against '
                 'the configurations of the preceding 8 s; no share operation overlaps a running scan (that is C07)'),
        'technique': 'deterministic simulation (real client, scripted server / users, settings poll and management cycles on the virtual clock) + reference entitlement model over sender-side observations',
    },
    'C09': {
        'category': 'exploration',
        'text': ('1-3 concurrent downloads of equally or differently named remote paths from scripted uploaders, with planned '
                 'executor delays on the exists / makedirs / open jobs (the check-then-create window), <= 12 pre-existing entries '
                 'in the download directory (files, directories, numbered look-alikes, regex-special names) and every ordered '
                 'subset of the shipped strategies as chain (16 chains x 22 remote-path classes x {empty, name taken} enumerated '
                 'in the corpus); a loop monitor compares each chosen local path with a listing of the sandbox taken at the end of '
                 'the previous iteration: inside the download directory, a regular name, not existing, not shared by two active '
                 'downloads; effect-level backstops: nothing created outside the directory, pre-existing files unchanged, every '
                 'COMPLETE file equals its source.'),
        'design_ref': 'DESIGN.md section 3 (C09)',
        'note': ('the mapping remote path -> local path on a fixed directory is a pure function: that half is sampled along the '
                 'simulated runs, not decided (DESIGN.md section 4); the schedule half (two start-ups interleaving) is what the '
                 'simulator decides; a refused path (download FAILED without a local path) is accepted; symbolic links, NUL and '
                 'Windows path semantics are not generated; two open findings for chains that do not end in number-duplicates'),
        'technique': 'deterministic simulation (inline executor with planned delays on the path jobs, tmpfs download directory) + per-iteration path oracle and effect-level comparison',
    },
}
