"""Reference model of entitlement (DESIGN.md B.6 ``entitled(user, path, config)``), used by C08.

Written from the wording of property C08, ``docs/source/USAGE.rst`` ("Sharing", "Friends",
"Blocking Users", the table of abort reasons), ``docs/source/SETTINGS.rst`` and the
docstring of the ``ExcludedSearchPhrases`` message ("exact match, case insensitive").  It
shares no code with ``aioslsk.shares`` / ``aioslsk.transfer`` / ``aioslsk.search``.

Configuration
-------------
A configuration is a plain dict::

    {'friends':  frozenset of user names,
     'blocked':  {user: int flags}            (bits below),
     'dirs':     {absolute shared directory: (mode, tuple of users)},  mode in everyone|friends|users
     'known':    frozenset of absolute file paths the index holds (models/shares.py reading),
     'excluded': tuple of phrases as the server sent them}

Reading of the property where the text leaves a choice
------------------------------------------------------
* **Which directory decides.**  The innermost shared directory that contains the file
  (USAGE.rst: items of a nested shared directory belong to that directory).
* **Entitled to see / download.**  mode ``everyone``: anybody; ``friends``: members of
  ``users.friends``; ``users``: members of the directory's own list.  Block flags do not
  change what is *locked*; ``UPLOADS`` forbids every upload to the user, ``SEARCHES``
  forbids every search reply to the user.
* **Shared (safety clauses).**  A file is *possibly shared* when it lies inside a shared
  directory, scanned or not: a superset of what the index holds, so a refusal is never
  demanded by the safety clauses.
* **Shared (settle clauses).**  A file is shared when the index holds it (``known``) and a
  shared directory contains it.
* **Excluded phrase.**  ``phrase.lower() in path.lower()`` where ``path`` is the reported
  path without the leading ``@@alias\\`` (the alias is an opaque token, not part of the
  file's path).  Alphabets are restricted to characters with a one-to-one case mapping.
* **Change windows.**  A reply can be computed before and delivered after a change: an
  observation is judged against every configuration in force at some instant of its
  window (boundaries inclusive); it is a violation only when none of them allows it.
"""
from __future__ import annotations

import os
from typing import Iterable, Optional

SEARCHES = 4
SHARES = 8
UPLOADS = 32
FLAG_BITS = {'searches': SEARCHES, 'shares': SHARES, 'uploads': UPLOADS}

REQUESTED = 'Requested'
BLOCKED = 'Blocked'
NOT_SHARED = 'File not shared'


def flags_value(names: Iterable[str]) -> int:
    value = 0
    for name in names:
        value |= FLAG_BITS[name]
    return value


def _inside(directory: str, path: str) -> bool:
    return path.startswith(directory if directory.endswith(os.sep) else directory + os.sep)


def owner_of(cfg: dict, path: Optional[str]) -> Optional[str]:
    """Innermost shared directory strictly containing ``path``."""
    if path is None:
        return None
    best = None
    for directory in cfg['dirs']:
        if _inside(directory, path) and (best is None or len(directory) > len(best)):
            best = directory
    return best


def mode_of(cfg: dict, path: Optional[str]) -> Optional[str]:
    owner = owner_of(cfg, path)
    return cfg['dirs'][owner][0] if owner is not None else None


def locked(cfg: dict, user: str, path: Optional[str]) -> Optional[bool]:
    """None: not inside any shared directory; else whether the file is locked for ``user``."""
    owner = owner_of(cfg, path)
    if owner is None:
        return None
    mode, users = cfg['dirs'][owner]
    if mode == 'friends':
        return user not in cfg['friends']
    if mode == 'users':
        return user not in users
    return False


def is_blocked(cfg: dict, user: str, bit: int) -> bool:
    return bool(cfg['blocked'].get(user, 0) & bit)


def may_list(cfg: dict, user: str, path: Optional[str]) -> bool:
    """May ``path`` appear as a normal (downloadable) entry for ``user``?"""
    return locked(cfg, user, path) is False


def may_upload(cfg: dict, user: str, path: Optional[str]) -> bool:
    """Safety reading: could an upload of ``path`` to ``user`` be legitimate under ``cfg``?"""
    return locked(cfg, user, path) is False and not is_blocked(cfg, user, UPLOADS)


def excluded_by(cfg: dict, reported_below_alias: str) -> Optional[str]:
    """The first excluded phrase contained in the path (case-insensitively), if any."""
    low = reported_below_alias.lower()
    for phrase in cfg['excluded']:
        if phrase and phrase.lower() in low:
            return phrase
    return None


def case_class(phrase: str) -> str:
    if phrase == phrase.lower():
        return 'lower'
    if phrase == phrase.upper():
        return 'upper'
    return 'mixed'


def abort_reasons(cfg: dict, user: str, path: Optional[str], requested: bool) -> set[str]:
    """Settle reading: the reasons for which an unfinished upload has to be ABORTED now."""
    out = set()
    if requested:
        out.add(REQUESTED)
    if is_blocked(cfg, user, UPLOADS):
        out.add(BLOCKED)
    if path is None or path not in cfg['known'] or locked(cfg, user, path) is not False:
        out.add(NOT_SHARED)
    return out


class Timeline:
    """Configurations in force over time: entry i holds from its instant to the instant of
    entry i+1, both ends inclusive."""

    def __init__(self):
        self.entries: list[tuple[float, dict]] = []

    def push(self, t: float, cfg: dict):
        self.entries.append((t, cfg))

    @property
    def current(self) -> dict:
        return self.entries[-1][1]

    def in_force(self, start: float, end: float) -> list[dict]:
        out = []
        n = len(self.entries)
        for i, (t, cfg) in enumerate(self.entries):
            if t > end:
                break
            nxt = self.entries[i + 1][0] if i + 1 < n else float('inf')
            if nxt >= start:
                out.append(cfg)
        if not out and self.entries:
            out.append(self.entries[0][1])
        return out
