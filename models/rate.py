"""Reference rate model for C20 (DESIGN.md section 3 "C20", appendix B.8).

Nothing in here looks at the limiter under test.  The inputs are what an application can
see: the sequence of limit values it configured (piecewise-constant L(t) in KiB/s, 0 = no
limit) and the sequence of grants its connections obtained (virtual time, bytes).

Window bound.  Events are totally ordered (sequence order; several events may carry the same
virtual instant).  For every pair of grants i <= j such that the limit in force stayed
positive from grant i to grant j:

    sum(bytes of grants i..j) <= 1024 * integral_{t_i}^{t_j} L dt          (configured rate)
                                 + 1024 * max L over the window            (one second of burst)
                                 + 128 * connections * (1 + changes)       (stated slack)

where ``changes`` is the number of limit changes between grant i and grant j and ``max L``
ranges over the limit in force at grant i and every value configured up to grant j.  The
closed window [t_i, t_j] with grants taken in sequence order is the supremum over all time
windows that contain exactly these grants, so checking these pairs checks every window.

The evaluation is exact for all O(m^2) windows but runs in O(m + p^2) for m grants and p
constant-limit pieces: with S the running byte sum and I the running integral,
``before_i = S_{i-1} - 1024 I(t_i)`` and ``after_j = S_j - 1024 I(t_j)``; the left side minus the
rate term of window (i, j) is ``after_j - before_i`` and the remaining terms only depend on the
pieces that contain i and j.

Wait bound.  B(L, n) = max(5 s, 50 * n * 128 / (1024 * L)).
"""
from __future__ import annotations

CHUNK = 128          # slack unit of the property statement (bytes per connection per limiter generation)
KIB = 1024


def wait_bound(limit_kbps: int, consumers: int) -> float:
    return max(5.0, 50.0 * consumers * CHUNK / (KIB * float(limit_kbps)))


def classify(prev_kbps: int, new_kbps: int) -> str:
    if prev_kbps == new_kbps:
        return 'same'
    if new_kbps == 0:
        return 'to_unlimited'
    if prev_kbps == 0:
        return 'from_unlimited'
    return 'raise' if new_kbps > prev_kbps else 'lower'


class Piece:
    """Maximal run of events under one configured positive limit value."""
    __slots__ = ('limit', 't', 'opened', 'base', 'grants', 'min_before', 'max_after', 'within', 'bytes')

    def __init__(self, limit, t, opened):
        self.limit = limit            # KiB/s
        self.t = t                    # virtual instant the value was configured
        self.opened = opened          # 'start' | 'from_unlimited' | 'raise' | 'lower' | 'same'
        self.base = 0.0               # 1024 * integral from segment start to self.t
        self.grants = []              # (t, bytes, tag)
        self.min_before = None        # (value, grant index)
        self.max_after = None
        self.within = None            # (value, i, j)
        self.bytes = 0


def split_segments(initial_kbps: int, t_begin: float, events):
    """events: sequence-ordered ('g', t, nbytes, tag) | ('c', t, kbps).  Returns a list of
    segments (lists of Piece) during which the configured limit stayed positive."""
    segments = []
    cur = initial_kbps
    seg = None
    if cur > 0:
        seg = [Piece(cur, t_begin, 'start')]
        segments.append(seg)
    for ev in events:
        if ev[0] == 'c':
            _, t, new = ev
            kind = classify(cur, new)
            if new == 0:
                seg = None
            elif cur == 0:
                seg = [Piece(new, t, kind)]
                segments.append(seg)
            else:
                seg.append(Piece(new, t, kind))
            cur = new
        else:
            if seg is not None:
                seg[-1].grants.append(ev[1:])
    return segments


def _direction(limits):
    if len(limits) < 2:
        return 'none'
    ups = any(b > a for a, b in zip(limits, limits[1:]))
    downs = any(b < a for a, b in zip(limits, limits[1:]))
    if ups and downs:
        return 'mixed'
    if ups:
        return 'up'
    if downs:
        return 'down'
    return 'same'


def evaluate_segment(seg, connections: int, eps: float = 1e-3):
    """Returns (findings, stats) for one positive segment."""
    origin = seg[0].t
    # integral bases
    acc = 0.0
    for a, piece in enumerate(seg):
        piece.base = acc
        if a + 1 < len(seg):
            acc += KIB * piece.limit * (seg[a + 1].t - piece.t)
    total = 0
    ngrants = 0
    for piece in seg:
        rate = KIB * piece.limit
        best_before = None
        for idx, (t, nbytes, _tag) in enumerate(piece.grants):
            x = piece.base + rate * (t - piece.t)
            before = total - x
            total += nbytes
            piece.bytes += nbytes
            after = total - x
            ngrants += 1
            if piece.min_before is None or before < piece.min_before[0]:
                piece.min_before = (before, idx)
            if best_before is None or before < best_before[0]:
                best_before = (before, idx)
            if piece.max_after is None or after > piece.max_after[0]:
                piece.max_after = (after, idx)
            w = after - best_before[0]
            if piece.within is None or w > piece.within[0]:
                piece.within = (w, best_before[1], idx)
    findings = []
    tightest = 0.0
    for a, pa in enumerate(seg):
        if pa.min_before is None:
            continue
        for b in range(a, len(seg)):
            pb = seg[b]
            if pb.max_after is None:
                continue
            limits = [p.limit for p in seg[a:b + 1]]
            allowance = KIB * max(limits) + CHUNK * connections * (1 + (b - a))
            if a == b:
                over_rate, i, j = pa.within
            else:
                over_rate = pb.max_after[0] - pa.min_before[0]
                i, j = pa.min_before[1], pb.max_after[1]
            if allowance > 0:
                tightest = max(tightest, over_rate / allowance)
            excess = over_rate - allowance
            if excess > eps:
                t_i = pa.grants[i][0]
                t_j = pb.grants[j][0]
                integral = (pb.base + KIB * pb.limit * (t_j - pb.t)) - (pa.base + KIB * pa.limit * (t_i - pa.t))
                findings.append({
                    'changes': b - a,
                    'direction': _direction(limits),
                    'after': pa.opened,
                    'limits': limits,
                    't0': t_i - origin, 't1': t_j - origin, 'origin': origin,
                    'granted': over_rate + integral,
                    'rate_term': integral,
                    'burst_term': KIB * max(limits),
                    'slack_term': CHUNK * connections * (1 + (b - a)),
                    'excess': excess,
                })
    stats = {'grants': ngrants, 'pieces': len(seg), 'tightest': tightest,
             'windows': ngrants * (ngrants + 1) // 2}
    return findings, stats


def window_findings(initial_kbps: int, t_begin: float, events, connections: int):
    findings = []
    stats = {'grants': 0, 'windows': 0, 'tightest': 0.0, 'segments': 0, 'pieces': 0}
    for seg in split_segments(initial_kbps, t_begin, events):
        f, s = evaluate_segment(seg, connections)
        findings.extend(f)
        stats['grants'] += s['grants']
        stats['windows'] += s['windows']
        stats['pieces'] += s['pieces']
        stats['segments'] += 1
        stats['tightest'] = max(stats['tightest'], s['tightest'])
    return findings, stats


def brute_force_findings(initial_kbps: int, t_begin: float, events, connections: int, eps: float = 1e-3):
    """O(m^2) restatement of the bound, used only to cross-check ``window_findings``."""
    out = 0
    worst = 0.0
    for seg in split_segments(initial_kbps, t_begin, events):
        flat = []
        for a, piece in enumerate(seg):
            for (t, nbytes, _tag) in piece.grants:
                flat.append((a, t, nbytes))

        def integral(a, ta, b, tb):
            if a == b:
                return KIB * seg[a].limit * (tb - ta)
            s = KIB * seg[a].limit * (seg[a + 1].t - ta)
            for k in range(a + 1, b):
                s += KIB * seg[k].limit * (seg[k + 1].t - seg[k].t)
            return s + KIB * seg[b].limit * (tb - seg[b].t)
        for i in range(len(flat)):
            s = 0
            for j in range(i, len(flat)):
                s += flat[j][2]
                a, b = flat[i][0], flat[j][0]
                bound = (integral(a, flat[i][1], b, flat[j][1]) + KIB * max(p.limit for p in seg[a:b + 1])
                         + CHUNK * connections * (1 + b - a))
                if s - bound > eps:
                    out += 1
                    worst = max(worst, s - bound)
    return out, worst
